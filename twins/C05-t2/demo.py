"""Demo / regression check for C05 (refactoring 2: ``xyzpy.save_merge_ds``,
the load - merge by policy - save cycle acting directly on the disk dataset).

Run as:  cd <worktree> && /venv/bin/python /path/to/demo.py

A tiny reference model (python dicts) of "memory" and "disk" is kept next to
the real files / Harvester objects; after every step the on-disk dataset (and
the harvester's in-memory one) is compared with the model, point by point.
"""
import os
import sys

sys.path.insert(0, os.getcwd())

import copy
import itertools
import math
import random
import shutil
import tempfile
import warnings

warnings.simplefilter("ignore")

import numpy as np
import xarray as xr

import xyzpy as xyz
from xyzpy.manage import auto_add_extension

assert os.path.abspath(xyz.__file__).startswith(os.getcwd()), xyz.__file__

MergeError = xr.MergeError

OFFSET = [0.0]


def fn(a, b):
    return float(10 * a + b) + OFFSET[0]


RUNNER_KW = dict(verbosity=0)


# ------------------------------ the model --------------------------------- #

class Conflict(Exception):
    pass


class M:
    """Model of a dataset: values at points + coordinate sets."""

    def __init__(self, vals, A, B):
        self.vals = dict(vals)
        self.A = set(A)
        self.B = set(B)

    def copy(self):
        return M(self.vals, self.A, self.B)


def policy(old, new, overwrite):
    if old is None:
        return new.copy()
    if overwrite is True:
        vals = {**old.vals, **new.vals}
    elif overwrite is False:
        vals = {**new.vals, **old.vals}
    else:
        for k, v in new.vals.items():
            if k in old.vals and old.vals[k] != v:
                raise Conflict(k)
        vals = {**old.vals, **new.vals}
    return M(vals, old.A | new.A, old.B | new.B)


def check_ds(ds, m, what):
    if m is None:
        assert ds is None, (what, ds)
        return
    assert ds is not None, what
    assert set(ds['a'].values.tolist()) == m.A, (what, ds['a'].values, m.A)
    assert set(ds['b'].values.tolist()) == m.B, (what, ds['b'].values, m.B)
    assert len(ds['a']) == len(m.A) and len(ds['b']) == len(m.B), what
    n = 0
    for a, b in itertools.product(sorted(m.A), sorted(m.B)):
        v = float(ds['out'].sel(a=a, b=b).values)
        if (a, b) in m.vals:
            assert v == m.vals[(a, b)], (what, a, b, v, m.vals[(a, b)])
            n += 1
        else:
            assert math.isnan(v), (what, a, b, v)
    assert int(ds['out'].notnull().sum()) == n == len(m.vals), what


# ------------------------------ the harness -------------------------------- #

class World:

    def __init__(self, tmpdir, engine, rng):
        self.dir = tmpdir
        self.engine = engine
        self.rng = rng
        self.ext = {'h5netcdf': '.h5', 'joblib': '.dmp'}[engine]
        self.base = os.path.join(tmpdir, 'data')
        self.path = self.base + self.ext
        self.disk = None
        self.mem = None
        self.h = None
        self.runner = xyz.Runner(fn, var_names='out')
        self.new_session()

    # -- helpers
    def new_session(self):
        name = self.rng.choice([self.base, self.path])
        self.h = xyz.Harvester(self.runner, data_name=name,
                               engine=self.engine)
        self.mem = None

    def _apply(self, new, sync, overwrite, call):
        """``call()`` performs the real thing, here is what should happen."""
        if sync and self.disk is not None:
            self.mem = self.disk.copy()
        try:
            expected = policy(self.mem, new, overwrite)
        except Conflict:
            expected = None
        if expected is None:
            try:
                call()
            except MergeError:
                pass
            else:
                raise AssertionError("conflict did not raise")
        else:
            call()
            self.mem = expected
            if sync:
                self.disk = expected.copy()

    def check(self, synced):
        # memory (``full_ds`` lazily loads the disk one if nothing in memory)
        if self.mem is None and self.disk is not None:
            self.mem = self.disk.copy()
        check_ds(self.h.full_ds, self.mem, 'memory')
        # disk
        if self.disk is None:
            assert not os.path.exists(self.path)
        else:
            on_disk = xyz.load_ds(self.path, engine=self.engine)
            check_ds(on_disk, self.disk, 'disk')
            if synced:
                xr.testing.assert_equal(
                    on_disk.sortby(['a', 'b']),
                    self.h.full_ds.sortby(['a', 'b']))
        # never any stray files (e.g. temporaries) left behind
        assert set(os.listdir(self.dir)) <= {os.path.basename(self.path)}

    # -- steps
    def rand_coords(self):
        rng = self.rng
        A = rng.sample(range(1, 6), rng.randint(1, 3))
        B = rng.sample(range(1, 5), rng.randint(1, 3))
        return A, B

    def step_combos(self, sync, overwrite):
        A, B = self.rand_coords()
        OFFSET[0] = self.rng.choice([0.0, 0.0, 0.5])
        new = M({(a, b): fn(a, b) for a in A for b in B}, A, B)
        self._apply(new, sync, overwrite, lambda: self.h.harvest_combos(
            {'a': A, 'b': B}, sync=sync, overwrite=overwrite, **RUNNER_KW))
        if self.mem is not None:
            assert self.h.last_ds is not self.h.full_ds

    def step_cases(self, sync, overwrite):
        A, B = self.rand_coords()
        pts = self.rng.sample([(a, b) for a in A for b in B],
                              self.rng.randint(1, min(3, len(A) * len(B))))
        OFFSET[0] = self.rng.choice([0.0, 0.0, 0.5])
        new = M({p: fn(*p) for p in pts},
                {p[0] for p in pts}, {p[1] for p in pts})
        cases = [{'a': a, 'b': b} for a, b in pts]
        self._apply(new, sync, overwrite, lambda: self.h.harvest_cases(
            cases, sync=sync, overwrite=overwrite, **RUNNER_KW))

    def step_add_ds(self, sync, overwrite):
        A, B = self.rand_coords()
        OFFSET[0] = self.rng.choice([0.0, 0.0, 0.5])
        ds = xyz.Runner(fn, var_names='out').run_combos(
            {'a': A, 'b': B}, **RUNNER_KW)
        new = M({(a, b): fn(a, b) for a in A for b in B}, A, B)
        obj = ds['out'] if self.rng.random() < 0.5 else ds
        before = ds.copy(deep=True)
        self._apply(new, sync, overwrite, lambda: self.h.add_ds(
            obj, sync=sync, overwrite=overwrite))
        # the supplied data is never modified, nor aliased by the full dataset
        xr.testing.assert_identical(ds, before)
        assert self.h._full_ds is not ds

    def step_save_merge_ds(self, overwrite):
        A, B = self.rand_coords()
        OFFSET[0] = self.rng.choice([0.0, 0.0, 0.5])
        ds = xyz.Runner(fn, var_names='out').run_combos(
            {'a': A, 'b': B}, **RUNNER_KW)
        new = M({(a, b): fn(a, b) for a in A for b in B}, A, B)
        fname = self.rng.choice([self.base, self.path])
        try:
            expected = policy(self.disk, new, overwrite)
        except Conflict:
            try:
                xyz.save_merge_ds(ds, fname, overwrite=overwrite,
                                  engine=self.engine)
            except MergeError:
                pass
            else:
                raise AssertionError("conflict did not raise")
        else:
            xyz.save_merge_ds(ds, fname, overwrite=overwrite,
                              engine=self.engine)
            self.disk = expected

    def step_drop_sel(self):
        if self.mem is None and self.disk is not None:
            self.mem = self.disk.copy()
        if self.mem is None or len(self.mem.A) < 2:
            return False
        x = self.rng.choice(sorted(self.mem.A))
        self.h.drop_sel(a=[x])
        self.mem.A.discard(x)
        self.mem.vals = {k: v for k, v in self.mem.vals.items() if k[0] != x}
        self.disk = self.mem.copy()
        return True

    def run_sequence(self, length):
        rng = self.rng
        for _ in range(length):
            if rng.random() < 0.25:
                self.new_session()
            kind = rng.choice(['combos', 'cases', 'add_ds', 'save_merge_ds',
                               'save_merge_ds', 'save_merge_ds', 'drop_sel'])
            sync = rng.random() < 0.75
            overwrite = rng.choice([None, None, True, False])
            synced = sync
            if kind == 'combos':
                self.step_combos(sync, overwrite)
            elif kind == 'cases':
                self.step_cases(sync, overwrite)
            elif kind == 'add_ds':
                self.step_add_ds(sync, overwrite)
            elif kind == 'save_merge_ds':
                self.step_save_merge_ds(overwrite)
                synced = False
            else:
                synced = self.step_drop_sel()
            self.check(synced)


def random_sequences(n_seq, seed):
    rng = random.Random(seed)
    count = 0
    for engine in ['h5netcdf', 'joblib']:
        for i in range(n_seq):
            tmpdir = tempfile.mkdtemp()
            try:
                w = World(tmpdir, engine, rng)
                length = 1 + i % 8
                w.run_sequence(length)
                count += length
            finally:
                shutil.rmtree(tmpdir)
    return count


# ------------------------- deterministic scenarios ------------------------- #


def grid(A, B, offset=0.0):
    OFFSET[0] = offset
    return xyz.Runner(fn, var_names='out').run_combos(
        {'a': A, 'b': B}, **RUNNER_KW)


def cases(pts, offset=0.0):
    OFFSET[0] = offset
    return xyz.Runner(fn, var_names='out').run_cases(
        [{'a': a, 'b': b} for a, b in pts], **RUNNER_KW)


def read_bytes(path):
    with open(path, 'rb') as f:
        return f.read()


ENGINES = [('h5netcdf', '.h5', {}), ('joblib', '.dmp', {}),
           ('joblib', '.dmp', {'compress': 3}), (None, '.h5', {})]


def scenario_save_merge_ds():
    for (engine, ext, extra), with_ext in itertools.product(
            ENGINES, [False, True]):
        kws = dict(extra)
        if engine is not None:
            kws['engine'] = engine
        load_engine = engine or 'h5netcdf'
        tmpdir = tempfile.mkdtemp()
        try:
            fname = os.path.join(tmpdir, 'sm') + (ext if with_ext else '')
            path = os.path.join(tmpdir, 'sm') + ext
            assert auto_add_extension(fname, load_engine) == path

            def on_disk():
                assert os.listdir(tmpdir) == ['sm' + ext]
                return xyz.load_ds(fname, engine=load_engine)

            # nothing there yet -> any policy just writes the data
            for overwrite in [None, True, False, 0, 1]:
                first = grid([1, 2], [1, 2])
                keep = first.copy(deep=True)
                assert not os.path.exists(path)
                xyz.save_merge_ds(first, fname, overwrite=overwrite, **kws)
                xr.testing.assert_equal(on_disk(), keep)
                xr.testing.assert_equal(first, keep)
                os.remove(path)

            xyz.save_merge_ds(grid([1, 2], [1, 2]), fname, **kws)
            m = M({(a, b): 10.0 * a + b for a in [1, 2] for b in [1, 2]},
                  [1, 2], [1, 2])
            check_ds(on_disk(), m, 'disk')

            # disjoint and identical data merges under every policy
            for i, overwrite in enumerate([None, True, False, 1, 0, 'x']):
                a = 3 + i
                xyz.save_merge_ds(grid([a], [1, 2]), fname,
                                  overwrite=overwrite, **kws)
                xyz.save_merge_ds(grid([1, a], [2]), fname,
                                  overwrite=overwrite, **kws)
                m.A.add(a)
                m.vals.update({(a, 1): 10.0 * a + 1, (a, 2): 10.0 * a + 2})
                check_ds(on_disk(), m, 'disk')

            # sparse (cases) data, filling a hole + overlapping identical
            xyz.save_merge_ds(cases([(1, 3), (2, 2)]), fname, **kws)
            m.B.add(3)
            m.vals[(1, 3)] = 13.0
            check_ds(on_disk(), m, 'disk')

            # conflicts: default policy (anything but True / False) raises
            # and leaves the file exactly as it was
            raw = read_bytes(path)
            for overwrite in [None, 1, 0, 'x']:
                try:
                    xyz.save_merge_ds(grid([2, 9], [2, 3], offset=0.5), fname,
                                      overwrite=overwrite, **kws)
                except MergeError:
                    pass
                else:
                    raise AssertionError(overwrite)
                assert read_bytes(path) == raw
                check_ds(on_disk(), m, 'disk')

            # overwrite=False keeps the old, only adds the new points
            xyz.save_merge_ds(grid([2, 9], [2, 3], offset=0.5), fname,
                              overwrite=False, **kws)
            m.A.add(9)
            m.vals.update({(2, 3): 23.5, (9, 2): 92.5, (9, 3): 93.5})
            check_ds(on_disk(), m, 'disk')

            # overwrite=True takes the new, keeps all other old points
            xyz.save_merge_ds(cases([(1, 1), (9, 3), (10, 4)], offset=0.25),
                              fname, overwrite=True, **kws)
            m.A.add(10)
            m.B.add(4)
            m.vals.update({(1, 1): 11.25, (9, 3): 93.25, (10, 4): 104.25})
            check_ds(on_disk(), m, 'disk')

            # a harvester pointing at the same data sees exactly this, and
            # carries on from it
            for name in [os.path.join(tmpdir, 'sm'), path]:
                h = xyz.Harvester(xyz.Runner(fn, var_names='out'), name,
                                  engine=load_engine)
                check_ds(h.full_ds, m, 'harvester')
            OFFSET[0] = 0.0
            h.harvest_combos({'a': [11], 'b': [1]}, **RUNNER_KW)
            m.A.add(11)
            m.vals[(11, 1)] = 111.0
            check_ds(on_disk(), m, 'disk')
            # ... and save_merge_ds carries on from the harvester's file
            xyz.save_merge_ds(grid([11, 12], [1]), fname, **kws)
            m.A.add(12)
            m.vals[(12, 1)] = 121.0
            check_ds(on_disk(), m, 'disk')
        finally:
            shutil.rmtree(tmpdir)


def scenario_bad_engine():
    """Unknown engine and no extension: fails before touching anything."""
    tmpdir = tempfile.mkdtemp()
    try:
        fname = os.path.join(tmpdir, 'bad')
        for overwrite in [None, True, False]:
            try:
                xyz.save_merge_ds(grid([1], [1]), fname, overwrite=overwrite,
                                  engine='nope')
            except KeyError:
                pass
            else:
                raise AssertionError
            assert os.listdir(tmpdir) == []
    finally:
        shutil.rmtree(tmpdir)


if __name__ == '__main__':
    scenario_save_merge_ds()
    scenario_bad_engine()
    nsteps = random_sequences(n_seq=40, seed=2505)
    print("checked", nsteps, "random steps")
    print("PASS")
