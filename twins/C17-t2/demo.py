"""Demo / check for refactoring 2 (core.Plotter.calc_color_norm and
core.Plotter.calc_line_colors).

Run as:  cd <worktree> && /venv/bin/python /tmp/tw/C17.out/t2/demo.py

Checks that colours assigned from the z coordinate, or from a separate ``c``
variable, are the chosen colormap evaluated at the normalised value, for any
number of series, for lineplot / scatter / histogram, that heat maps use the
right norm, that zlims / vmin / vmax / colormap_log / colormap_reverse are
honoured, and that the dataset is never modified.
"""
import os
import sys
import warnings

sys.path.insert(0, os.getcwd())
warnings.filterwarnings("ignore")

import matplotlib  # noqa: E402

matplotlib.use("Agg")

import logging  # noqa: E402

logging.getLogger("matplotlib.font_manager").setLevel(logging.ERROR)

import matplotlib.pyplot as plt  # noqa: E402
import numpy as np  # noqa: E402
import xarray as xr  # noqa: E402
from matplotlib.colors import Normalize, LogNorm, to_rgba  # noqa: E402

import xyzpy  # noqa: E402
from xyzpy.plot.xyz_cmaps import _XYZ_CMAPS  # noqa: E402

assert os.path.abspath(xyzpy.__file__).startswith(os.getcwd()), xyzpy.__file__

NCHECK = 0


def check(cond, msg):
    global NCHECK
    NCHECK += 1
    if not cond:
        print("FAIL:", msg)
        sys.exit(1)


def close(a, b):
    a = np.asarray(a, dtype=float)
    b = np.asarray(b, dtype=float)
    return a.shape == b.shape and np.allclose(a, b, rtol=1e-12, atol=1e-12)


def get_cmap(name, reverse=False):
    """Independent colormap lookup (no colorcet / cmocean installed here)."""
    if name is None:
        name = "xyz"
    if reverse:
        name = name + "_r"
    if name in _XYZ_CMAPS:
        return _XYZ_CMAPS[name]
    return matplotlib.colormaps[name]


def make_ds(rng, zvals, nx=6):
    nz = len(zvals)
    y = rng.uniform(1, 2, size=(nz, nx))
    if nz > 1:
        y[1, :] = np.nan  # an all-NaN series still takes its colour
    y[0, 2] = np.inf
    return xr.Dataset(
        {
            "y": (("z", "x"), y),
            "cz": ("z", rng.uniform(0.5, 9.0, size=nz)),
            "cxz": (("z", "x"), rng.uniform(0, 5, size=(nz, nx))),
        },
        coords={"x": np.linspace(1, 2, nx), "z": zvals},
    )


def expected_norm(vals, zlims=(None, None), vmin=None, vmax=None, log=False):
    lo = vals.min().item() if zlims[0] is None else zlims[0]
    hi = vals.max().item() if zlims[1] is None else zlims[1]
    lo = lo if vmin is None else vmin
    hi = hi if vmax is None else vmax
    return (LogNorm if log else Normalize)(vmin=lo, vmax=hi), lo, hi


def series_colors(P, kind):
    ax = P._fig.axes[0]
    if kind == "lineplot":
        return [to_rgba(ln.get_color()) for ln in ax.get_lines()]
    elif kind == "scatter":
        return [tuple(pc.get_facecolor()[0]) if len(pc.get_offsets()) else None
                for pc in ax.collections]


def check_z_colors(ds, kind, cmap_name=None, reverse=False, **opts):
    ref = ds.copy(deep=True)
    fn = getattr(xyzpy, kind)
    P = fn(ds, "x", "y", "z", colors=True, colormap=cmap_name,
           colormap_reverse=reverse, call="both", **opts)
    zv = ds["z"].values
    cmap = get_cmap(cmap_name, reverse)
    if zv.dtype.kind in "iuf":
        norm, lo, hi = expected_norm(
            zv, opts.get("zlims", (None, None)), opts.get("vmin"),
            opts.get("vmax"), opts.get("colormap_log", False))
        want = [cmap(norm(z)) for z in zv]
        check(P.vmin == lo and P.vmax == hi, f"vmin/vmax {opts}")
        check(type(P._color_norm) is type(norm), "norm class")
        check(P.mappable.norm is P._color_norm and P.mappable.cmap is P.cmap,
              "mappable")
    else:
        want = [cmap(r) for r in np.linspace(0, 1, len(zv))]
        check((P._zmin, P._zmax) == (0.0, 1.0), "str z range")
    got = series_colors(P, kind)
    check(len(got) == len(zv), f"n series {kind}")
    for i, (g, w) in enumerate(zip(got, want)):
        if g is None:
            continue  # empty scatter collection, no facecolor to look at
        if kind == "scatter":
            w = w[:3] + (w[3] * P.marker_alpha,)
        check(close(g, w), f"{kind} colour {i}/{len(zv)} {cmap_name} {opts}")
    # legend/colorbar automatic choice
    if "legend" not in opts and "colorbar" not in opts:
        n_axes = 1 if 1 < len(zv) <= 10 else 2
        check(len(P._fig.axes) == n_axes, "auto legend vs colorbar")
    check(ds.identical(ref), "dataset unmodified")
    return P


def check_c_colors(ds, cmap_name=None, reverse=False, **opts):
    """lineplot line colours from a separate per-z variable."""
    ref = ds.copy(deep=True)
    P = xyzpy.lineplot(ds, "x", "y", "z", c="cz", colormap=cmap_name,
                       colormap_reverse=reverse, call="both", **opts)
    cv = ds["cz"].values
    cmap = get_cmap(cmap_name, reverse)
    norm, lo, hi = expected_norm(
        cv, opts.get("zlims", (None, None)), opts.get("vmin"),
        opts.get("vmax"), opts.get("colormap_log", False))
    got = series_colors(P, "lineplot")
    check(len(got) == len(cv), "n lines (c)")
    for i, (g, c) in enumerate(zip(got, cv)):
        check(close(g, cmap(norm(c))), f"c colour {i} {cmap_name} {opts}")
    check(P.vmin == lo and P.vmax == hi, "c vmin/vmax")
    check(P._ctitle == "cz", "colorbar title is c variable")
    check(len(P._fig.axes) == 2, "colorbar for c")
    cb = P._fig.axes[1]
    if lo < hi:
        check(close(cb.get_ylim(), (lo, hi)), "colorbar range")
    check(ds.identical(ref), "dataset unmodified (c)")


def check_histogram_colors(rng):
    zv = np.array([1.0, 2.0, 4.0, 8.0])
    ds = xr.Dataset({"v": (("z", "n"), rng.normal(size=(4, 50)))},
                    coords={"z": zv})
    ref = ds.copy(deep=True)
    for log in (False, True):
        P = xyzpy.histogram(ds, "v", z="z", colors=True, colormap="viridis",
                            colormap_log=log, marker_alpha=0.8, call="both")
        norm, _, _ = expected_norm(zv, log=log)
        cmap = get_cmap("viridis")
        patches = P._fig.axes[0].patches
        check(len(patches) == 4, "one step-filled patch per z")
        # (matplotlib adds step-filled patches to the axes in reverse order)
        by_label = {patch.get_label(): patch for patch in patches}
        check(sorted(by_label) == sorted(str(z) for z in zv), "hist labels")
        for z in zv:
            patch = by_label[str(z)]
            col = cmap(norm(z))
            check(close(patch.get_edgecolor(), col[:3] + (0.8 * col[3],)),
                  "hist edge colour")
            check(close(patch.get_facecolor(), col[:3] + (0.8 * col[3] / 4,)),
                  "hist face colour")
    check(ds.identical(ref), "dataset unmodified (hist)")


def check_heatmap_norm(rng):
    zz = rng.uniform(1, 10, size=(4, 5))
    zz[1, 2] = np.nan
    ds = xr.Dataset({"h": (("x", "y"), zz)},
                    coords={"x": np.arange(4.0), "y": np.arange(5.0) * 2})
    ref = ds.copy(deep=True)
    lo, hi = np.nanmin(zz), np.nanmax(zz)
    cases = [
        ({}, lo, hi, Normalize),
        ({"colormap_log": True}, lo, hi, LogNorm),
        ({"zlims": (2.0, None)}, 2.0, hi, Normalize),
        ({"zlims": (None, 7.0)}, lo, 7.0, Normalize),
        ({"vmin": 3.0, "vmax": 6.0}, 3.0, 6.0, Normalize),
        ({"zlims": (0.0, 20.0), "vmax": 6.0}, 0.0, 6.0, Normalize),
    ]
    for opts, elo, ehi, cls in cases:
        P = xyzpy.heatmap(ds, "x", "y", "h", call="both", **opts)
        qm = P._heatmap
        check(type(qm.norm) is cls, f"heatmap norm class {opts}")
        check(qm.norm.vmin == elo and qm.norm.vmax == ehi,
              f"heatmap norm range {opts}")
        arr = np.ma.masked_invalid(zz.T)
        got = np.ma.asarray(qm.get_array()).reshape(arr.shape)
        check(np.array_equal(np.ma.getmaskarray(got), np.ma.getmaskarray(arr)),
              "heatmap mask")
        check(np.array_equal(got.filled(0), arr.filled(0)), "heatmap values")
        check(qm.get_cmap() is matplotlib.colormaps["inferno"] or
              qm.get_cmap().name == "inferno", "heatmap cmap")
        check(len(P._fig.axes) == 2, "heatmap colorbar")
    # integer z data
    ds_i = xr.Dataset({"h": (("x", "y"), np.arange(12).reshape(3, 4))},
                      coords={"x": [0, 1, 2], "y": [0, 1, 2, 3]})
    P = xyzpy.heatmap(ds_i, "x", "y", "h", call="both", colormap="viridis",
                      colormap_reverse=True)
    check((P._heatmap.norm.vmin, P._heatmap.norm.vmax) == (0, 11), "int z")
    check(P.cmap.name == "viridis_r", "reversed cmap for colorbar")
    check(ds.identical(ref), "dataset unmodified (heatmap)")


def check_grid_colors(rng):
    """Row / col grid: every panel uses the *global* colour normalisation."""
    zv = np.array([1.0, 3.0, 4.0])
    y = rng.uniform(size=(2, 3, 5))
    cv = rng.uniform(1, 10, size=(2, 3))
    ds = xr.Dataset({"y": (("r", "z", "x"), y), "cv": (("r", "z"), cv)},
                    coords={"r": [10, 20], "z": zv, "x": np.arange(5.0)})
    ref = ds.copy(deep=True)
    cmap = get_cmap("viridis")

    fig = xyzpy.lineplot(ds, "x", "y", "z", row="r", colors=True,
                         colormap="viridis")
    norm = Normalize(1.0, 4.0)
    for ax in fig.axes[:2]:
        for z, ln in zip(zv, ax.get_lines()):
            check(close(to_rgba(ln.get_color()), cmap(norm(z))), "grid z col")

    fig = xyzpy.lineplot(ds, "x", "y", "z", col="r", c="cv",
                         colormap="viridis", colormap_log=True)
    norm = LogNorm(cv.min(), cv.max())
    for i, ax in enumerate(fig.axes[:2]):
        lines = ax.get_lines()
        check(len(lines) == 3, "grid n lines")
        for j, ln in enumerate(lines):
            check(close(to_rgba(ln.get_color()), cmap(norm(cv[i, j]))),
                  "grid c col")
    check(len(fig.axes) == 3, "grid colorbar")
    check(ds.identical(ref), "dataset unmodified (grid)")


def check_non_auto_colors(rng):
    """Explicit colours / default cycle are not affected by the norm code."""
    ds = make_ds(rng, np.array([1, 2, 3]))
    fig = xyzpy.lineplot(ds, "x", "y", "z", colors=["red", "b", (0, 1, 0)])
    got = [to_rgba(ln.get_color()) for ln in fig.axes[0].get_lines()]
    check(got == [to_rgba("red"), to_rgba("b"), (0, 1, 0, 1)], "manual cols")
    fig = xyzpy.lineplot(ds, "x", "y", "z")
    got = [to_rgba(ln.get_color()) for ln in fig.axes[0].get_lines()]
    want = [rgb + (1.0,) for rgb in matplotlib.cm.tab10.colors[:3]]
    check(close(got, want), "default colour cycle")
    try:
        xyzpy.lineplot(ds, "x", "y", "z", colors=True, c="cz")
    except ValueError as e:
        check("explicit colors" in str(e), "colors + c refused")
    else:
        check(False, "colors + c should raise")
    finally:
        plt.close("all")


def main():
    rng = np.random.default_rng(7)
    z_sets = [
        np.array([3.5]),
        np.array([1, 2]),
        np.array([1.0, 2.0, 5.0, 10.0, 20.0]),
        np.arange(1, 13, dtype=np.uint8),
        np.linspace(0.1, 30, 25),
        np.array(["a", "b", "c", "d"]),
        np.array(["only"]),
    ]
    for zv in z_sets:
        ds = make_ds(rng, zv)
        numeric = zv.dtype.kind in "iuf"
        for kind in ("lineplot", "scatter"):
            check_z_colors(ds, kind)
            check_z_colors(ds, kind, "viridis")
            check_z_colors(ds, kind, "viridis", reverse=True)
            check_z_colors(ds, kind, "xyz", reverse=True)
            check_z_colors(ds, kind, matplotlib.colormaps["plasma"].name,
                           legend=True)
            if numeric:
                if len(zv) > 1:
                    # (LogNorm with vmin == vmax is degenerate)
                    check_z_colors(ds, kind, "viridis", colormap_log=True)
                check_z_colors(ds, kind, "magma", zlims=(0.05, None))
                check_z_colors(ds, kind, "magma", zlims=(None, 40))
                check_z_colors(ds, kind, "magma", zlims=(0.05, 40),
                               colormap_log=True)
                check_z_colors(ds, kind, "magma", vmin=-1.0)
                check_z_colors(ds, kind, "magma", vmin=0.01, vmax=50.0,
                               zlims=(0.5, 35), colorbar=True)
        check_c_colors(ds)
        check_c_colors(ds, "viridis", reverse=True)
        if len(zv) > 1:
            check_c_colors(ds, "viridis", colormap_log=True)
        check_c_colors(ds, "cividis", zlims=(0.1, None), vmax=12.0)
        check_c_colors(ds, "cividis", zlims=(0.1, 10.0), legend=True)

    # a Colormap instance instead of a name
    ds = make_ds(rng, np.array([1.0, 2.0, 3.0]))
    cm_obj = matplotlib.colormaps["coolwarm"]
    P = xyzpy.lineplot(ds, "x", "y", "z", colors=True, colormap=cm_obj,
                       call="both")
    for z, g in zip([1.0, 2.0, 3.0], series_colors(P, "lineplot")):
        check(close(g, cm_obj(Normalize(1.0, 3.0)(z))), "Colormap instance")

    # auto_lineplot: z is the integer index of each series
    ys = rng.uniform(size=(4, 5))
    fig = xyzpy.auto_lineplot(np.arange(5.0), ys, colors=True,
                              colormap="viridis")
    for i, ln in enumerate(fig.axes[0].get_lines()):
        check(close(to_rgba(ln.get_color()),
                    get_cmap("viridis")(Normalize(0, 3)(i))), "auto colours")

    check_histogram_colors(rng)
    check_heatmap_norm(rng)
    check_grid_colors(rng)
    check_non_auto_colors(rng)
    print(f"{NCHECK} checks")
    print("PASS")


if __name__ == "__main__":
    main()
