"""C10 demo (twin t8): kill a worker at every file-system operation boundary
while sowing / growing / reaping small crops (raw, Runner, Harvester, Sampler)
and check that

* a reap attempted on the crash state either refuses or returns exact data,
* the documented recovery (re-sow if incomplete, check_bad, grow_missing, reap)
  reaches exactly the results of an uninterrupted run (also with a second
  crash during the recovery),
* data already merged into the harvester / sampler file survives.

The crash is simulated in-process: every file-system operation used by
``xyzpy.gen.cropping`` / ``xyzpy.gen.farming`` is wrapped, a counter picks the
operation at which ``Kill`` (a BaseException) is raised, and from then on the
"dead" process cannot touch the disk any more (so ``__exit__`` handlers that a
real SIGKILL would never run have no effect).

Run as:  cd <worktree> && /venv/bin/python /path/to/demo.py
Prints PASS and exits 0 if every check holds.
"""
import os
import sys

sys.path.insert(0, os.getcwd())

import glob
import math
import shutil
import tempfile
import warnings

import numpy as np
import pandas as pd
import xarray as xr

import xyzpy
from xyzpy.gen import cropping, farming

warnings.filterwarnings("ignore")

assert os.path.dirname(os.path.dirname(os.path.abspath(xyzpy.__file__))) == \
    os.path.abspath(os.getcwd()), xyzpy.__file__


# ----------------------------- crash machinery ----------------------------- #

class Kill(BaseException):
    pass


class Clock:
    def __init__(self):
        self.reset()

    def reset(self, target=None):
        self.n = 0
        self.target = target
        self.dead = False
        self.where = None

    def tick(self, label):
        if self.dead:
            return
        self.n += 1
        if self.n == self.target:
            self.dead = True
            self.where = label
            raise Kill(label)


CLOCK = Clock()
_real_open = open


class _WFile:
    """Write-mode file whose every operation is a possible crash point; a
    crash at a write leaves a prefix of the data in the file."""

    def __init__(self, name, mode):
        CLOCK.tick("before open " + os.path.basename(name))
        if CLOCK.dead:
            self.f = _real_open(os.devnull, mode)
        else:
            self.f = _real_open(name, mode)
        CLOCK.tick("after create " + os.path.basename(name))

    def write(self, data):
        if CLOCK.dead:
            return len(data)
        try:
            CLOCK.tick("partial write")
        except Kill:
            self.f.write(data[: len(data) // 2])
            self.f.flush()
            raise
        return self.f.write(data)

    def __enter__(self):
        return self

    def __exit__(self, *exc):
        if not CLOCK.dead:
            CLOCK.tick("before close")
        self.f.close()
        CLOCK.tick("after close")
        return False


def _open(name, mode="r", *args, **kwargs):
    if "w" in mode:
        return _WFile(name, mode)
    return _real_open(name, mode, *args, **kwargs)


def _rmtree(path):
    if CLOCK.dead:
        return
    if not os.path.isdir(path):
        raise FileNotFoundError(path)
    for dirpath, _, filenames in os.walk(path, topdown=False):
        for f in sorted(filenames):
            CLOCK.tick("before removing " + f)
            os.remove(os.path.join(dirpath, f))
        CLOCK.tick("before rmdir " + os.path.basename(dirpath))
        os.rmdir(dirpath)
    CLOCK.tick("after rmtree")


class _Proxy:
    def __init__(self, real, **overrides):
        self._real = real
        self._overrides = overrides

    def __getattr__(self, name):
        ov = self.__dict__["_overrides"]
        if name in ov:
            return ov[name]
        return getattr(self.__dict__["_real"], name)


def _ticked(fn, name):
    def wrapped(*args, **kwargs):
        if CLOCK.dead:
            return None
        CLOCK.tick("before " + name)
        out = fn(*args, **kwargs)
        CLOCK.tick("after " + name)
        return out
    return wrapped


def _partial_saver(real, name):
    """save_ds / save_df: crash before, half way (truncated file) or after."""
    def wrapped(obj, file_name, *args, **kwargs):
        if CLOCK.dead:
            return None
        CLOCK.tick("before " + name)
        try:
            CLOCK.tick("during " + name)
        except Kill:
            real(obj, file_name, *args, **kwargs)
            size = os.path.getsize(file_name)
            with _real_open(file_name, "r+b") as f:
                f.truncate(size // 2)
            raise
        out = real(obj, file_name, *args, **kwargs)
        CLOCK.tick("after " + name)
        return out
    return wrapped


def install():
    # (no progress bars: ``reap`` has no verbosity option)
    from xyzpy.gen import combo_runner
    real_progbar = combo_runner.progbar
    combo_runner.progbar = (
        lambda *a, **kw: real_progbar(*a, **{**kw, "disable": True})
    )
    os_proxy = _Proxy(
        os,
        replace=_ticked(os.replace, "rename"),
        remove=_ticked(os.remove, "remove"),
        makedirs=_ticked(os.makedirs, "makedirs"),
    )
    sh_proxy = _Proxy(shutil, rmtree=_rmtree)
    cropping.os = os_proxy
    cropping.shutil = sh_proxy
    cropping.open = _open
    farming.os = os_proxy
    farming.shutil = sh_proxy
    farming.save_ds = _partial_saver(farming.save_ds, "save_ds")
    farming.save_df = _partial_saver(farming.save_df, "save_df")


# -------------------------------- scenarios -------------------------------- #

def fn(a, b):
    return 10.0 * a + b


KINDS = ("raw", "runner", "harvester", "sampler")
COMBOS = {"a": [3, 4, 5], "b": [1, 2]}
OLD_COMBOS = {"a": [1, 2], "b": [1, 2]}
SAMPLE_CASES = [(1, 1), (2, 5), (3, 2), (7, 7), (4, 0)]
OLD_SAMPLE_CASES = [(9, 9), (8, 1)]


def h5(root):
    return os.path.join(root, "harvest.h5")


def pkl(root):
    return os.path.join(root, "samples.pkl")


def make_crop(kind, root):
    """Fresh objects, as a newly started process would build them."""
    if kind == "raw":
        return xyzpy.Crop(fn=fn, name="c", parent_dir=root, batchsize=2)
    runner = xyzpy.Runner(fn, var_names="x")
    if kind == "runner":
        return runner.Crop(name="c", parent_dir=root, num_batches=4)
    if kind == "harvester":
        harvester = xyzpy.Harvester(runner, data_name=h5(root))
        return harvester.Crop(name="c", parent_dir=root, batchsize=2)
    sampler = xyzpy.Sampler(runner, data_name=pkl(root))
    return sampler.Crop(name="c", parent_dir=root, batchsize=2)


def sow(kind, crop):
    if kind == "sampler":
        crop.sow_cases(("a", "b"), SAMPLE_CASES, verbosity=0)
    else:
        crop.sow_combos(COMBOS, verbosity=0)


def pipeline(kind, root):
    crop = make_crop(kind, root)
    sow(kind, crop)
    # one batch through the module level function, like a cluster worker ...
    cropping.grow(1, crop=crop, verbosity=0)
    # ... one through Crop.grow, the rest through grow_missing
    crop.grow(2, verbosity=0)
    crop.grow_missing(verbosity=0)
    return crop.reap()


def sown_incomplete(crop):
    return (
        (not crop.is_prepared())
        or (crop.num_sown_batches != crop.num_batches)
        or not os.path.isfile(os.path.join(crop.location, cropping.FNCT_NM))
        # (a kill between the directory deletions of the final clean up can
        # leave a fully sown crop without its results directory)
        or not os.path.isdir(os.path.join(crop.location, "results"))
    )


def merged_on_disk(kind, root, expected_disk):
    if kind == "harvester":
        return same(load_disk(kind, root), expected_disk)
    if kind == "sampler":
        return same(load_disk(kind, root), expected_disk)
    return False


def recover(kind, root, expected_disk):
    """The documented recovery, done by a newly started process."""
    if kind == "sampler" and merged_on_disk(kind, root, expected_disk):
        # the samples are in the dataframe already: only the clean up of the
        # crop was interrupted (appending them again would duplicate rows)
        crop = make_crop(kind, root)
        if os.path.isdir(crop.location):
            crop.delete_all()
        return None
    crop = make_crop(kind, root)
    if sown_incomplete(crop):
        sow(kind, crop)
    crop.check_bad()
    crop.grow_missing(verbosity=0)
    return crop.reap()


def load_disk(kind, root):
    if kind == "harvester":
        if not os.path.exists(h5(root)):
            return None
        return xyzpy.load_ds(h5(root))
    if kind == "sampler":
        if not os.path.exists(pkl(root)):
            return None
        return pd.read_pickle(pkl(root))
    return None


def same(x, y):
    if x is None or y is None:
        return x is y
    if isinstance(x, xr.Dataset):
        return isinstance(y, xr.Dataset) and x.identical(y)
    if isinstance(x, pd.DataFrame):
        if not isinstance(y, pd.DataFrame):
            return False
        key = list(x.columns)
        if sorted(key) != sorted(y.columns):
            return False
        xs = x.sort_values(key).reset_index(drop=True)
        ys = y[key].sort_values(key).reset_index(drop=True)
        return xs.equals(ys)
    return x == y


def contains_old(kind, disk):
    """Is the data merged before this crop still in the on-disk file?"""
    if disk is None:
        return False
    if kind == "harvester":
        try:
            sub = disk.sel(a=OLD_COMBOS["a"], b=OLD_COMBOS["b"])
        except KeyError:
            return False
        want = [[fn(a, b) for b in OLD_COMBOS["b"]] for a in OLD_COMBOS["a"]]
        return np.array_equal(sub["x"].transpose("a", "b").values, want)
    rows = {(r.a, r.b, r.x) for r in disk.itertuples()}
    return all((a, b, fn(a, b)) in rows for a, b in OLD_SAMPLE_CASES)


def make_template(kind, root):
    """State before the crop under test: earlier data is merged already."""
    os.makedirs(root)
    if kind == "harvester":
        runner = xyzpy.Runner(fn, var_names="x")
        harvester = xyzpy.Harvester(runner, data_name=h5(root))
        crop = harvester.Crop(name="old", parent_dir=root, batchsize=3)
        crop.sow_combos(OLD_COMBOS, verbosity=0)
        crop.grow_missing(verbosity=0)
        crop.reap()
        assert not os.path.exists(crop.location)
    elif kind == "sampler":
        runner = xyzpy.Runner(fn, var_names="x")
        sampler = xyzpy.Sampler(runner, data_name=pkl(root))
        crop = sampler.Crop(name="old", parent_dir=root, batchsize=1)
        crop.sow_cases(("a", "b"), OLD_SAMPLE_CASES, verbosity=0)
        crop.grow_missing(verbosity=0)
        crop.reap()
        assert not os.path.exists(crop.location)


FAILS = []


def check(cond, msg):
    if not cond:
        FAILS.append(msg)
        if len(FAILS) <= 20:
            print("  problem:", msg)


def run_killed(action, target):
    """Run ``action`` with a kill at operation number ``target``. Returns
    the (non-empty) label of the operation if the kill happened."""
    CLOCK.reset(target)
    try:
        action()
    except Kill:
        pass
    except Exception:
        # an ``__exit__`` run while the Kill propagated masked it
        if not CLOCK.dead:
            raise
    killed = CLOCK.where if CLOCK.dead else None
    CLOCK.reset(None)
    return killed


def probe_reap(kind, state, scratch, reference, tag):
    """A reap on (a copy of) the crash state refuses or is exact."""
    probe = os.path.join(scratch, "probe")
    shutil.copytree(state, probe)
    try:
        try:
            crop = make_crop(kind, probe)
            got = crop.reap()
        except Exception:
            return
        check(same(got, reference), tag + ": reap of the crash state "
              "returned inexact data as if complete")
    finally:
        shutil.rmtree(probe)


def crash_sweep(kind, scratch):
    template = os.path.join(scratch, "template-" + kind)
    make_template(kind, template)

    # uninterrupted run
    ref_root = os.path.join(scratch, "ref-" + kind)
    shutil.copytree(template, ref_root)
    CLOCK.reset(None)
    reference = pipeline(kind, ref_root)
    n_ops = CLOCK.n
    ref_disk = load_disk(kind, ref_root)
    check(not os.path.exists(os.path.join(ref_root, ".xyz-c")),
          kind + ": crop not cleaned up after a complete reap")
    if kind in ("harvester", "sampler"):
        check(contains_old(kind, ref_disk), kind + ": reference lost old data")
    assert n_ops > 40, n_ops

    n_second = 0
    for k in range(1, n_ops + 1):
        root = os.path.join(scratch, "run-{}-{}".format(kind, k))
        shutil.copytree(template, root)
        where = run_killed(lambda: pipeline(kind, root), k)
        assert where, (kind, k)
        tag = "{} killed at op {} ({})".format(kind, k, where)

        # what was merged before must still be on disk at the crash instant
        if kind in ("harvester", "sampler"):
            check(contains_old(kind, load_disk(kind, root)),
                  tag + ": previously merged data is gone from disk")

        probe_reap(kind, root, scratch, reference, tag)

        # a second crash during the recovery, for a sample of first crashes
        if k % 6 == 0:
            CLOCK.reset(None)
            snapshot = root + "-snap"
            shutil.copytree(root, snapshot)
            recover(kind, snapshot, ref_disk)
            m_ops = CLOCK.n
            shutil.rmtree(snapshot)
            for j in range(1, m_ops + 1, 4):
                shutil.copytree(root, snapshot)
                if run_killed(lambda: recover(kind, snapshot, ref_disk), j):
                    n_second += 1
                    tag2 = tag + " then at recovery op {}".format(j)
                    if kind in ("harvester", "sampler"):
                        check(contains_old(kind, load_disk(kind, snapshot)),
                              tag2 + ": previously merged data is gone")
                    got = recover(kind, snapshot, ref_disk)
                    final_checks(kind, snapshot, got, reference, ref_disk, tag2)
                shutil.rmtree(snapshot)

        got = recover(kind, root, ref_disk)
        final_checks(kind, root, got, reference, ref_disk, tag)
        shutil.rmtree(root)

    print("{:9s}: {} crash points, {} double crashes".format(
        kind, n_ops, n_second))


def final_checks(kind, root, got, reference, ref_disk, tag):
    if got is not None:
        check(same(got, reference), tag + ": recovery reaped inexact results")
    check(same(load_disk(kind, root), ref_disk),
          tag + ": on-disk data differs from an uninterrupted run")
    check(not os.path.exists(os.path.join(root, ".xyz-c")),
          tag + ": crop left behind after the recovery reap")


# ------------------------- further refactored paths ------------------------ #

def other_paths(scratch):
    # incomplete reap: stand-ins sized like the sown batches, crop is kept
    root = os.path.join(scratch, "incomplete")
    os.makedirs(root)
    crop = make_crop("runner", root)      # 4 batches of sizes 2, 2, 1, 1
    sow("runner", crop)
    check(crop.missing_results() == (1, 2, 3, 4), "missing_results (all)")
    crop.grow((2, 3), verbosity=0)
    check(crop.missing_results() == (1, 4), "missing_results (some)")
    check(crop.num_sown_batches == 4 and crop.num_results == 2, "progress")
    try:
        make_crop("runner", root).reap()
        check(False, "incomplete crop was reaped as if complete")
    except xyzpy.gen.farming.XYZError:
        pass
    part = make_crop("runner", root).reap(allow_incomplete=True)
    vals = part["x"].transpose("a", "b").values
    want = np.array([[fn(a, b) for b in COMBOS["b"]] for a in COMBOS["a"]])
    flat_nan = np.isnan(vals.ravel())
    check(flat_nan.tolist() == [True, True, False, False, False, True],
          "stand-in results not where the missing batches are")
    check(np.array_equal(vals.ravel()[~flat_nan], want.ravel()[~flat_nan]),
          "finished results wrong in an incomplete reap")
    check(os.path.isdir(crop.location), "incomplete reap deleted the crop")
    crop = make_crop("runner", root)
    crop.grow_missing(verbosity=0)
    full = crop.reap(wait=True, clean_up=False)
    check(np.array_equal(full["x"].transpose("a", "b").values, want),
          "reap after growing the missing batches is inexact")
    check(os.path.isdir(crop.location), "clean_up=False deleted the crop")

    # check_bad: a result whose length does not match its batch, and an
    # unreadable one, are found and deleted
    rfile = os.path.join(crop.location, "results", cropping.RSLT_NM.format(1))
    cropping.write_to_disk((1.0,), rfile)
    with open(os.path.join(crop.location, "results",
                           cropping.RSLT_NM.format(4)), "wb") as f:
        f.write(b"\x80\x04junk")
    bad = crop.check_bad()
    check(sorted(bad) == ["1", "4"], "check_bad found {}".format(bad))
    check(crop.missing_results() == (1, 4), "bad results were not deleted")
    crop.grow_missing(verbosity=0)
    full2 = make_crop("runner", root).reap(clean_up=True)
    check(full2.identical(full), "reap after check_bad differs")
    check(not os.path.exists(crop.location), "clean_up=True kept the crop")

    # harvester: explicit clean_up / sync options of the reap, delete_ds
    root = os.path.join(scratch, "harvest-opts")
    os.makedirs(root)
    crop = make_crop("harvester", root)
    sow("harvester", crop)
    crop.grow_missing(verbosity=0)
    ds = crop.reap(clean_up=False)
    check(os.path.isdir(crop.location), "harvest clean_up=False deleted crop")
    check(xyzpy.load_ds(h5(root))["x"].equals(ds["x"]), "harvest file content")
    ds2 = make_crop("harvester", root).reap(sync=False, allow_incomplete=True)
    check(ds2.identical(ds) and os.path.isdir(crop.location),
          "allow_incomplete harvest reap must keep the crop")
    crop = make_crop("harvester", root)
    crop.reap(overwrite=True)
    check(not os.path.exists(crop.location), "harvest reap kept the crop")
    check(xyzpy.load_ds(h5(root))["x"].equals(ds["x"]), "harvest file content")
    check(glob.glob(h5(root) + "?*") == [], "temporary harvest file left")
    crop.farmer.delete_ds(backup=True)
    check(not os.path.exists(h5(root)), "delete_ds left the file")
    check(len(glob.glob(h5(root) + ".BAK-*")) == 1, "delete_ds backup")

    # sampler options
    root = os.path.join(scratch, "sampler-opts")
    os.makedirs(root)
    crop = make_crop("sampler", root)
    sow("sampler", crop)
    crop.grow_missing(verbosity=0)
    df = crop.reap(clean_up=False)
    check(os.path.isdir(crop.location), "sampler clean_up=False deleted crop")
    check(len(pd.read_pickle(pkl(root))) == len(SAMPLE_CASES), "sampler file")
    make_crop("sampler", root).reap(sync=False)
    check(not os.path.exists(crop.location), "sampler reap kept the crop")
    check(len(pd.read_pickle(pkl(root))) == len(SAMPLE_CASES),
          "sync=False changed the sampler file")
    check(sorted(df["x"]) == sorted(fn(a, b) for a, b in SAMPLE_CASES),
          "sampler results")


def main():
    install()
    scratch = tempfile.mkdtemp(prefix="c10-demo-")
    try:
        for kind in KINDS:
            crash_sweep(kind, scratch)
        other_paths(scratch)
    finally:
        shutil.rmtree(scratch, ignore_errors=True)

    if FAILS:
        print("FAIL: {} problem(s), first: {}".format(len(FAILS), FAILS[0]))
        return 1
    print("PASS")
    return 0


if __name__ == "__main__":
    sys.exit(main())
