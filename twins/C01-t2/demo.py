"""Demo for C01 / refactoring 2 (``_unflatten``: the accumulation of the flat
results into the nested tuple).

Checks that a grid sweep calls the function exactly once per combination (with
constants, nothing else) and that the nested / split results hold each value in
its own slot, for grids of 0-5 arguments, for sparse ``cases`` (nan filling),
and for ``_unflatten`` directly against a recursive reference implementation.

Run as:  cd <worktree> && /venv/bin/python /path/to/demo.py
"""
import sys
import os

sys.path.insert(0, os.getcwd())

import itertools
import random
import tempfile
import time
import uuid
import multiprocessing
import multiprocessing.pool
from concurrent.futures import ThreadPoolExecutor, ProcessPoolExecutor

import numpy as np

import xyzpy
from xyzpy.gen.combo_runner import (
    combo_runner, combo_runner_core, _unflatten
)

assert os.path.abspath(xyzpy.__file__).startswith(os.getcwd()), xyzpy.__file__

LOGDIR = None


def _log_call(kws):
    # one file per call: exactly-once accounting that works across processes
    logdir = os.environ["C01_DEMO_LOGDIR"]
    with open(os.path.join(logdir, uuid.uuid4().hex), "w") as f:
        f.write(repr(sorted(kws.items())))


def _delay(kws):
    # deterministic but "scrambled" delays so workers complete out of order
    h = sum(ord(c) for c in repr(sorted(kws.items())))
    time.sleep(((h * 7919) % 5) * 0.002)


def f_scalar(**kws):
    _log_call(kws)
    _delay(kws)
    return repr(sorted(kws.items()))


def f_tuple(**kws):
    _log_call(kws)
    _delay(kws)
    key = repr(sorted(kws.items()))
    return key, len(key), "x" + key


def f_array(**kws):
    _log_call(kws)
    _delay(kws)
    key = repr(sorted(kws.items()))
    return np.array([len(key), sum(map(ord, key)), 3.5])


def expected(kind, kws):
    key = repr(sorted(kws.items()))
    if kind == "scalar":
        return key
    if kind == "tuple":
        return key, len(key), "x" + key
    return np.array([len(key), sum(map(ord, key)), 3.5])


FNS = {"scalar": f_scalar, "tuple": f_tuple, "array": f_array}


def same(a, b):
    if isinstance(a, np.ndarray) or isinstance(b, np.ndarray):
        return (
            isinstance(a, np.ndarray) and isinstance(b, np.ndarray) and
            a.shape == b.shape and bool((a == b).all())
        )
    return type(a) is type(b) and a == b


def nested_get(nested, idx):
    for i in idx:
        assert isinstance(nested, tuple)
        nested = nested[i]
    return nested


def read_calls():
    calls = []
    for name in os.listdir(LOGDIR):
        path = os.path.join(LOGDIR, name)
        with open(path) as f:
            calls.append(f.read())
        os.remove(path)
    return sorted(calls)


def check(combos, constants, kind, flat, split, **opts):
    """Run one sweep and check the whole property."""
    if isinstance(combos, dict):
        items = list(combos.items())
    elif isinstance(combos[0], str):
        items = [combos]
    else:
        items = list(combos)
    args = [a for a, _ in items]
    values = [list(v) for _, v in items]
    shape = tuple(len(v) for v in values)
    all_idx = list(itertools.product(*(range(n) for n in shape)))
    all_kws = [
        {**{a: values[k][i] for k, (a, i) in enumerate(zip(args, idx))},
         **constants}
        for idx in all_idx
    ]

    assert read_calls() == []
    res = combo_runner(
        FNS[kind], combos, constants=constants, flat=flat, split=split,
        verbosity=0, **opts
    )

    # exactly once per combination, with the constants and nothing else
    want_calls = sorted(repr(sorted(kws.items())) for kws in all_kws)
    got_calls = read_calls()
    assert got_calls == want_calls, (got_calls, want_calls, opts)

    nout = 3 if split else None
    if split:
        assert kind in ("tuple", "array")
        assert isinstance(res, tuple) and len(res) == nout

    for n, (idx, kws) in enumerate(zip(all_idx, all_kws)):
        exp = expected(kind, kws)
        if split:
            for o in range(nout):
                part = res[o]
                got = part[n] if flat else nested_get(part, idx)
                assert same(got, exp[o]), (idx, o, got, exp[o], opts)
        else:
            got = res[n] if flat else nested_get(res, idx)
            assert same(got, exp), (idx, got, exp, opts)

    # and the container has exactly the grid's shape (no extra slots)
    def check_shape(nested, dims):
        if not dims:
            return
        assert isinstance(nested, tuple) and len(nested) == dims[0]
        for sub in nested:
            check_shape(sub, dims[1:])

    for part in (res if split else (res,)):
        if flat:
            assert isinstance(part, tuple) and len(part) == len(all_idx)
        else:
            check_shape(part, shape)


def random_grid(rng):
    nargs = rng.randint(1, 5)
    names = rng.sample(["a", "b", "c", "d", "e", "zz", "n_x"], nargs)
    pools = [
        [1, 2, 3, 5, -7, 0],
        [0.5, -1.25, 3.0, 1e-3, 2.5],
        ["x", "y", "foo", "bar", ""],
        [1, 2.5, "s", -3],
    ]
    items = []
    for nm in names:
        pool = rng.choice(pools)
        items.append((nm, rng.sample(pool, rng.randint(1, 4))))
    spelling = rng.choice(["dict", "tuple", "list"])
    if spelling == "dict":
        combos = dict(items)
    elif spelling == "tuple":
        combos = tuple((a, tuple(v)) for a, v in items)
    else:
        combos = [(a, v) for a, v in items]
    if nargs == 1 and rng.random() < 0.5:
        combos = items[0]  # single ('a', [..]) pair spelling
    constants = rng.choice([{}, {"k": 3}, {"k": "c", "other": 2.5}])
    return combos, constants


def ref_unflatten(store, all_values, prefix=(), default=None):
    """Recursive reference for ``_unflatten``."""
    if len(prefix) == len(all_values):
        return store.get(prefix, default)
    return tuple(
        ref_unflatten(store, all_values, prefix + (v,), default)
        for v in all_values[len(prefix)]
    )


def main():
    global LOGDIR
    rng = random.Random(4321)
    nchecks = 0

    with tempfile.TemporaryDirectory() as tmp:
        LOGDIR = tmp
        os.environ["C01_DEMO_LOGDIR"] = tmp

        # ---- random grids, nested output, 1-5 args ----------------------- #
        for trial in range(120):
            combos, constants = random_grid(rng)
            kind = rng.choice(["scalar", "tuple", "array"])
            split = kind != "scalar" and rng.random() < 0.5
            shuffle = rng.choice([False, False, True, 5, 17])
            check(combos, constants, kind, False, split, shuffle=shuffle)
            nchecks += 1

        # ---- every shape up to 3 args exhaustively (1-4 values each) ----- #
        vals = {"a": [3, 1, 2, 0], "b": ["q", "p", "r", ""],
                "c": [2.5, -1.0, 0.0, 7.25]}
        for nargs in (1, 2, 3):
            names = ["a", "b", "c"][:nargs]
            for shape in itertools.product(range(1, 5), repeat=nargs):
                combos = {nm: vals[nm][:n] for nm, n in zip(names, shape)}
                check(combos, {"k": 1}, "scalar", False, False)
                nchecks += 1
        # a full 5-argument grid, tuple and dict spelling, split and not
        items = (("e", (1, 2)), ("d", ["u", "v", "w"]), ("c", [0.5, 1.5]),
                 ("b", [9, 8, 7, 6]), ("a", ["only"]))
        check(items, {}, "scalar", False, False)
        check(dict(items), {"k": 2}, "tuple", False, True)
        check(list(items), {"k": 2}, "array", False, True, shuffle=3)
        check(items, {"k": 2}, "tuple", False, False)
        nchecks += 4

        # ---- no combos at all: a single call, result returned bare ------- #
        assert combo_runner(f_scalar, None, constants={"k": 1},
                            verbosity=0) == expected("scalar", {"k": 1})
        assert read_calls() == [repr([("k", 1)])]
        nchecks += 1

        # ---- in an executor too (same accumulation afterwards) ----------- #
        with ThreadPoolExecutor(4) as ex:
            for kind, split in (("scalar", False), ("tuple", True),
                                ("array", False)):
                check(dict(items), {"k": 2}, kind, False, split, executor=ex)
                nchecks += 1
        check({"a": [1, 2, 3], "b": ["x", "y"]}, {}, "tuple", False, True,
              parallel=True)
        nchecks += 1

        # ---- sparse cases: missing slots filled with nan ----------------- #
        def g(a, b, c, d=0):
            return f"{a}|{b}|{c}|{d}"

        cases = [{"a": 2, "b": "y"}, {"a": 1, "b": "x"}, {"a": 3, "b": "y"}]
        out = combo_runner(g, {"c": [0.5, 0.25]}, cases=cases,
                           constants={"d": 9}, verbosity=0)
        a_vals, b_vals, c_vals = [1, 2, 3], ["x", "y"], [0.5, 0.25]
        run = {(c["a"], c["b"]) for c in cases}
        assert isinstance(out, tuple) and len(out) == 3
        for i, a in enumerate(a_vals):
            assert isinstance(out[i], tuple) and len(out[i]) == 2
            for j, b in enumerate(b_vals):
                assert isinstance(out[i][j], tuple) and len(out[i][j]) == 2
                for k, c in enumerate(c_vals):
                    got = out[i][j][k]
                    if (a, b) in run:
                        assert got == f"{a}|{b}|{c}|9", got
                    else:
                        assert got is None, got  # str result -> None fill

        def h(a, b):
            return a + b, [a, b]

        out = combo_runner(h, cases=[{"a": 1, "b": 10}, {"a": 2, "b": 20}],
                           split=True, verbosity=0)
        assert len(out) == 2
        assert out[0][0][0] == 11 and out[0][1][1] == 22
        assert np.isnan(out[0][0][1]) and np.isnan(out[0][1][0])
        assert out[1][0][0] == [1, 10] and out[1][1][1] == [2, 20]
        assert np.isnan(np.asarray(out[1][0][1])).all()
        assert np.asarray(out[1][0][1]).shape == (2,)
        nchecks += 2

        # ---- _unflatten directly vs a recursive reference ---------------- #
        for trial in range(300):
            nd = rng.randint(0, 5)
            all_values = tuple(
                rng.sample([0, 1, 2, "a", "b", 2.5, -1, "zz"],
                           rng.randint(1, 4))
                for _ in range(nd)
            )
            if rng.random() < 0.5:
                all_values = tuple(map(tuple, all_values))
            keys = list(itertools.product(*all_values))
            default = rng.choice([None, np.nan, "missing"])
            if rng.random() < 0.5 and len(keys) > 1:
                keys = rng.sample(keys, rng.randint(1, len(keys) - 1))
            store = {k: ("val", k, n) for n, k in enumerate(keys)}
            want = ref_unflatten(dict(store), all_values, default=default)
            before = tuple(all_values)
            got = _unflatten(store, all_values, default)
            assert repr(got) == repr(want), (all_values, got, want)
            assert store == {}, store  # everything was consumed
            assert all_values == before  # the argument is not mutated
            nchecks += 1

    print(f"{nchecks} checks done")
    print("PASS")


if __name__ == "__main__":
    main()
