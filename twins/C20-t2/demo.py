"""Demo / regression check for ``xyzpy.format_number_with_error`` (C20).

Run as ``cd <worktree> && /venv/bin/python /path/to/demo.py``.

Two kinds of check are made over a large grid of inputs (both signs of x,
|x| from 1e-300 to 1e300, x = 0, err/|x| from 1e-12 to 1e12, dense sampling
around the rounding boundaries):

1. the output is character-for-character identical to a frozen copy of the
   reference implementation (including the type of any exception raised);
2. the output, parsed by the usual convention ``d.ddd(ee)e+XX`` (bracketed
   digits are the uncertainty in the last shown digits, times the shown
   power of ten), denotes ``err`` to two significant figures and ``x`` rounded
   to the same last digit.

Emphasis of this demo: the decision whether the power-of-ten suffix is shown
or hidden (overall exponent -1, 0 and, when the error is below a tenth of the
value, +1) and the common rescaling of value and error when it is shown.
"""

import os
import re
import sys
import math
import random
import itertools
from decimal import Decimal, getcontext

sys.path.insert(0, os.getcwd())

import warnings

warnings.simplefilter("ignore")

import xyzpy  # noqa: E402
from xyzpy import format_number_with_error  # noqa: E402
from xyzpy.utils import RunningStatistics  # noqa: E402

assert os.path.abspath(xyzpy.__file__).startswith(os.getcwd()), xyzpy.__file__

getcontext().prec = 800


def reference(x, err):
    """Frozen copy of the reference implementation."""
    x_exponent = max(
        int(f"{x:e}".split("e")[1]),
        int(f"{err:e}".split("e")[1]) + 1,
    )
    hide_exponent = (x_exponent in (0, -1)) or (
        (x_exponent == +1) and (err < abs(x / 10))
    )
    if hide_exponent:
        suffix = ""
    else:
        x = x / 10**x_exponent
        err = err / 10**x_exponent
        suffix = f"e{x_exponent:+03d}"
    mantissa, exponent = f"{err:.1e}".split("e")
    mantissa, exponent = mantissa.replace(".", ""), int(exponent)
    return f"{x:.{max(0, 1 - exponent)}f}({mantissa}){suffix}"


PATTERN = re.compile(r"^(-?)(\d+)(?:\.(\d+))?\((\d\d)\)(?:e([+-]\d\d+))?$")


def check_reads_back(x, err, s):
    """Parse ``s`` by the usual convention and compare with (x, err)."""
    m = PATTERN.match(s)
    assert m, f"unparseable: {s!r} for {(x, err)}"
    sign, ipart, fpart, brk, expo = m.groups()
    fpart = fpart or ""
    expo = int(expo) if expo else 0
    # one unit in the last shown digit
    unit = Decimal(10) ** (expo - len(fpart))
    val = Decimal(sign + ipart + fpart) * unit
    e_read = Decimal(brk) * unit
    assert 10 <= int(brk) <= 99, (x, err, s)
    dx, derr = Decimal(float(x)), Decimal(float(err))
    half = unit / 2
    # the scaling by a power of ten is done in floating point: allow a few
    # units in the last place of the inputs on top of the half-unit rounding
    ulps = Decimal(2) ** -50
    # err shown to two significant figures
    assert abs(e_read - derr) <= half + derr * ulps, (x, err, s)
    # two significant figures really are relative to err's own magnitude
    assert derr * Decimal("0.0999") < unit * 10 <= derr * Decimal("10.06"), (
        x,
        err,
        s,
    )
    # x rounded to the same last digit
    assert abs(val - dx) <= half + abs(dx) * ulps, (x, err, s)
    if val == 0 and sign:
        # '-0.00(32)' is fine as long as x really was negative
        assert math.copysign(1.0, x) < 0, (x, err, s)


def outcome(fn, x, err):
    try:
        return fn(x, err)
    except Exception as e:  # noqa: BLE001
        return type(e)


def gen_cases():
    rng = random.Random(20)
    x_exps = sorted(
        set(range(-300, 301, 7)) | set(range(-6, 7)) | {-300, 300, -299, 299}
    )
    x_mants = [
        1.0, 1.0000001, 1.25, 1.125, 2.5, 3.14159265, 5.0, 9.5, 9.9,
        9.95, 9.99, 9.995, 9.9999994, 9.9999995, 9.9999996, 9.99999999,
        9.999999999999998,
    ]
    ratio_exps = list(range(-12, 13))
    err_mants = [
        1.0, 1.04, 1.05, 1.0500001, 1.15, 1.25, 1.449, 1.45, 1.5, 2.0, 3.2,
        6.26653, 6.424, 9.4, 9.49, 9.5, 9.94, 9.949, 9.9499999, 9.95,
        9.9500001, 9.951, 9.96, 9.99, 9.999, 9.9999994, 9.9999995,
        9.9999996, 9.99999999, 9.999999999999998,
    ]
    # main grid, sub-sampled deterministically to keep the run time sane
    for xe, xm, re_, em in itertools.product(
        x_exps, x_mants, ratio_exps, err_mants
    ):
        if rng.random() < 0.06 or abs(xe) <= 2 and rng.random() < 0.5:
            x = float(f"{xm!r}e{xe}")
            err = abs(x) * float(f"{em!r}e{re_}") / xm
            for sgn in (1.0, -1.0):
                yield sgn * x, err
    # dense sweep of err mantissa 9.95 - 10.0 for values of order 1 .. 1000
    for k in range(0, 501):
        em = 9.95 + k * 1e-4
        for ee in (-5, -3, -2, -1, 0, 1, 2, 3):
            err = float(f"{em!r}e{ee}")
            for x in (0.0, 0.0123456, 0.5, 1.0, 7.77, 12.345, 99.7, 100.0,
                      123.456, 999.96, 1000.0, -45.6, -99.96, 31415.9):
                yield x, err
    # x near powers of ten
    for xe in range(-4, 6):
        for d in (-1e-3, -1e-6, -1e-9, -1e-15, 0.0, 1e-15, 1e-9, 1e-6, 1e-3):
            x = (10.0**xe) * (1 + d)
            for re_ in (-9, -6, -3, -2, -1, 0, 1, 2):
                for em in (1.0, 2.34, 9.949, 9.95, 9.96, 9.9999996):
                    yield x, abs(x) * em * 10.0**re_
                    yield -x, abs(x) * em * 10.0**re_
    # err / |x| near 0.1 and near 1
    for x in (1.0, 3.3, 9.99, 10.0, 12.5, 47.0, 99.9, 100.0, 250.0, 1e-3,
              0.05, 0.5, 2e7, 6e-20):
        for base in (0.1, 1.0):
            for d in (-1e-2, -1e-4, -1e-8, -1e-12, -1e-16, 0.0, 1e-16,
                      1e-12, 1e-8, 1e-4, 1e-2):
                yield x, x * base * (1 + d)
                yield -x, x * base * (1 + d)
    # x == 0 with any err
    for ee in range(-300, 301, 3):
        for em in (1.0, 1.25, 3.2, 9.94, 9.95, 9.951, 9.96, 9.9999996):
            yield 0.0, float(f"{em!r}e{ee}")
            yield -0.0, float(f"{em!r}e{ee}")
        yield 0, float(f"1e{ee}")
    # integers and random values
    for x, err in [(-128124123097, 6424), (5, 1e12), (7, 1), (10, 1),
                   (100, 10), (99, 9), (1, 10), (12345, 678)]:
        yield x, err
    for _ in range(20000):
        x = rng.choice((-1, 1)) * 10 ** rng.uniform(-300, 300)
        err = abs(x) * 10 ** rng.uniform(-12, 12)
        yield x, err
    for _ in range(20000):
        x = rng.choice((-1, 1)) * 10 ** rng.uniform(-3, 3)
        err = abs(x) * 10 ** rng.uniform(-4, 2)
        yield x, err


def check_exponent_visibility():
    """Explicit expectations about when the ``e+XX`` suffix appears."""
    f = format_number_with_error
    table = {
        # overall exponent 0 and -1: never a suffix
        (1.2345, 0.012): "1.234(12)",
        (0.1542412, 0.0626653): "0.154(63)",
        (0.5, 0.25): "0.50(25)",
        (-0.98765, 0.00011): "-0.98765(11)",
        (0.0, 0.5): "0.00(50)",
        (0.0, 0.05): "0.000(50)",
        # overall exponent +1: hidden only if err < |x| / 10
        (12.345, 0.67): "12.35(67)",
        (-47.11, 4.7): "-47.1(47)",
        (99.7, 9.96): "100(10)",
        (50.0, 5.0): "5.00(50)e+01",
        (50.0, 4.999): "50.0(50)",
        (12.345, 6.7): "1.23(67)e+01",
        (3.0, 2.0): "0.30(20)e+01",
        (0.0, 3.2): "0.00(32)e+01",
        # everything else: suffix shown
        (123.456, 0.0123): "1.23456(12)e+02",
        (0.0123, 0.0004): "1.230(40)e-02",
        (-128124123097, 6424): "-1.281241231(64)e+11",
        (1e-300, 1e-312): "1.0000000000000(10)e-300",
        (5, 1e12): "0.00(10)e+13",
    }
    for (x, err), want in table.items():
        assert f(x, err) == want == reference(x, err), (x, err, f(x, err), want)

    # sweep the err < |x| / 10 boundary finely for values between 10 and 100
    import numpy as np

    for x in np.linspace(10.0, 99.99, 400):
        for rel in (0.0999, 0.09999999, 0.1 - 1e-16, 0.1, 0.1 + 1e-16,
                    0.10000001, 0.1001, 0.5, 0.99):
            for xx in (float(x), -float(x), np.float64(x)):
                err = abs(float(x)) * rel
                got = f(xx, err)
                assert got == reference(xx, err), (xx, err, got)
                hidden = "e" not in got
                if err < abs(float(x)) / 10:
                    assert hidden, (xx, err, got)
                else:
                    assert got.endswith("e+01") or got.endswith("e+02"), (
                        xx,
                        err,
                        got,
                    )
                check_reads_back(float(xx), err, got)

    # suffix formatting: sign always shown, at least two digits
    for k in list(range(-300, 301, 11)) + [2, 3, 9, 10, 99, 100, -2, -9, -10,
                                            -99, -100]:
        x = float(f"4.2e{k}")
        got = f(x, abs(x) * 1e-3)
        assert got == reference(x, abs(x) * 1e-3)
        if k in (-1, 0, 1):
            assert "e" not in got, got
        else:
            assert got.endswith(f"e{k:+03d}"), (k, got)
            assert got.startswith("4.2000(42)"), (k, got)


def main():
    # documented examples
    assert format_number_with_error(0.1542412, 0.0626653) == "0.154(63)"
    assert (
        format_number_with_error(-128124123097, 6424)
        == "-1.281241231(64)e+11"
    )
    assert format_number_with_error(99.7, 9.96) == "100(10)"
    assert format_number_with_error(123.456, 0.0123) == "1.23456(12)e+02"
    assert format_number_with_error(0, 3.2) == "0.00(32)e+01"

    check_exponent_visibility()

    n = nprop = 0
    for x, err in gen_cases():
        if not (math.isfinite(err) and err > 0 and math.isfinite(x)):
            continue
        n += 1
        got = outcome(format_number_with_error, x, err)
        want = outcome(reference, x, err)
        assert got == want, (x, err, got, want)
        if isinstance(got, str):
            check_reads_back(x, err, got)
            nprop += 1
    assert n > 100000 and nprop > 0.99 * n, (n, nprop)

    # positional and keyword calling conventions
    assert format_number_with_error(x=1.5, err=0.25) == reference(1.5, 0.25)
    assert format_number_with_error(1.5, err=0.25) == reference(1.5, 0.25)

    # the consumer: RunningStatistics.__repr__
    rs = RunningStatistics()
    rs.update_from_it([1.1, 1.4, 1.2, 1.5, 1.3, 1.6])
    assert repr(rs) == (
        f"RunningStatistics(mean={reference(rs.mean, rs.err)}, count=6)"
    )
    assert repr(RunningStatistics()) == "RunningStatistics(mean=None, count=0)"

    # non-finite input is rejected the same way
    for bad in [(float("nan"), 1.0), (1.0, float("inf")), (1.0, float("nan"))]:
        assert outcome(format_number_with_error, *bad) == outcome(
            reference, *bad
        )

    print(f"checked {n} inputs ({nprop} parsed and read back)")
    print("PASS")


if __name__ == "__main__":
    main()
