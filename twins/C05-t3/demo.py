"""Demo / regression check for C05 (refactoring 3: ``Harvester.load_full_ds``,
the step that brings the on-disk dataset into memory before every synced
merge and on first access of ``full_ds`` in a new session).

Run as:  cd <worktree> && /venv/bin/python /path/to/demo.py

A tiny reference model (python dicts) of "memory" and "disk" is kept next to
real Harvester objects while random sequences of harvests (with many new
sessions) are performed; after every step the in-memory full dataset and the
on-disk dataset are compared with the model, point by point.
"""
import os
import sys

sys.path.insert(0, os.getcwd())

import copy
import itertools
import math
import random
import shutil
import tempfile
import warnings
from unittest import mock

warnings.simplefilter("ignore")

import numpy as np
import xarray as xr

import xyzpy as xyz
from xyzpy.manage import auto_add_extension

assert os.path.abspath(xyz.__file__).startswith(os.getcwd()), xyz.__file__

MergeError = xr.MergeError

OFFSET = [0.0]


def fn(a, b):
    return float(10 * a + b) + OFFSET[0]


RUNNER_KW = dict(verbosity=0)


# ------------------------------ the model --------------------------------- #

class Conflict(Exception):
    pass


class M:
    """Model of a dataset: values at points + coordinate sets."""

    def __init__(self, vals, A, B):
        self.vals = dict(vals)
        self.A = set(A)
        self.B = set(B)

    def copy(self):
        return M(self.vals, self.A, self.B)


def policy(old, new, overwrite):
    if old is None:
        return new.copy()
    if overwrite is True:
        vals = {**old.vals, **new.vals}
    elif overwrite is False:
        vals = {**new.vals, **old.vals}
    else:
        for k, v in new.vals.items():
            if k in old.vals and old.vals[k] != v:
                raise Conflict(k)
        vals = {**old.vals, **new.vals}
    return M(vals, old.A | new.A, old.B | new.B)


def check_ds(ds, m, what):
    if m is None:
        assert ds is None, (what, ds)
        return
    assert ds is not None, what
    assert set(ds['a'].values.tolist()) == m.A, (what, ds['a'].values, m.A)
    assert set(ds['b'].values.tolist()) == m.B, (what, ds['b'].values, m.B)
    assert len(ds['a']) == len(m.A) and len(ds['b']) == len(m.B), what
    n = 0
    for a, b in itertools.product(sorted(m.A), sorted(m.B)):
        v = float(ds['out'].sel(a=a, b=b).values)
        if (a, b) in m.vals:
            assert v == m.vals[(a, b)], (what, a, b, v, m.vals[(a, b)])
            n += 1
        else:
            assert math.isnan(v), (what, a, b, v)
    assert int(ds['out'].notnull().sum()) == n == len(m.vals), what


# ------------------------------ the harness -------------------------------- #

class World:

    def __init__(self, tmpdir, engine, rng):
        self.dir = tmpdir
        self.engine = engine
        self.rng = rng
        self.ext = {'h5netcdf': '.h5', 'joblib': '.dmp'}[engine]
        self.base = os.path.join(tmpdir, 'data')
        self.path = self.base + self.ext
        self.disk = None
        self.mem = None
        self.h = None
        self.runner = xyz.Runner(fn, var_names='out')
        self.new_session()

    # -- helpers
    def new_session(self):
        name = self.rng.choice([self.base, self.path])
        self.h = xyz.Harvester(self.runner, data_name=name,
                               engine=self.engine)
        self.mem = None

    def _apply(self, new, sync, overwrite, call):
        """``call()`` performs the real thing, here is what should happen."""
        if sync and self.disk is not None:
            self.mem = self.disk.copy()
        try:
            expected = policy(self.mem, new, overwrite)
        except Conflict:
            expected = None
        if expected is None:
            try:
                call()
            except MergeError:
                pass
            else:
                raise AssertionError("conflict did not raise")
        else:
            call()
            self.mem = expected
            if sync:
                self.disk = expected.copy()

    def check(self, synced):
        # memory (``full_ds`` lazily loads the disk one if nothing in memory)
        if self.mem is None and self.disk is not None:
            self.mem = self.disk.copy()
        check_ds(self.h.full_ds, self.mem, 'memory')
        # disk
        if self.disk is None:
            assert not os.path.exists(self.path)
        else:
            on_disk = xyz.load_ds(self.path, engine=self.engine)
            check_ds(on_disk, self.disk, 'disk')
            if synced:
                xr.testing.assert_equal(
                    on_disk.sortby(['a', 'b']),
                    self.h.full_ds.sortby(['a', 'b']))
        # never any stray files (e.g. temporaries) left behind
        assert set(os.listdir(self.dir)) <= {os.path.basename(self.path)}

    # -- steps
    def rand_coords(self):
        rng = self.rng
        A = rng.sample(range(1, 6), rng.randint(1, 3))
        B = rng.sample(range(1, 5), rng.randint(1, 3))
        return A, B

    def step_combos(self, sync, overwrite):
        A, B = self.rand_coords()
        OFFSET[0] = self.rng.choice([0.0, 0.0, 0.5])
        new = M({(a, b): fn(a, b) for a in A for b in B}, A, B)
        self._apply(new, sync, overwrite, lambda: self.h.harvest_combos(
            {'a': A, 'b': B}, sync=sync, overwrite=overwrite, **RUNNER_KW))
        if self.mem is not None:
            assert self.h.last_ds is not self.h.full_ds

    def step_cases(self, sync, overwrite):
        A, B = self.rand_coords()
        pts = self.rng.sample([(a, b) for a in A for b in B],
                              self.rng.randint(1, min(3, len(A) * len(B))))
        OFFSET[0] = self.rng.choice([0.0, 0.0, 0.5])
        new = M({p: fn(*p) for p in pts},
                {p[0] for p in pts}, {p[1] for p in pts})
        cases = [{'a': a, 'b': b} for a, b in pts]
        self._apply(new, sync, overwrite, lambda: self.h.harvest_cases(
            cases, sync=sync, overwrite=overwrite, **RUNNER_KW))

    def step_add_ds(self, sync, overwrite):
        A, B = self.rand_coords()
        OFFSET[0] = self.rng.choice([0.0, 0.0, 0.5])
        ds = xyz.Runner(fn, var_names='out').run_combos(
            {'a': A, 'b': B}, **RUNNER_KW)
        new = M({(a, b): fn(a, b) for a in A for b in B}, A, B)
        obj = ds['out'] if self.rng.random() < 0.5 else ds
        before = ds.copy(deep=True)
        self._apply(new, sync, overwrite, lambda: self.h.add_ds(
            obj, sync=sync, overwrite=overwrite))
        # the supplied data is never modified, nor aliased by the full dataset
        xr.testing.assert_identical(ds, before)
        assert self.h._full_ds is not ds

    def step_save_merge_ds(self, overwrite):
        A, B = self.rand_coords()
        OFFSET[0] = self.rng.choice([0.0, 0.0, 0.5])
        ds = xyz.Runner(fn, var_names='out').run_combos(
            {'a': A, 'b': B}, **RUNNER_KW)
        new = M({(a, b): fn(a, b) for a in A for b in B}, A, B)
        fname = self.rng.choice([self.base, self.path])
        try:
            expected = policy(self.disk, new, overwrite)
        except Conflict:
            try:
                xyz.save_merge_ds(ds, fname, overwrite=overwrite,
                                  engine=self.engine)
            except MergeError:
                pass
            else:
                raise AssertionError("conflict did not raise")
        else:
            xyz.save_merge_ds(ds, fname, overwrite=overwrite,
                              engine=self.engine)
            self.disk = expected

    def step_drop_sel(self):
        if self.mem is None and self.disk is not None:
            self.mem = self.disk.copy()
        if self.mem is None or len(self.mem.A) < 2:
            return False
        x = self.rng.choice(sorted(self.mem.A))
        self.h.drop_sel(a=[x])
        self.mem.A.discard(x)
        self.mem.vals = {k: v for k, v in self.mem.vals.items() if k[0] != x}
        self.disk = self.mem.copy()
        return True

    def run_sequence(self, length):
        rng = self.rng
        for _ in range(length):
            if rng.random() < 0.5:
                self.new_session()
            kind = rng.choice(['combos', 'combos', 'cases', 'cases', 'add_ds',
                               'add_ds', 'save_merge_ds', 'drop_sel'])
            sync = rng.random() < 0.75
            overwrite = rng.choice([None, None, True, False])
            synced = sync
            if kind == 'combos':
                self.step_combos(sync, overwrite)
            elif kind == 'cases':
                self.step_cases(sync, overwrite)
            elif kind == 'add_ds':
                self.step_add_ds(sync, overwrite)
            elif kind == 'save_merge_ds':
                self.step_save_merge_ds(overwrite)
                synced = False
            else:
                synced = self.step_drop_sel()
            self.check(synced)


def random_sequences(n_seq, seed):
    rng = random.Random(seed)
    count = 0
    for engine in ['h5netcdf', 'joblib']:
        for i in range(n_seq):
            tmpdir = tempfile.mkdtemp()
            try:
                w = World(tmpdir, engine, rng)
                length = 1 + i % 8
                w.run_sequence(length)
                count += length
            finally:
                shutil.rmtree(tmpdir)
    return count


# ------------------------- deterministic scenarios ------------------------- #


def grid(A, B, offset=0.0):
    OFFSET[0] = offset
    return xyz.Runner(fn, var_names='out').run_combos(
        {'a': A, 'b': B}, **RUNNER_KW)


def new_harvester(name, **kw):
    return xyz.Harvester(xyz.Runner(fn, var_names='out'), name, **kw)


def model_of(A, B, offset=0.0):
    return M({(a, b): 10.0 * a + b + offset for a in A for b in B}, A, B)


def read_bytes(path):
    with open(path, 'rb') as f:
        return f.read()


def scenario_no_file():
    """No file: loading is a no-op that keeps whatever is in memory."""
    for engine, ext in [('h5netcdf', '.h5'), ('joblib', '.dmp'),
                        (None, '.h5')]:
        tmpdir = tempfile.mkdtemp()
        try:
            for name in [os.path.join(tmpdir, 'nf'),
                         os.path.join(tmpdir, 'nf' + ext),
                         os.path.join(tmpdir, 'no', 'such', 'dir', 'nf')]:
                h = new_harvester(name, engine=engine)
                assert h.load_full_ds() is None
                assert h._full_ds is None
                assert h.full_ds is None
                assert h.load_full_ds(chunks=1, engine='joblib') is None
                assert h.full_ds is None
                # dataset supplied up front survives
                init = grid([1], [1, 2])
                h = new_harvester(name, engine=engine, full_ds=init)
                assert h.load_full_ds() is None
                assert h.full_ds is init
                # unsynced harvests survive too
                h = new_harvester(name, engine=engine)
                OFFSET[0] = 0.0
                h.harvest_combos({'a': [1, 2], 'b': [1]}, sync=False,
                                 **RUNNER_KW)
                held = h._full_ds
                assert h.load_full_ds() is None
                assert h.full_ds is held
                check_ds(h.full_ds, model_of([1, 2], [1]), 'memory')
                assert os.listdir(tmpdir) == []
            # ... and get merged in to the first synced harvest
            h = new_harvester(os.path.join(tmpdir, 'nf'), engine=engine)
            h.harvest_combos({'a': [1, 2], 'b': [1]}, sync=False, **RUNNER_KW)
            h.harvest_combos({'a': [3], 'b': [1]}, sync=True, **RUNNER_KW)
            assert os.listdir(tmpdir) == ['nf' + ext]
            m = model_of([1, 2, 3], [1])
            check_ds(h.full_ds, m, 'memory')
            check_ds(xyz.load_ds(os.path.join(tmpdir, 'nf'),
                                 engine=engine or 'h5netcdf'), m, 'disk')
        finally:
            shutil.rmtree(tmpdir)


def scenario_file_exists():
    """File there: it is loaded, replacing what is in memory, whatever way
    the data name is spelled and whichever call triggers the load."""
    for engine, ext in [('h5netcdf', '.h5'), ('joblib', '.dmp')]:
        tmpdir = tempfile.mkdtemp()
        try:
            base = os.path.join(tmpdir, 'fe')
            path = base + ext
            h0 = new_harvester(base, engine=engine)
            OFFSET[0] = 0.0
            h0.harvest_combos({'a': [1, 2], 'b': [1, 2]}, **RUNNER_KW)
            m = model_of([1, 2], [1, 2])
            raw = read_bytes(path)

            for name in [base, path]:
                # explicit load
                h = new_harvester(name, engine=engine)
                assert h.load_full_ds() is None
                check_ds(h._full_ds, m, 'explicit')
                # in-memory, fully loaded, not dask
                assert isinstance(h._full_ds['out'].data, np.ndarray)
                # lazy load through the property, only once
                h = new_harvester(name, engine=engine)
                ds = h.full_ds
                check_ds(ds, m, 'lazy')
                assert h.full_ds is ds
                # replaces in memory data
                h = new_harvester(name, engine=engine,
                                  full_ds=grid([7], [7]))
                h.load_full_ds()
                check_ds(h.full_ds, m, 'replace')
                # engine=None means the harvester's default
                h = new_harvester(name, engine=engine)
                h.load_full_ds(engine=None, chunks=None)
                check_ds(h.full_ds, m, 'defaults')
                assert read_bytes(path) == raw
                assert os.listdir(tmpdir) == ['fe' + ext]

            # explicit engine overrides the harvester's one
            other = 'joblib' if engine == 'h5netcdf' else 'h5netcdf'
            h = new_harvester(base, engine=other)
            assert h.full_ds is None
            h.load_full_ds(engine=engine)
            check_ds(h.full_ds, m, 'override')
            # (and add_ds passes it along)
            h = new_harvester(base, engine=other)
            h.add_ds(grid([3], [1, 2]), engine=engine)
            m3 = model_of([1, 2, 3], [1, 2])
            check_ds(h.full_ds, m3, 'override add')
            check_ds(xyz.load_ds(path, engine=engine), m3, 'disk')
            assert os.listdir(tmpdir) == ['fe' + ext]
        finally:
            shutil.rmtree(tmpdir)


def scenario_chunks():
    """``chunks`` (default from the harvester, or overridden per call) loads
    dask backed data with the same values."""
    import dask.array
    tmpdir = tempfile.mkdtemp()
    try:
        base = os.path.join(tmpdir, 'ch')
        OFFSET[0] = 0.0
        new_harvester(base).harvest_combos(
            {'a': [1, 2], 'b': [1, 2]}, **RUNNER_KW)
        m = model_of([1, 2], [1, 2])

        h = new_harvester(base, chunks={'a': 1})
        assert isinstance(h.full_ds['out'].data, dask.array.Array)
        assert h.full_ds['out'].chunks[0] == (1, 1)
        check_ds(h.full_ds.load(), m, 'chunks default')
        h.full_ds.close()

        h = new_harvester(base)
        h.load_full_ds(chunks={'a': 2})
        assert isinstance(h.full_ds['out'].data, dask.array.Array)
        assert h.full_ds['out'].chunks[0] == (2,)
        check_ds(h.full_ds.load(), m, 'chunks override')
        h.full_ds.close()

        h = new_harvester(base, chunks={'a': 1})
        h.harvest_combos({'a': [2, 3], 'b': [2, 3]}, **RUNNER_KW)
        h.harvest_combos({'a': [1], 'b': [1]}, **RUNNER_KW)
        m = policy(m, model_of([2, 3], [2, 3]), None)
        check_ds(h.full_ds.load(), m, 'chunks harvest')
        h.full_ds.close()
        check_ds(new_harvester(base).full_ds, m, 'chunks disk')
        assert os.listdir(tmpdir) == ['ch.h5']
    finally:
        shutil.rmtree(tmpdir)


def scenario_not_writable():
    """File there but not writable: an error naming the data name, nothing in
    memory or on disk changes."""
    for engine, ext in [('h5netcdf', '.h5'), ('joblib', '.dmp')]:
        tmpdir = tempfile.mkdtemp()
        try:
            base = os.path.join(tmpdir, 'ro')
            path = base + ext
            OFFSET[0] = 0.0
            new_harvester(base, engine=engine).harvest_combos(
                {'a': [1, 2], 'b': [1]}, **RUNNER_KW)
            raw = read_bytes(path)
            real_access = os.access
            seen = []

            def fake_access(p, mode, **kw):
                seen.append((p, mode))
                if os.fspath(p) == path and mode == os.W_OK:
                    return False
                return real_access(p, mode, **kw)

            for name in [base, path]:
                init = grid([5], [5])
                h = new_harvester(name, engine=engine, full_ds=init)
                calls = [
                    lambda: h.load_full_ds(),
                    lambda: h.add_ds(grid([3], [1])),
                    lambda: h.harvest_combos({'a': [3], 'b': [1]},
                                             overwrite=True, **RUNNER_KW),
                    lambda: h.harvest_cases([{'a': 3, 'b': 1}],
                                            overwrite=False, **RUNNER_KW),
                ]
                for call in calls:
                    del seen[:]
                    with mock.patch('os.access', fake_access):
                        try:
                            call()
                        except OSError as e:
                            assert str(e) == (
                                "The file '{}' exists but cannot be written "
                                "to".format(name)), str(e)
                        else:
                            raise AssertionError("no error")
                    assert seen == [(path, os.W_OK)], seen
                    assert h._full_ds is init
                    assert read_bytes(path) == raw
                    assert os.listdir(tmpdir) == ['ro' + ext]
                # unsynced still fine, and purely in memory
                h.harvest_combos({'a': [6], 'b': [5]}, sync=False,
                                 **RUNNER_KW)
                check_ds(h._full_ds, model_of([5, 6], [5]), 'memory')
                assert read_bytes(path) == raw
                # property access in a fresh session raises the same way
                h = new_harvester(name, engine=engine)
                with mock.patch('os.access', fake_access):
                    try:
                        h.full_ds
                    except OSError:
                        pass
                    else:
                        raise AssertionError("no error")
                assert h._full_ds is None

            # a really read-only file (no effect when running as root)
            os.chmod(path, 0o444)
            h = new_harvester(base, engine=engine)
            if os.access(path, os.W_OK):
                check_ds(h.full_ds, model_of([1, 2], [1]), 'root')
            else:
                try:
                    h.full_ds
                except OSError:
                    pass
                else:
                    raise AssertionError("no error")
            os.chmod(path, 0o644)
            assert read_bytes(path) == raw
        finally:
            shutil.rmtree(tmpdir)


if __name__ == '__main__':
    scenario_no_file()
    scenario_file_exists()
    scenario_chunks()
    scenario_not_writable()
    nsteps = random_sequences(n_seq=40, seed=3505)
    print("checked", nsteps, "random steps")
    print("PASS")
