"""C15 twin t8: the Sampler's append / save / draw code moved into helpers.

Run as ``cd <worktree> && /venv/bin/python /path/to/demo.py``.
Prints PASS and exits 0 when every check holds (both on the unmodified tree
and with the patch applied).
"""
import os
import sys

sys.path.insert(0, os.getcwd())

import shutil
import tempfile
import traceback

import numpy as np
import pandas as pd

import xyzpy
from xyzpy import Runner, Sampler
from xyzpy.manage import load_df
import xyzpy.gen.farming as farming

assert os.path.abspath(xyzpy.__file__).startswith(os.getcwd()), xyzpy.__file__

FAILURES = []


def check(cond, msg):
    if not cond:
        FAILURES.append(msg)
        print("  check failed:", msg)


def fn(a, b, c, k=1):
    return a + 10 * b + 100 * k, (a - b) * c, a % 2 == 0


def make_runner():
    return Runner(fn, var_names=['s', 'd', 'even'], constants={'c': 3})


A_CHOICES = (1, 2, 3, 4, 5)
B_CHOICES = (10, 20, 30)


def same_table(x, y):
    """Equal as tables: same columns (any order), same rows, same order."""
    if x is None or y is None:
        return False
    if sorted(x.columns) != sorted(y.columns) or len(x) != len(y):
        return False
    cols = sorted(x.columns)
    try:
        pd.testing.assert_frame_equal(
            x[cols].reset_index(drop=True), y[cols].reset_index(drop=True),
            check_dtype=False,
        )
    except AssertionError:
        return False
    return True


def rows_correct(df, a_ok, b_ok, c=3, k=1):
    """Every row's arguments are allowed and the outputs are fn(arguments)."""
    ok = True
    for _, r in df.iterrows():
        ok &= a_ok(r['a']) and b_ok(r['b'])
        ok &= r['c'] == c
        es, ed, ee = fn(r['a'], r['b'], r['c'], k=k)
        ok &= (r['s'] == es) and (r['d'] == ed) and (bool(r['even']) == ee)
    return bool(ok)


def in_a(x):
    return x in A_CHOICES


def in_b(x):
    return x in B_CHOICES


def sample_sequence(tmpdir, fname, engine):
    """Direct sampling with fresh samplers, overrides, generators, constants."""
    tag = "[sample_combos/{}] ".format(engine)
    path = os.path.join(tmpdir, fname)
    defaults = {'a': A_CHOICES, 'b': B_CHOICES}

    def disk():
        return load_df(path, engine=engine)

    # run 1: first ever run, nothing on disk
    s = Sampler(make_runner(), path, default_combos=defaults, engine=engine)
    r1 = s.sample_combos(4, verbosity=0)
    check(len(r1) == 4 and r1 is s.last_df, tag + "run 1 returns its 4 rows")
    check(s.full_df is not s.last_df, tag + "full_df is distinct from last_df")
    check(len(s.full_df) == 4, tag + "4 rows after run 1")
    check(same_table(s.full_df, disk()), tag + "disk == memory after run 1")
    check(rows_correct(s.full_df, in_a, in_b), tag + "run 1 rows correct")
    check(sorted(os.listdir(tmpdir)) == [fname],
          tag + "only the data file is left in the directory")
    snap = disk()

    # run 2: same sampler, override 'a' with a generator, different n
    calls = []

    def gen_a():
        calls.append(1)
        return 7 + 2 * len(calls)

    r2 = s.sample_combos(3, combos={'a': gen_a}, verbosity=0)
    check(len(calls) == 3, tag + "generator called once per row")
    check(list(r2['a']) == [9, 11, 13], tag + "rows hold the generated values")
    check(len(s.full_df) == 7, tag + "7 rows after run 2")
    check(same_table(s.full_df.iloc[:4], snap), tag + "run 2 kept old rows")
    check(same_table(s.full_df.iloc[4:], r2), tag + "run 2 appended its rows")
    check(same_table(s.full_df, disk()), tag + "disk == memory after run 2")
    snap = disk()

    # run 3: fresh sampler on the same file, overriding constant k
    s2 = Sampler(make_runner(), path, default_combos=defaults, engine=engine)
    r3 = s2.sample_combos(5, combos={'b': (20,)}, constants={'k': 2},
                          verbosity=0)
    check(len(r3) == 5 and set(r3['b']) == {20}, tag + "override of b used")
    check(rows_correct(r3, in_a, lambda x: x == 20, k=2),
          tag + "run 3 rows correct with constant k=2")
    check(len(s2.full_df) == 12, tag + "fresh sampler continues: 12 rows")
    check(same_table(s2.full_df.iloc[:7][list(snap.columns)], snap),
          tag + "run 3 kept old rows")
    check(same_table(s2.full_df, disk()), tag + "disk == memory after run 3")
    snap = disk()

    # run 4: n = 1 and then the lazily loaded table of yet another sampler
    s3 = Sampler(make_runner(), path, default_combos=defaults, engine=engine)
    check(len(s3.full_df) == 12, tag + "full_df lazily loads the file")
    s3.sample_combos(1, verbosity=0)
    check(len(disk()) == 13, tag + "13 rows after run 4")
    check(same_table(disk().iloc[:12], snap), tag + "run 4 kept old rows")
    check(same_table(s3.full_df, disk()), tag + "disk == memory after run 4")

    # run 5: an explicit engine for one run (same as the sampler's)
    s3.sample_combos(2, engine=engine, verbosity=0)
    check(len(disk()) == 15, tag + "15 rows after run 5")
    check(same_table(s3.full_df, disk()), tag + "disk == memory after run 5")


def draw_order(tmpdir):
    """The random draws happen row by row, argument by argument."""
    tag = "[draws] "
    trace = []

    def gen_b():
        trace.append('b')
        return 20

    def gen_z():
        trace.append('z')
        return -1

    s = Sampler(make_runner(), None,
                default_combos={'a': A_CHOICES, 'b': gen_b})
    np.random.seed(1234)
    fn_args, cases = s.gen_cases_fnargs(4, {'z': gen_z, 'a': (5, 6, 7)})
    np.random.seed(1234)
    expect = tuple(
        (np.random.choice((5, 6, 7)), 20, -1) for _ in range(4)
    )
    check(fn_args == ('a', 'b', 'z'), tag + "defaults first, overrides merged")
    check(isinstance(cases, tuple) and all(isinstance(c, tuple) for c in cases),
          tag + "cases are a tuple of tuples")
    check(cases == expect, tag + "same values from the same random state")
    check(trace == ['b', 'z'] * 4, tag + "generators called in row order")
    check(s.gen_cases_fnargs(0) == (('a', 'b'), ()), tag + "n = 0 gives no case")
    check(s.default_combos == {'a': A_CHOICES, 'b': gen_b},
          tag + "default_combos left alone")


def save_protocol(tmpdir, fname, engine):
    """Temporary name, order of the disk operations, failed saves."""
    tag = "[save/{}] ".format(engine)
    sub = os.path.join(tmpdir, 'sub-' + engine)
    os.makedirs(sub)
    path = os.path.join(sub, fname)
    s = Sampler(make_runner(), path, engine=engine,
                default_combos={'a': A_CHOICES, 'b': B_CHOICES})
    s.sample_combos(3, verbosity=0)

    events = []
    real_save, real_replace = farming.save_df, os.replace

    def spy_save(df, name, **kwargs):
        events.append(('save', name, len(df), kwargs))
        return real_save(df, name, **kwargs)

    def spy_replace(src, dst):
        events.append(('replace', src, dst))
        return real_replace(src, dst)

    farming.save_df, os.replace = spy_save, spy_replace
    try:
        s.sample_combos(2, verbosity=0)
    finally:
        farming.save_df, os.replace = real_save, real_replace
    tmp = os.path.join(sub, 'tmp-' + fname)
    check(events == [('save', tmp, 5, {'engine': engine}),
                     ('replace', tmp, path)],
          tag + "one write to tmp-<name> then one replace: {}".format(events))

    # a save that fails leaves memory and disk as they were; a retry works
    before_mem, before_disk = s.full_df, load_df(path, engine=engine)

    def boom(src, dst):
        raise OSError("simulated crash before the replace")

    os.replace = boom
    try:
        try:
            s.sample_combos(4, verbosity=0)
            check(False, tag + "the failed save should raise")
        except OSError:
            pass
    finally:
        os.replace = real_replace
    check(len(s.last_df) == 4, tag + "last_df holds the failed run")
    check(same_table(s._full_df, before_mem), tag + "memory kept by failed save")
    check(same_table(load_df(path, engine=engine), before_disk),
          tag + "disk kept by failed save")
    s.add_df(s.last_df)
    check(len(s.full_df) == 9, tag + "retry appends the 4 rows once")
    check(same_table(s.full_df, load_df(path, engine=engine)),
          tag + "disk == memory after the retry")

    # save_full_df on its own, with and without a new table
    s.save_full_df()
    check(len(load_df(path, engine=engine)) == 9, tag + "save_full_df()")
    s.save_full_df(s.full_df.iloc[:2])
    check(len(load_df(path, engine=engine)) == 2 and len(s.full_df) == 2,
          tag + "save_full_df(new) replaces disk and memory")

    # relative name with no directory part
    cwd = os.getcwd()
    os.chdir(sub)
    try:
        s4 = Sampler(make_runner(), 'rel-' + fname, engine=engine,
                     default_combos={'a': A_CHOICES, 'b': B_CHOICES})
        s4.sample_combos(2, verbosity=0)
        check(sorted(os.listdir('.')) == sorted([fname, 'rel-' + fname]),
              tag + "bare file name works and leaves no temporary")
    finally:
        os.chdir(cwd)


def unsynced(tmpdir):
    """No file name, sync=False, dict input."""
    tag = "[unsynced] "
    s = Sampler(make_runner(), None,
                default_combos={'a': A_CHOICES, 'b': B_CHOICES})
    s.sample_combos(3, verbosity=0)
    s.sample_combos(2, verbosity=0)
    check(len(s.full_df) == 5 and len(s.last_df) == 2, tag + "in memory only")
    check(rows_correct(s.full_df, in_a, in_b), tag + "rows correct")
    s.add_df({'a': [1], 'b': [10], 'c': [3], 's': [201], 'd': [-27],
              'even': [False]})
    check(len(s.full_df) == 6 and len(s.last_df) == 2, tag + "dict appended")

    path = os.path.join(tmpdir, 'nosync.pkl')
    s2 = Sampler(make_runner(), path,
                 default_combos={'a': A_CHOICES, 'b': B_CHOICES})
    s2.add_df(s.last_df, sync=False)
    check(not os.path.exists(path) and len(s2._full_df) == 2,
          tag + "sync=False touches no file")
    try:
        s.save_full_df()
        check(False, tag + "saving without a name should raise")
    except TypeError:
        pass


def crop_sequence(tmpdir, fname, engine, batchsize):
    """sow_samples / grow / reap with fresh samplers and crops."""
    tag = "[crop/{}/bs{}] ".format(engine, batchsize)
    sub = os.path.join(tmpdir, 'crop-{}-{}'.format(engine, batchsize))
    os.makedirs(sub)
    path = os.path.join(sub, fname)
    defaults = {'a': A_CHOICES, 'b': B_CHOICES}

    def disk():
        return load_df(path, engine=engine)

    total = 0
    snap = None
    runs = [
        (5, None, None, {}),
        (4, {'b': (30,)}, {'k': 5}, {}),
        (3, {'a': lambda: 2}, None, {'clean_up': False}),
    ]
    for i, (n, combos, constants, reap_opts) in enumerate(runs):
        s = Sampler(make_runner(), path, default_combos=defaults,
                    engine=engine)
        crop = s.Crop(name='c{}'.format(i), parent_dir=sub,
                      batchsize=batchsize)
        crop.sow_samples(n, combos=combos, constants=constants, verbosity=0)
        check(crop.num_sown_batches == -(-n // batchsize),
              tag + "run {}: number of batches".format(i))
        check(not os.path.exists(path) or len(disk()) == total,
              tag + "run {}: sowing leaves the table alone".format(i))
        crop.grow_missing(verbosity=0)
        df = crop.reap(**reap_opts)
        total += n
        k = 1 if constants is None else constants['k']
        b_ok = in_b if i != 1 else (lambda x: x == 30)
        a_ok = in_a if i != 2 else (lambda x: x == 2)
        check(len(df) == n and df is s.last_df,
              tag + "run {}: reap returns its n rows".format(i))
        check(rows_correct(df, a_ok, b_ok, k=k),
              tag + "run {}: rows correct".format(i))
        check(len(disk()) == total, tag + "run {}: n rows appended".format(i))
        check(same_table(s.full_df, disk()),
              tag + "run {}: disk == memory".format(i))
        if snap is not None:
            check(same_table(disk().iloc[:len(snap)][list(snap.columns)], snap),
                  tag + "run {}: earlier rows unchanged".format(i))
        check(os.path.exists(crop.location) == (reap_opts != {}),
              tag + "run {}: crop cleaned up as asked".format(i))
        snap = disk()

    # reap without syncing: the sampler and the file are left alone
    s = Sampler(make_runner(), path, default_combos=defaults, engine=engine)
    crop = s.Crop(name='nosync', parent_dir=sub, batchsize=batchsize)
    crop.sow_samples(2, verbosity=0)
    crop.grow_missing(verbosity=0)
    df = crop.reap(sync=False)
    check(len(df) == 2 and s.last_df is None and len(disk()) == total,
          tag + "sync=False reaps without appending")
    check(not os.path.exists(crop.location), tag + "sync=False still cleans up")

    # incomplete reap keeps the crop unless told otherwise
    s = Sampler(make_runner(), path, default_combos=defaults, engine=engine)
    crop = s.Crop(name='part', parent_dir=sub, batchsize=1)
    crop.sow_samples(3, verbosity=0)
    crop.grow((1, 3), verbosity=0)
    df = crop.reap(allow_incomplete=True)
    check(len(df) == 3 and len(disk()) == total + 3,
          tag + "incomplete reap appends 3 rows")
    check(os.path.exists(crop.location), tag + "incomplete reap keeps crop")
    crop.delete_all()


def main():
    tmpdir = tempfile.mkdtemp(prefix='c15-t8-')
    try:
        np.random.seed(7)
        for fname, engine in (('tab.pkl', 'pickle'), ('tab.csv', 'csv')):
            d = os.path.join(tmpdir, 'seq-' + engine)
            os.makedirs(d)
            sample_sequence(d, fname, engine)
            save_protocol(tmpdir, fname, engine)
            for batchsize in (1, 2, 7):
                crop_sequence(tmpdir, fname, engine, batchsize)
        draw_order(tmpdir)
        unsynced(tmpdir)
    except Exception:
        traceback.print_exc()
        FAILURES.append("unexpected exception")
    finally:
        shutil.rmtree(tmpdir, ignore_errors=True)

    if FAILURES:
        print("FAIL: {} check(s) failed".format(len(FAILURES)))
        sys.exit(1)
    print("PASS")


if __name__ == '__main__':
    main()
