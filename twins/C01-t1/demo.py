"""Demo for C01 / refactoring 1 (shuffle / un-shuffle helpers in
``combo_runner_core``).

Checks that a grid sweep calls the function exactly once per combination (with
constants, nothing else) and that the nested / flat / split results hold each
value in its own slot, for many shuffle seeds and execution strategies.

Run as:  cd <worktree> && /venv/bin/python /path/to/demo.py
"""
import sys
import os

sys.path.insert(0, os.getcwd())

import itertools
import random
import tempfile
import time
import uuid
import multiprocessing
import multiprocessing.pool
from concurrent.futures import ThreadPoolExecutor, ProcessPoolExecutor

import numpy as np

import xyzpy
from xyzpy.gen.combo_runner import combo_runner, combo_runner_core

assert os.path.abspath(xyzpy.__file__).startswith(os.getcwd()), xyzpy.__file__

LOGDIR = None


def _log_call(kws):
    # one file per call: exactly-once accounting that works across processes
    logdir = os.environ["C01_DEMO_LOGDIR"]
    with open(os.path.join(logdir, uuid.uuid4().hex), "w") as f:
        f.write(repr(sorted(kws.items())))


def _delay(kws):
    # deterministic but "scrambled" delays so workers complete out of order
    h = sum(ord(c) for c in repr(sorted(kws.items())))
    time.sleep(((h * 7919) % 5) * 0.002)


def f_scalar(**kws):
    _log_call(kws)
    _delay(kws)
    return repr(sorted(kws.items()))


def f_tuple(**kws):
    _log_call(kws)
    _delay(kws)
    key = repr(sorted(kws.items()))
    return key, len(key), "x" + key


def f_array(**kws):
    _log_call(kws)
    _delay(kws)
    key = repr(sorted(kws.items()))
    return np.array([len(key), sum(map(ord, key)), 3.5])


def expected(kind, kws):
    key = repr(sorted(kws.items()))
    if kind == "scalar":
        return key
    if kind == "tuple":
        return key, len(key), "x" + key
    return np.array([len(key), sum(map(ord, key)), 3.5])


FNS = {"scalar": f_scalar, "tuple": f_tuple, "array": f_array}


def same(a, b):
    if isinstance(a, np.ndarray) or isinstance(b, np.ndarray):
        return (
            isinstance(a, np.ndarray) and isinstance(b, np.ndarray) and
            a.shape == b.shape and bool((a == b).all())
        )
    return type(a) is type(b) and a == b


def nested_get(nested, idx):
    for i in idx:
        assert isinstance(nested, tuple)
        nested = nested[i]
    return nested


def read_calls():
    calls = []
    for name in os.listdir(LOGDIR):
        path = os.path.join(LOGDIR, name)
        with open(path) as f:
            calls.append(f.read())
        os.remove(path)
    return sorted(calls)


def check(combos, constants, kind, flat, split, **opts):
    """Run one sweep and check the whole property."""
    if isinstance(combos, dict):
        items = list(combos.items())
    elif isinstance(combos[0], str):
        items = [combos]
    else:
        items = list(combos)
    args = [a for a, _ in items]
    values = [list(v) for _, v in items]
    shape = tuple(len(v) for v in values)
    all_idx = list(itertools.product(*(range(n) for n in shape)))
    all_kws = [
        {**{a: values[k][i] for k, (a, i) in enumerate(zip(args, idx))},
         **constants}
        for idx in all_idx
    ]

    assert read_calls() == []
    res = combo_runner(
        FNS[kind], combos, constants=constants, flat=flat, split=split,
        verbosity=0, **opts
    )

    # exactly once per combination, with the constants and nothing else
    want_calls = sorted(repr(sorted(kws.items())) for kws in all_kws)
    got_calls = read_calls()
    assert got_calls == want_calls, (got_calls, want_calls, opts)

    nout = 3 if split else None
    if split:
        assert kind in ("tuple", "array")
        assert isinstance(res, tuple) and len(res) == nout

    for n, (idx, kws) in enumerate(zip(all_idx, all_kws)):
        exp = expected(kind, kws)
        if split:
            for o in range(nout):
                part = res[o]
                got = part[n] if flat else nested_get(part, idx)
                assert same(got, exp[o]), (idx, o, got, exp[o], opts)
        else:
            got = res[n] if flat else nested_get(res, idx)
            assert same(got, exp), (idx, got, exp, opts)

    # and the container has exactly the grid's shape (no extra slots)
    def check_shape(nested, dims):
        if not dims:
            return
        assert isinstance(nested, tuple) and len(nested) == dims[0]
        for sub in nested:
            check_shape(sub, dims[1:])

    for part in (res if split else (res,)):
        if flat:
            assert isinstance(part, tuple) and len(part) == len(all_idx)
        else:
            check_shape(part, shape)


def random_grid(rng):
    nargs = rng.randint(1, 5)
    names = rng.sample(["a", "b", "c", "d", "e", "zz", "n_x"], nargs)
    pools = [
        [1, 2, 3, 5, -7, 0],
        [0.5, -1.25, 3.0, 1e-3, 2.5],
        ["x", "y", "foo", "bar", ""],
        [1, 2.5, "s", -3],
    ]
    items = []
    for nm in names:
        pool = rng.choice(pools)
        items.append((nm, rng.sample(pool, rng.randint(1, 4))))
    spelling = rng.choice(["dict", "tuple", "list"])
    if spelling == "dict":
        combos = dict(items)
    elif spelling == "tuple":
        combos = tuple((a, tuple(v)) for a, v in items)
    else:
        combos = [(a, v) for a, v in items]
    if nargs == 1 and rng.random() < 0.5:
        combos = items[0]  # single ('a', [..]) pair spelling
    constants = rng.choice([{}, {"k": 3}, {"k": "c", "other": 2.5}])
    return combos, constants


def main():
    global LOGDIR
    rng = random.Random(1234)
    nchecks = 0

    with tempfile.TemporaryDirectory() as tmp:
        LOGDIR = tmp
        os.environ["C01_DEMO_LOGDIR"] = tmp

        # ---- sequential, many shuffle spellings, all result shapes ------- #
        shuffles = [False, True, 1, 2, 3, 7, 42, 12345, 2**31]
        for trial in range(40):
            combos, constants = random_grid(rng)
            kind = rng.choice(["scalar", "tuple", "array"])
            flat = rng.random() < 0.5
            split = kind != "scalar" and rng.random() < 0.5
            for shuffle in rng.sample(shuffles, 4):
                check(combos, constants, kind, flat, split, shuffle=shuffle)
                nchecks += 1

        # ---- a fixed grid against every seed in a range ------------------ #
        combos = {"a": [1, 2, 3], "b": ["x", "y"], "c": [0.5, 1.5, 2.5, 3.5]}
        for seed in range(1, 30):
            check(combos, {"k": 1}, "scalar", False, False, shuffle=seed)
            check(combos, {}, "tuple", True, True, shuffle=seed)
            nchecks += 2

        # single-element grid, with shuffle
        check({"a": [4]}, {}, "scalar", False, False, shuffle=True)
        check(("a", [4]), {"k": 2}, "tuple", False, True, shuffle=5)
        nchecks += 2

        # ---- the shuffled evaluation order itself is unchanged ----------- #
        order = []

        def rec(a, b):
            order.append((a, b))
            return a * 10 + b

        out = combo_runner_core(
            rec, (("a", [1, 2, 3]), ("b", [4, 5, 6, 7])), {},
            shuffle=11, verbosity=0,
        )
        grid = list(itertools.product([1, 2, 3], [4, 5, 6, 7]))
        random.seed(11)
        ref = list(enumerate(grid))
        random.shuffle(ref)
        assert order == [p for _, p in ref], order
        assert out == tuple(
            tuple(a * 10 + b for b in [4, 5, 6, 7]) for a in [1, 2, 3]
        )
        # info (flat) still reports settings in the original order
        info = {}
        out = combo_runner_core(
            rec, (("a", [1, 2, 3]), ("b", [4, 5, 6, 7])), {},
            shuffle=True, flat=True, verbosity=0, info=info,
        )
        assert out == tuple(a * 10 + b for a, b in grid)
        assert info["settings"] == [dict(a=a, b=b) for a, b in grid]
        nchecks += 2

        # ---- pools + shuffle: completion order differs from submission --- #
        combos = {"a": [1, 2, 3], "b": ["x", "y"], "c": [0.5, 1.5]}
        with ThreadPoolExecutor(4) as ex:
            for shuffle in (False, True, 9):
                for kind in ("scalar", "tuple", "array"):
                    for flat in (False, True):
                        for split in ((False, True) if kind != "scalar"
                                      else (False,)):
                            check(combos, {"k": 0}, kind, flat, split,
                                  executor=ex, shuffle=shuffle)
                            nchecks += 1
        with multiprocessing.pool.ThreadPool(3) as ex:
            for shuffle in (False, 4):
                check(combos, {}, "tuple", False, True,
                      executor=ex, shuffle=shuffle)
                nchecks += 1
        with ProcessPoolExecutor(
            2, mp_context=multiprocessing.get_context("fork")
        ) as ex:
            for shuffle in (False, 21):
                check(combos, {"k": 1}, "array", False, False,
                      executor=ex, shuffle=shuffle)
                nchecks += 1
        with multiprocessing.get_context("fork").Pool(2) as ex:
            for shuffle in (False, 6):
                check(combos, {"k": 1}, "scalar", True, False,
                      executor=ex, shuffle=shuffle)
                nchecks += 1
        for opts in ({"parallel": True}, {"num_workers": 2}, {"parallel": 2}):
            for shuffle in (False, 3):
                check(combos, {"k": "z"}, "tuple", False, True,
                      shuffle=shuffle, **opts)
                nchecks += 1

    print(f"{nchecks} sweeps checked")
    print("PASS")


if __name__ == "__main__":
    main()
