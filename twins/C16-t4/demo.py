"""Demo for C16 / refactoring 1: ``gen_cluster_script`` script assembly.

Run as ``cd <worktree> && /venv/bin/python /path/to/demo.py``.

Part A generates scripts for a wide matrix of schedulers / modes / crop
states / resource options (no execution) and compares the (path normalised)
text, warnings and exceptions against digests recorded on the unmodified tree.

Part B generates scripts for every scheduler x mode x crop state, checks them
with ``bash -n`` and ``compile``, checks the array range in the header, then
executes them with bash using stub scheduler variables (once per array index,
or once in single mode) and checks that exactly the intended batches are
grown, each once, and that the crop then reaps to the exact results.
"""

import os
import sys

sys.path.insert(0, os.getcwd())

import hashlib
import itertools
import re
import shutil
import subprocess
import tempfile
import warnings

import xyzpy
from xyzpy.gen import cropping
from xyzpy.gen.cropping import Crop, gen_cluster_script

HERE = os.path.realpath(os.getcwd())
assert os.path.realpath(os.path.dirname(os.path.dirname(xyzpy.__file__))) == (
    HERE
), f"xyzpy imported from {xyzpy.__file__}, not the current directory"

TASK_VARS = {
    "sge": "SGE_TASK_ID",
    "pbs": "PBS_ARRAY_INDEX",
    "slurm": "SLURM_ARRAY_TASK_ID",
}
ARRAY_LINE = {
    "sge": re.compile(r"^#\$ -t (\d+)-(\d+)$", re.M),
    "pbs": re.compile(r"^#PBS -J (\d+)-(\d+)$", re.M),
    "slurm": re.compile(r"^#SBATCH --array=(\d+)-(\d+)$", re.M),
}

failures = []


def check(cond, msg):
    if not cond:
        failures.append(msg)
        print("FAIL:", msg)


def make_fn(logfile):
    """Function whose calls are observable (one appended line per call)."""

    def fn(a, b):
        with open(logfile, "a") as f:
            f.write(f"{a},{b}\n")
        return 10 * a + b

    return fn


def plain_fn(a, b):
    return 10 * a + b


def make_crop(parent, num_batches, batchsize=2, fn=plain_fn, name="demo"):
    """Sow a crop of exactly ``num_batches`` batches of ``batchsize``."""
    crop = Crop(fn=fn, name=name, parent_dir=parent, batchsize=batchsize)
    combos = {"a": list(range(num_batches)), "b": list(range(batchsize))}
    crop.sow_combos(combos, verbosity=0)
    assert crop.num_batches == num_batches
    expected = tuple(
        tuple(10 * a + b for b in combos["b"]) for a in combos["a"]
    )
    return crop, combos, expected


# --------------------------------------------------------------------------- #
#                       Part A: text of generated scripts                     #
# --------------------------------------------------------------------------- #

OPTION_SETS = {
    "default": {},
    "time_str": dict(time="1:30:05"),
    "time_int": dict(time=2),
    "time_float": dict(time=1.5),
    "time_tuple": dict(time=(1, 2, 3)),
    "hms": dict(hours=1, minutes=5, seconds=7),
    "h_only": dict(hours=3),
    "m_only": dict(minutes=20),
    "s_str": dict(seconds="30"),
    "time_and_hours": dict(time="1:00:00", hours=1),
    "gigabytes": dict(gigabytes=4),
    "mem_int": dict(mem=8),
    "mem_str": dict(mem="16G"),
    "mem_numstr": dict(mem="16"),
    "mem_and_gb": dict(mem=8, gigabytes=4),
    "mem_per_cpu_int": dict(mem_per_cpu=2),
    "mem_per_cpu_str": dict(mem_per_cpu="500M", gigabytes=1),
    "procs": dict(num_procs=4),
    "workers": dict(num_workers=2),
    "procs_workers": dict(num_procs=4, num_workers=2),
    "procs_workers_uneven": dict(num_procs=4, num_workers=3),
    "threads": dict(num_threads=2, num_procs=4, num_workers=2),
    "threads_only": dict(num_threads=3),
    "mpi": dict(mpi=True, num_procs=8, launcher="mpiexec python"),
    "nodes": dict(num_nodes=2, num_procs=2),
    "extra_value": dict(gpu=1),
    "extra_flags": dict(requeue=None, exclusive=True, constraint="a&b"),
    "extra_mixed": dict(gres="gpu:2", nice=False, zero=0, requeue=None),
    "extra_with_slurm_keys": dict(
        partition="debug", num_nodes=3, num_procs=2, mem=4, mem_per_cpu=1
    ),
    "conda_str": dict(conda_env="myenv"),
    "conda_true": dict(conda_env=True),
    "conda_true_already": dict(
        conda_env=True, shell_setup="conda activate other"
    ),
    "conda_true_mamba": dict(
        conda_env=True, shell_setup="mamba activate other"
    ),
    "conda_bad": dict(conda_env=3),
    "conda_none": dict(conda_env=None),
    "setup": dict(
        setup="import math; x = math.pi",
        shell_setup="module load python\nexport FOO=1",
        launcher="python3 -u",
    ),
    "debugging": dict(debugging=True, temp_gigabytes=5),
    "default_output_dir": dict(output_directory=None),
    "pbs_var_in_setup": dict(shell_setup="echo $PBS_ARRAY_INDEX #PBS -J 1-1"),
}

# how the crop looks / which batches are requested
STATES = [
    ("fresh", None, None),
    ("fresh_ids1", None, (2,)),
    ("fresh_ids1_list", None, [1]),
    ("fresh_ids2", None, (3, 1)),
    ("fresh_idsall", None, (1, 2, 3, 4)),
    ("fresh_ids_empty", None, ()),
    ("fresh_ids_gen", None, "generator"),
    ("fresh_ids_int", None, 3),
    ("some", (2, 4), None),
    ("some_ids", (2, 4), (1, 2)),
    ("one_left", (1, 2, 4), None),
    ("done", (1, 2, 3, 4), None),
    ("done_ids", (1, 2, 3, 4), (4,)),
]

# recorded on the unmodified tree with ``demo.py --record``
GOLDEN_A = {
    "default": "97af46ca019ce69a",
    "time_str": "669694b3dd8890e6",
    "time_int": "a376bb801f57fb75",
    "time_float": "504a9133428b1182",
    "time_tuple": "791251ba4f611fca",
    "hms": "dd4cd50047e0f806",
    "h_only": "c807be3444693db3",
    "m_only": "766ff4b7a1bc7704",
    "s_str": "18e238b4809d0298",
    "time_and_hours": "a7d5b57de9caa902",
    "gigabytes": "8e72453523adfcd9",
    "mem_int": "37d472fe27595cda",
    "mem_str": "0169b5ac648e65b5",
    "mem_numstr": "259706c3a5ce10f6",
    "mem_and_gb": "4b433b442f6b1a9e",
    "mem_per_cpu_int": "07bdd14d88b0a881",
    "mem_per_cpu_str": "1c7de57bbb1d75c7",
    "procs": "6846b7b38fcf01dc",
    "workers": "694cd4e2f7a37352",
    "procs_workers": "0f3cf5cb5234f8c7",
    "procs_workers_uneven": "e7f7c68c306fdb8a",
    "threads": "0f3cf5cb5234f8c7",
    "threads_only": "2a3baf21f0f9398d",
    "mpi": "0994d44540785570",
    "nodes": "a7fa5d1458995aaa",
    "extra_value": "b051bc317de40874",
    "extra_flags": "86042d9f22a1243f",
    "extra_mixed": "e965f00b423c53c8",
    "extra_with_slurm_keys": "336158028465bd43",
    "conda_str": "0131eec12c84f293",
    "conda_true": "daa27f1a6683f1b6",
    "conda_true_already": "834ec107913084a6",
    "conda_true_mamba": "f17eb20e62e3b653",
    "conda_bad": "b91e46f36b96a5ab",
    "conda_none": "54f9e7aa3ed0b21a",
    "setup": "c6634955e2dc218b",
    "debugging": "812aaf7c7853aec2",
    "default_output_dir": "4dd2feff636aacb2",
    "pbs_var_in_setup": "e453abf39672df27",
    "conda_true_no_env": "ba4dd7b65cd638cb",
    "misc": "da765a87e9cad214",
}


def normalise(text, tmp):
    text = text.replace(tmp, "<TMP>")
    home = os.path.expanduser("~")
    return text.replace(os.path.join(home, "Scratch"), "<HOME>/Scratch")


def describe_call(fn, tmp):
    """Call ``fn`` and describe everything observable about the outcome."""
    with warnings.catch_warnings(record=True) as wlist:
        warnings.simplefilter("always")
        try:
            out = "OK\n" + fn()
        except Exception as e:  # noqa
            out = f"RAISED {type(e).__name__}: {e}"
    warns = "".join(
        f"WARN {w.category.__name__}: {w.message}\n" for w in wlist
    )
    return normalise(warns + out, tmp)


def part_a():
    tmp = os.path.realpath(tempfile.mkdtemp(prefix="c16demo_a_"))
    saved_conda = os.environ.pop("CONDA_DEFAULT_ENV", None)
    digests = {}
    try:
        # one crop per state, re-used read-only for all option sets
        crops = {}
        for state, grown, ids in STATES:
            parent = os.path.join(tmp, state)
            os.makedirs(parent)
            crop, _, _ = make_crop(parent, 4)
            if grown:
                crop.grow(grown, verbosity=0)
            crops[state] = crop
        unsown = Crop(name="unsown", parent_dir=tmp)

        for oname, opts in OPTION_SETS.items():
            h = hashlib.sha256()
            for scheduler, mode in itertools.product(
                ("sge", "pbs", "slurm", "SLURM", "Pbs"), ("array", "single")
            ):
                for state, grown, ids in STATES:
                    if oname != "default" and state not in (
                        "fresh", "fresh_ids1", "some", "some_ids"
                    ):
                        continue
                    kws = dict(output_directory=os.path.join(tmp, "out"))
                    kws.update(opts)
                    if oname.startswith("conda_true"):
                        os.environ["CONDA_DEFAULT_ENV"] = "active-env"
                    else:
                        kws.setdefault("conda_env", False)

                    def call():
                        bids = (
                            (i for i in (4, 2)) if ids == "generator" else ids
                        )
                        return gen_cluster_script(
                            crops[state], scheduler, bids, mode=mode, **kws
                        )

                    desc = describe_call(call, tmp)
                    os.environ.pop("CONDA_DEFAULT_ENV", None)
                    h.update(
                        f"## {scheduler} {mode} {state}\n{desc}\n".encode()
                    )
            digests[oname] = h.hexdigest()[:16]

        # conda_env=True when not inside any conda environment
        h = hashlib.sha256()
        for scheduler in ("sge", "pbs", "slurm"):
            h.update(describe_call(
                lambda: gen_cluster_script(
                    crops["fresh"], scheduler, output_directory="/o"
                ), tmp).encode())
        digests["conda_true_no_env"] = h.hexdigest()[:16]

        # bad scheduler / mode, unsown crop, bound-method spellings
        h = hashlib.sha256()
        crop = crops["some"]
        calls = [
            lambda: gen_cluster_script(crop, "lsf", conda_env=False),
            lambda: gen_cluster_script(crop, "sge", mode="Array"),
            lambda: gen_cluster_script(crop, "sge", mode=None),
            lambda: gen_cluster_script(crop, None),
            lambda: crop.gen_cluster_script("sge", (1,), conda_env=False,
                                            output_directory="/o"),
            lambda: crop.gen_sge_script(conda_env=False, output_directory="/o"),
            lambda: crop.gen_pbs_script(batch_ids=[3], conda_env=False),
            lambda: crop.gen_slurm_script(mode="single", conda_env=False),
            lambda: crop.gen_qsub_script(conda_env=False, output_directory="/o"),
            lambda: crop.gen_qsub_script((1, 3), scheduler="pbs",
                                         conda_env=False),
        ]
        for scheduler, mode in itertools.product(
            ("sge", "pbs", "slurm"), ("array", "single")
        ):
            calls.append(
                lambda s=scheduler, m=mode: gen_cluster_script(
                    unsown, s, mode=m, conda_env=False, output_directory="/o"
                )
            )
            calls.append(
                lambda s=scheduler, m=mode: gen_cluster_script(
                    unsown, s, (1, 2), mode=m, conda_env=False,
                    output_directory="/o"
                )
            )
        for c in calls:
            h.update((describe_call(c, tmp) + "\n").encode())
        digests["misc"] = h.hexdigest()[:16]
    finally:
        if saved_conda is not None:
            os.environ["CONDA_DEFAULT_ENV"] = saved_conda
        shutil.rmtree(tmp, ignore_errors=True)

    if "--record" in sys.argv:
        print("GOLDEN_A = {")
        for k, v in digests.items():
            print(f'    "{k}": "{v}",')
        print("}")
        return
    for k, v in digests.items():
        check(GOLDEN_A.get(k) == v, f"part A: script text changed for {k!r}")
    check(set(GOLDEN_A) == set(digests), "part A: digest keys differ")


# --------------------------------------------------------------------------- #
#                   Part B: execute the scripts with bash                     #
# --------------------------------------------------------------------------- #

RESOURCE_CYCLE = [
    dict(),
    dict(time="0:10:00", gigabytes=2),
    dict(time=1, mem=4, num_procs=2),
    dict(hours=0, minutes=5, seconds=30, gpu=1, requeue=None),
    dict(minutes=15, num_workers=2, num_procs=2),
    dict(time=0.5, exclusive=True, num_nodes=1, num_workers=2),
    dict(seconds=90, num_threads=1, debugging=True, setup="import math"),
    dict(time="00:20:00", shell_setup="export DEMO_FOO=1", feature="x"),
]


def snapshot_results(crop):
    d = os.path.join(crop.location, "results")
    out = {}
    for f in sorted(os.listdir(d)):
        p = os.path.join(d, f)
        with open(p, "rb") as fh:
            out[f] = (os.stat(p).st_mtime_ns, fh.read())
    return out


def result_ids(snapshot):
    return sorted(
        int(re.fullmatch(r"xyz-result-(\d+)\.jbdmp", f).group(1))
        for f in snapshot
    )


def read_log(logfile):
    if not os.path.exists(logfile):
        return []
    with open(logfile) as f:
        return [tuple(map(int, ln.split(","))) for ln in f.read().split()]


def run_script(script, tmp, env_extra):
    path = os.path.join(tmp, "script.sh")
    with open(path, "w") as f:
        f.write(script)
    env = {
        k: v for k, v in os.environ.items()
        if k not in TASK_VARS.values() and k != "CONDA_DEFAULT_ENV"
    }
    env["PYTHONPATH"] = HERE
    env.update(env_extra)
    res = subprocess.run(
        ["bash", path], env=env, capture_output=True, text=True, cwd=tmp
    )
    return res


def static_checks(label, script, scheduler, mode, n_tasks, tmp):
    # valid shell
    path = os.path.join(tmp, "check.sh")
    with open(path, "w") as f:
        f.write(script)
    res = subprocess.run(["bash", "-n", path], capture_output=True, text=True)
    check(res.returncode == 0, f"{label}: bash -n failed: {res.stderr}")
    check(script.startswith("#!/bin/bash -l\n"), f"{label}: shebang")

    # valid embedded python (with the scheduler variable substituted)
    m = re.search(r"<< EOM\n(.*?)\nEOM\n", script, re.S)
    check(m is not None, f"{label}: no embedded program")
    if m is not None:
        prog = m.group(1).replace("$" + TASK_VARS[scheduler], "1")
        check("$" not in prog, f"{label}: stray shell variable in program")
        try:
            compile(prog, "<embedded>", "exec")
        except SyntaxError as e:
            check(False, f"{label}: embedded python invalid: {e}")

    # the array range covers exactly the tasks
    ranges = ARRAY_LINE[scheduler].findall(script)
    for other in set(ARRAY_LINE) - {scheduler}:
        check(not ARRAY_LINE[other].findall(script),
              f"{label}: array header of other scheduler {other}")
    if mode == "single" or (scheduler == "pbs" and n_tasks == 1):
        check(ranges == [], f"{label}: unexpected array header {ranges}")
        if mode == "single":
            check("$" + TASK_VARS[scheduler] not in script,
                  f"{label}: task variable in single mode script")
    else:
        check(ranges == [("1", str(n_tasks))],
              f"{label}: array range {ranges} != 1-{n_tasks}")


def changed_ids(old, new):
    """Ids of result files that were created or rewritten."""
    return sorted(
        int(re.search(r"(\d+)", f).group(1))
        for f, v in new.items() if old.get(f) != v
    )


def scenario(scheduler_arg, mode, num_batches, grown, batch_ids, resources):
    scheduler = scheduler_arg.lower()
    label = (
        f"{scheduler_arg}/{mode}/B={num_batches}/grown={grown}/ids={batch_ids}"
    )
    tmp = os.path.realpath(tempfile.mkdtemp(prefix="c16demo_b_"))
    try:
        logfile = os.path.join(tmp, "calls.log")
        crop, combos, expected = make_crop(
            tmp, num_batches, fn=make_fn(logfile)
        )
        bsz = len(combos["b"])
        if grown:
            crop.grow(grown, verbosity=0)
        if os.path.exists(logfile):
            os.remove(logfile)
        before = snapshot_results(crop)
        check(result_ids(before) == sorted(grown or ()), f"{label}: setup")

        if batch_ids is not None:
            intended = list(batch_ids)
        else:
            intended = [
                i for i in range(1, num_batches + 1) if i not in (grown or ())
            ]

        script = crop.gen_cluster_script(
            scheduler_arg, batch_ids, mode=mode, conda_env=False,
            launcher=sys.executable,
            output_directory=os.path.join(tmp, "out"), **resources
        )
        n_tasks = len(intended)
        static_checks(label, script, scheduler, mode, n_tasks, tmp)

        def check_run(res, sub):
            check(res.returncode == 0, f"{label}{sub}: exit {res.returncode}")
            check("Traceback" not in res.stderr,
                  f"{label}{sub}: python failed: {res.stderr[-500:]}")
            check("XYZPY script starting..." in res.stdout and
                  "XYZPY script finished" in res.stdout,
                  f"{label}{sub}: start/finish markers missing")
            check("Growing: " in res.stdout, f"{label}{sub}: no crop repr")

        if mode == "array":
            prev = before
            for idx in range(1, n_tasks + 1):
                res = run_script(
                    script, tmp, {TASK_VARS[scheduler]: str(idx)}
                )
                check_run(res, f"[task {idx}]")
                now = snapshot_results(crop)
                check(changed_ids(prev, now) == [intended[idx - 1]],
                      f"{label}[task {idx}]: grew {changed_ids(prev, now)}, "
                      f"wanted {intended[idx - 1]}")
                prev = now
        else:
            res = run_script(script, tmp, {})
            check_run(res, "")

        after = snapshot_results(crop)
        check(result_ids(after) ==
              sorted(set(result_ids(before)) | set(intended)),
              f"{label}: results {result_ids(after)} after growing {intended}")
        check(changed_ids(before, after) == sorted(intended),
              f"{label}: wrote {changed_ids(before, after)}, "
              f"wanted {sorted(intended)}")

        # each case of each intended batch evaluated exactly once
        want = sorted(
            (i - 1, b) for i in intended for b in range(bsz)
        )
        check(sorted(read_log(logfile)) == want,
              f"{label}: calls {sorted(read_log(logfile))} != {want}")
        check(os.path.isdir(os.path.join(tmp, "out")) == (scheduler == "sge"),
              f"{label}: output directory creation")

        # finish anything not requested, then the crop reaps exactly
        crop.grow_missing(verbosity=0)
        check(crop.is_ready_to_reap(), f"{label}: not ready to reap")
        check(crop.missing_results() == (), f"{label}: still missing")
        got = crop.reap()
        check(got == expected, f"{label}: reaped {got} != {expected}")
    finally:
        shutil.rmtree(tmp, ignore_errors=True)


def part_b():
    # (num_batches, already grown, explicit batch_ids)
    states = [
        (1, None, None),
        (3, None, None),
        (5, (2, 5), None),
        (4, (1, 2, 4), None),
        (4, None, (3,)),
        (8, None, (7, 2)),
        (3, None, (1, 2, 3)),
        (6, (1, 6), (2, 6)),
    ]
    from concurrent.futures import ThreadPoolExecutor

    warnings.simplefilter("ignore")
    res_cycle = itertools.cycle(RESOURCE_CYCLE)
    jobs = []
    for scheduler in ("sge", "pbs", "slurm"):
        for mode in ("array", "single"):
            for nb, grown, ids in states:
                jobs.append((scheduler, mode, nb, grown, ids, next(res_cycle)))
            # shift the cycle so resource options meet different states
            next(res_cycle)
    # case-insensitive scheduler name, 8 batches all grown by an array
    jobs.append(("SLURM", "array", 8, None, None, dict(time="0:01:00")))
    jobs.append(("Pbs", "single", 2, (1,), None, dict(mem=1)))
    with ThreadPoolExecutor(max_workers=6) as pool:
        for f in [pool.submit(scenario, *job) for job in jobs]:
            f.result()
    print(f"part B: executed {len(jobs)} scenarios")


if __name__ == "__main__":
    part_a()
    if "--record" in sys.argv:
        sys.exit(0)
    part_b()
    if failures:
        print(f"{len(failures)} check(s) failed")
        sys.exit(1)
    print("PASS")
