"""Demo for C03 twin 2: execution order / shuffling / DataFrame assembly
(combo_runner_core, results_to_df).

Run as ``cd <worktree> && /venv/bin/python /path/to/demo.py``.
"""
import os
import sys

sys.path.insert(0, os.getcwd())

import itertools
import multiprocessing.pool
import random
import shutil
import tempfile
from concurrent.futures import ThreadPoolExecutor

import joblib
import numpy as np

import xyzpy
from xyzpy.gen.combo_runner import (
    combo_runner,
    combo_runner_core,
    combo_runner_to_ds,
    combo_runner_to_df,
    results_to_df,
)
from xyzpy.gen.case_runner import (
    case_runner,
    case_runner_to_ds,
    case_runner_to_df,
)

assert os.path.dirname(os.path.dirname(os.path.abspath(xyzpy.__file__))) == \
    os.path.abspath(os.getcwd()), xyzpy.__file__

A, B = [3, 1, 2], [20, 10]
GRID = list(itertools.product(A, B))


def f1(a, b, c=1):
    return 100 * a + 10 * b + c


def f2(a, b, c=1, big=None):
    off = 0 if big is None else big["off"]
    return a + b + c + off, a * b


def f_arr(a, b, t=(0, 1, 2)):
    return a - b, [a * ti + b for ti in t]


def expected_order(settings, seed):
    """The evaluation order promised for ``shuffle=seed`` and the next random
    number the global generator should produce afterwards."""
    random.seed(int(seed))
    idx = list(range(len(settings)))
    random.shuffle(idx)
    nxt = random.random()
    return [settings[i] for i in idx], nxt


class Recorder:
    def __init__(self, fn):
        self.fn = fn
        self.calls = []

    def __call__(self, **kws):
        self.calls.append(dict(kws))
        return self.fn(**kws)


# ------------------------------ execution order ---------------------------- #

def test_order_of_evaluation():
    settings = [{"a": a, "b": b, "c": 5} for a, b in GRID]
    # unshuffled: grid order
    rec = Recorder(f1)
    out = combo_runner(rec, {"a": A, "b": B}, constants={"c": 5}, verbosity=0)
    assert rec.calls == settings
    assert out == tuple(tuple(f1(a, b, 5) for b in B) for a in A)

    for seed in (True, 1, 2, 42):
        want, nxt = expected_order(settings, seed)
        rec = Recorder(f1)
        out = combo_runner(rec, {"a": A, "b": B}, constants={"c": 5},
                           shuffle=seed, verbosity=0)
        assert rec.calls == want
        assert random.random() == nxt
        # ... but the results are back in grid order
        assert out == tuple(tuple(f1(a, b, 5) for b in B) for a in A)
        rec = Recorder(f1)
        flat = combo_runner(rec, {"a": A, "b": B}, constants={"c": 5},
                            shuffle=seed, flat=True, verbosity=0)
        assert rec.calls == want
        assert flat == tuple(f1(a, b, 5) for a, b in GRID)

    # cases (+ sub combos), flat output of case_runner
    cases = [(2, 10), (1, 30), (2, 20)]
    csettings = [{"a": a, "b": b, "c": c} for a, b in cases for c in (7, 8)]
    for seed in (False, True, 9):
        rec = Recorder(f1)
        if seed:
            want, nxt = expected_order(csettings, seed)
        else:
            want = csettings
        out = case_runner(rec, ("a", "b"), cases, combos={"c": [7, 8]},
                          shuffle=seed, verbosity=0)
        if seed:
            assert random.random() == nxt
        assert rec.calls == want
        assert out == tuple(f1(**kw) for kw in csettings)

    # split
    s, p = combo_runner(f2, {"a": A, "b": B}, split=True, shuffle=3,
                        verbosity=0)
    assert s == tuple(tuple(a + b + 1 for b in B) for a in A)
    assert p == tuple(tuple(a * b for b in B) for a in A)


def test_info_and_core():
    info = {}
    res = combo_runner_core(
        f1, combos=(("b", [20, 10]),), constants={"c": 0},
        cases=({"a": 3}, {"a": 1}), shuffle=True, verbosity=0, info=info,
    )
    assert info == {"fn_args": ("a", "b"),
                    "all_combo_values": ([1, 3], [20, 10])}
    assert res == ((f1(1, 20, 0), f1(1, 10, 0)), (f1(3, 20, 0), f1(3, 10, 0)))
    info = {}
    res = combo_runner_core(
        f1, combos=(("b", [20, 10]),), constants={"c": 0},
        cases=({"a": 3}, {"a": 1}), shuffle=5, flat=True, verbosity=0,
        info=info,
    )
    assert info == {"settings": [
        {"a": 3, "b": 20, "c": 0}, {"a": 3, "b": 10, "c": 0},
        {"a": 1, "b": 20, "c": 0}, {"a": 1, "b": 10, "c": 0},
    ]}
    assert res == (f1(3, 20, 0), f1(3, 10, 0), f1(1, 20, 0), f1(1, 10, 0))


def test_errors():
    # nothing to run + shuffle
    for kws in ({"shuffle": True}, {"shuffle": 3, "flat": True}):
        try:
            combo_runner(f1, {"a": [], "b": [1]}, verbosity=0, **kws)
        except ValueError as e:
            assert str(e) == "not enough values to unpack (expected 2, got 0)"
        else:
            raise AssertionError("no error")
    try:
        combo_runner(f1, {"a": [1]}, cases=[{"a": 2, "b": 1}], verbosity=0)
    except ValueError as e:
        assert "both ``cases`` and ``combos``" in str(e)
    else:
        raise AssertionError("no error")
    # a bad executor object
    try:
        combo_runner(f1, {"a": [1], "b": [2]}, executor=object(),
                     verbosity=0)
    except TypeError as e:
        assert "does not have a ``submit``" in str(e)
    else:
        raise AssertionError("no error")
    # errors of the function propagate, after the earlier settings were run
    rec = Recorder(lambda a: 1 // a)
    try:
        combo_runner(rec, {"a": [2, 1, 0, 3]}, verbosity=0)
    except ZeroDivisionError:
        assert rec.calls == [{"a": 2}, {"a": 1}, {"a": 0}]
    else:
        raise AssertionError("no error")


# ------------------------------ executors ---------------------------------- #

def test_execution_options_to_ds():
    ref = combo_runner_to_ds(f_arr, {"a": A, "b": B}, ["d", "v"],
                             var_dims={"v": "t"}, var_coords={"t": [0, 1, 2]},
                             verbosity=0)
    assert ref["v"].dims == ("a", "b", "t")
    assert list(ref["a"].values) == A and list(ref["b"].values) == B
    for a, b in GRID:
        d, v = f_arr(a, b)
        assert ref["d"].sel(a=a, b=b).item() == d
        assert ref["v"].sel(a=a, b=b).values.tolist() == v

    tpool = ThreadPoolExecutor(2)
    mpool = multiprocessing.pool.ThreadPool(2)
    try:
        options = [
            {"shuffle": True}, {"shuffle": 11},
            {"parallel": True, "num_workers": 2},
            {"parallel": 2}, {"parallel": 2, "shuffle": 4},
            {"num_workers": 2},
            {"executor": tpool}, {"executor": tpool, "shuffle": True},
            {"executor": mpool}, {"executor": mpool, "shuffle": 2},
            # a supplied executor takes precedence over parallel
            {"executor": tpool, "parallel": 3, "num_workers": 5},
            {"parallel": False, "num_workers": None, "shuffle": False},
        ]
        for opts in options:
            ds = combo_runner_to_ds(f_arr, {"a": A, "b": B}, ["d", "v"],
                                    var_dims={"v": "t"},
                                    var_coords={"t": [0, 1, 2]},
                                    verbosity=0, **opts)
            assert ds.identical(ref), opts
        # a supplied executor is really the one used
        n = []

        class Counting:
            def submit(self, fn, *args, **kws):
                n.append(kws)
                return tpool.submit(fn, *args, **kws)

        ds = combo_runner_to_ds(f_arr, {"a": A, "b": B}, ["d", "v"],
                                var_dims={"v": "t"},
                                var_coords={"t": [0, 1, 2]}, parallel=True,
                                executor=Counting(), verbosity=0)
        assert ds.identical(ref)
        assert n == [{"a": a, "b": b} for a, b in GRID]
    finally:
        tpool.shutdown()
        mpool.close()
        mpool.join()


# -------------------------------- cases ------------------------------------ #

def test_case_coordinates():
    cases = [(3, "x"), (1, "z"), (2, "x"), (1, "y")]
    for opts in ({}, {"shuffle": True}, {"parallel": 2, "shuffle": 6}):
        ds = case_runner_to_ds(lambda a, b: "{}{}".format(a, b), ("a", "b"),
                               cases, "lab", verbosity=0, **opts) \
            if not opts.get("parallel") else \
            case_runner_to_ds(join_ab, ("a", "b"), cases, "lab",
                              verbosity=0, **opts)
        assert list(ds["a"].values) == [1, 2, 3]
        assert list(ds["b"].values) == ["x", "y", "z"]
        for a, b in itertools.product([1, 2, 3], "xyz"):
            val = ds["lab"].sel(a=a, b=b).item()
            if (a, b) in cases:
                assert val == "{}{}".format(a, b)
            else:
                assert val is None or val != val

    # unsortable union of values: all present, each exactly once
    info = {}
    res = combo_runner_core(
        lambda k: str(k), combos=(), constants={},
        cases=[{"k": 1}, {"k": "one"}, {"k": (1,)}, {"k": 1}],
        verbosity=0, info=info,
    )
    (vals,) = info["all_combo_values"]
    assert isinstance(vals, list) and len(vals) == 3
    assert set(vals) == {1, "one", (1,)}
    assert dict(zip(vals, res)) == {1: "1", "one": "one", (1,): "(1,)"}

    # cases + combos, numeric: nan for the points not run
    ds = case_runner_to_ds(f2, None, [{"a": 2}, {"a": 1}], ["s", "p"],
                           combos={"b": [5, 4]}, constants={"c": 0},
                           shuffle=3, verbosity=0)
    assert list(ds["a"].values) == [1, 2] and list(ds["b"].values) == [5, 4]
    assert ds["s"].sel(a=2, b=4).item() == 6 and ds.attrs == {"c": 0}
    ds = case_runner_to_ds(f1, ("a", "b"), [(1, 2), (3, 4)], "o", verbosity=0)
    assert np.isnan(ds["o"].sel(a=1, b=4).item())
    assert ds["o"].sel(a=3, b=4).item() == f1(3, 4)


def join_ab(a, b):
    return "{}{}".format(a, b)


# ------------------------------ DataFrames --------------------------------- #

def test_dataframes():
    tpool = ThreadPoolExecutor(3)
    try:
        all_opts = [{}, {"shuffle": True}, {"shuffle": 8}, {"parallel": 2},
                    {"shuffle": 2, "num_workers": 2}, {"executor": tpool},
                    {"executor": tpool, "shuffle": 13}]
        for opts in all_opts:
            df = combo_runner_to_df(
                f2, {"a": A, "b": B}, ["s", "p"],
                constants={"c": 2}, resources={"big": {"off": 50}},
                attrs={"tag": "T", "n": 0}, verbosity=0, **opts
            )
            # one row per setting, in grid order, resources not recorded
            assert list(df.columns) == ["a", "b", "c", "tag", "n", "s", "p"]
            assert list(zip(df["a"], df["b"])) == GRID
            for _, row in df.iterrows():
                assert (row["s"], row["p"]) == \
                    f2(row["a"], row["b"], row["c"], {"off": 50})
                assert row["tag"] == "T" and row["n"] == 0

            cases = [(3, 30), (1, 10), (2, 30)]
            df = case_runner_to_df(f2, ("a", "b"), cases, ("s", "p"),
                                   combos={"c": [0, 1]}, verbosity=0, **opts)
            assert list(df.columns) == ["a", "b", "c", "s", "p"]
            rows = list(zip(df["a"], df["b"], df["c"]))
            assert rows == [(a, b, c) for a, b in cases for c in (0, 1)]
            for _, row in df.iterrows():
                assert (row["s"], row["p"]) == f2(row["a"], row["b"], row["c"])
    finally:
        tpool.shutdown()

    # single output variable: the result itself, even if iterable
    for var_names in ("v", ["v"]):
        df = combo_runner_to_df(lambda a: (a, a + 1), {"a": [1, 2]},
                                var_names, shuffle=True, verbosity=0)
        assert list(df.columns) == ["a", "v"]
        assert df["v"].tolist() == [(1, 2), (2, 3)]
    # several names but a non-iterable result -> goes to the first name
    df = combo_runner_to_df(lambda a: a * 10, {"a": [1, 2]}, ["x", "y"],
                            verbosity=0)
    assert list(df.columns) == ["a", "x"] and df["x"].tolist() == [10, 20]
    # fewer outputs than names / more outputs than names
    df = combo_runner_to_df(lambda a: (a,), {"a": [1, 2]}, ["x", "y"],
                            verbosity=0)
    assert list(df.columns) == ["a", "x"] and df["x"].tolist() == [1, 2]
    df = combo_runner_to_df(lambda a: (a, 2, 3), {"a": [1, 2]}, ["x", "y"],
                            verbosity=0)
    assert list(df.columns) == ["a", "x", "y"] and df["y"].tolist() == [2, 2]
    # a resource also named as a constant is not recorded, an attr named
    # like a resource is; attrs override arguments; outputs override attrs
    df = combo_runner_to_df(
        lambda a, r, c: a + r + c, {"a": [1, 2]}, "out",
        constants={"c": 1, "r": 100}, resources={"r": 5},
        attrs={"r": "attr", "a": "A", "out": "hidden"}, verbosity=0,
    )
    assert list(df.columns) == ["a", "c", "r", "out"]
    assert df["a"].tolist() == ["A", "A"] and df["r"].tolist() == ["attr"] * 2
    assert df["out"].tolist() == [102, 103]

    # results_to_df directly: the setting dicts themselves become the rows
    settings = [{"a": 1, "big": 0}, {"a": 2, "big": 0}]
    df = results_to_df([(10, 11), (20, 21)], settings, attrs={"k": 1},
                       resources={"big": 0, "unused": 1},
                       var_names=("x", "y"))
    assert settings == [{"a": 1, "k": 1, "x": 10, "y": 11},
                        {"a": 2, "k": 1, "x": 20, "y": 21}]
    assert df.to_dict("records") == settings
    df = results_to_df([], [], attrs=None, resources={}, var_names=("x",))
    assert df.shape == (0, 0)

    # Runner / label front ends
    r = xyzpy.Runner(f2, ["s", "p"], constants={"c": 1},
                     resources={"big": {"off": 3}}, attrs={"w": "r"},
                     verbosity=0)
    df = r.run_combos({"a": [2, 1], "b": [4]}, to_df=True, shuffle=True)
    assert list(df.columns) == ["a", "b", "c", "w", "s", "p"]
    assert df["s"].tolist() == [2 + 4 + 1 + 3, 1 + 4 + 1 + 3]
    df = r.run_cases([(1, 2), (0, 5)], fn_args=("b", "a"), to_df=True,
                     shuffle=2)
    assert list(zip(df["b"], df["a"])) == [(1, 2), (0, 5)]
    assert df["p"].tolist() == [2, 0]

    @xyzpy.label("out", verbosity=0, shuffle=True)
    def g(a, b):
        return a ** b

    df = g.run_combos({"a": [1, 2, 3], "b": [2, 3]}, to_df=True)
    assert df["out"].tolist() == [a ** b for a in (1, 2, 3) for b in (2, 3)]
    ds = g.run_combos({"a": [1, 2, 3], "b": [2, 3]})
    assert ds["out"].sel(a=3, b=2).item() == 9


# --------------------- shuffled sow / grow / reap on disk ------------------- #

def test_crop(tmp):
    for shuffle in (False, True, 5):
        r = xyzpy.Runner(f2, ["s", "p"], constants={"c": 1}, verbosity=0)
        crop = r.Crop(name="crop{}".format(int(shuffle)), parent_dir=tmp,
                      batchsize=2)
        settings = [{"a": a, "b": b, "c": 1} for a, b in GRID]
        if shuffle:
            settings, _ = expected_order(settings, shuffle)
        crop.sow_combos({"a": A, "b": B}, shuffle=shuffle, verbosity=0)
        bdir = os.path.join(crop.location, "batches")
        names = sorted(os.listdir(bdir))
        assert names == ["xyz-batch-1.jbdmp", "xyz-batch-2.jbdmp",
                         "xyz-batch-3.jbdmp"], names
        # the batches on disk hold the settings in the order of evaluation
        sown = [kw for n in names for kw in joblib.load(os.path.join(bdir, n))]
        assert sown == settings, (sown, settings)
        crop.grow_missing(verbosity=0)
        res1 = joblib.load(
            os.path.join(crop.location, "results", "xyz-result-1.jbdmp"))
        assert tuple(res1) == tuple(f2(**kw) for kw in settings[:2])
        ds = crop.reap()
        assert list(ds["a"].values) == A and list(ds["b"].values) == B
        for a, b in GRID:
            assert ds["s"].sel(a=a, b=b).item() == a + b + 1
            assert ds["p"].sel(a=a, b=b).item() == a * b
        assert ds.attrs == {"c": 1}


def main():
    tmp = tempfile.mkdtemp(prefix="c03_t2_")
    try:
        test_order_of_evaluation()
        test_info_and_core()
        test_errors()
        test_execution_options_to_ds()
        test_case_coordinates()
        test_dataframes()
        test_crop(tmp)
    finally:
        shutil.rmtree(tmp, ignore_errors=True)
    print("PASS")


if __name__ == "__main__":
    main()
