"""Demo for C05 twin t7: the dataset file helpers in xyzpy/manage.py
(auto_add_extension / save_ds / load_ds / save_merge_ds) that the harvester's
memory == disk == faithful-merge property rests on."""
import os
import sys
sys.path.insert(0, os.getcwd())

import shutil
import warnings
import tempfile
import itertools

import numpy as np
import xarray as xr

import xyzpy
from xyzpy import manage
from xyzpy.manage import (
    auto_add_extension, save_ds, load_ds, save_merge_ds,
    forget_dtype_encoding,
)

warnings.filterwarnings('ignore')
assert os.path.abspath(xyzpy.__file__).startswith(os.getcwd()), xyzpy.__file__

EXT = {'h5netcdf': '.h5', 'joblib': '.dmp'}


def mk(avals, offset=0, b=(1, 2)):
    avals = list(avals)
    data = np.array([[offset + 10 * a + bb for bb in b] for a in avals],
                    dtype=float)
    return xr.Dataset({'x': (('a', 'b'), data)},
                      coords={'a': avals, 'b': list(b)})


def listing(d):
    return sorted(os.listdir(d))


def raises(exc, f, *args, **kwargs):
    try:
        f(*args, **kwargs)
    except exc as e:
        return e
    raise AssertionError('{} not raised'.format(exc))


def main():
    # ---- auto_add_extension ------------------------------------------- #
    assert auto_add_extension('foo', 'h5netcdf') == 'foo.h5'
    assert auto_add_extension('foo', 'netcdf4') == 'foo.nc'
    assert auto_add_extension('foo', 'joblib') == 'foo.dmp'
    assert auto_add_extension('foo', 'zarr') == 'foo.zarr'
    # any known extension anywhere in the name means: leave it alone
    for name in ['foo.h5', 'foo.nc', 'foo.dmp', 'foo.zarr', 'a.h5/b',
                 'x.dmp.tmp', 'my.ncfile']:
        for engine in ['h5netcdf', 'netcdf4', 'joblib', 'zarr', 'bogus']:
            assert auto_add_extension(name, engine) == name
    raises(KeyError, auto_add_extension, 'foo', 'bogus')
    raises(KeyError, auto_add_extension, 'foo', None)
    raises(TypeError, auto_add_extension, None, 'h5netcdf')
    raises(TypeError, auto_add_extension, None, 'bogus')
    assert auto_add_extension('', 'joblib') == '.dmp'

    tmp = tempfile.mkdtemp(prefix='c05t7_')
    try:
        n = 0
        for engine, with_ext in itertools.product(
                ['h5netcdf', 'joblib'], [False, True]):
            n += 1
            d = os.path.join(tmp, 'run{}'.format(n))
            os.mkdir(d)
            ext = EXT[engine]
            base = os.path.join(d, 'data' + (ext if with_ext else ''))
            kw = {} if engine == 'h5netcdf' and not with_ext \
                else {'engine': engine}

            # ---- save_ds / load_ds round trip ------------------------- #
            ds = mk([1, 2])
            ds.attrs.update({'n': None, 't': True, 'f': False, 'one': 1,
                             'zero': 0, 's': 'str', 'fl': 1.0})
            save_ds(ds, base, **kw)
            assert listing(d) == ['data' + ext]
            if engine == 'joblib':
                # attrs untouched for joblib
                assert ds.attrs['n'] is None and ds.attrs['t'] is True
                assert ds.attrs['f'] is False
            else:
                # netcdf: None/True/False become strings *in place*; 1, 0
                # and 1.0 (== True/False but not identical) are left alone
                assert ds.attrs['n'] == 'None' and ds.attrs['t'] == 'True'
                assert ds.attrs['f'] == 'False'
            assert ds.attrs['one'] == 1 and type(ds.attrs['one']) is int
            assert ds.attrs['zero'] == 0 and type(ds.attrs['zero']) is int
            assert type(ds.attrs['fl']) is float and ds.attrs['s'] == 'str'
            back = load_ds(base, **kw)
            assert back.equals(ds)
            assert list(back.attrs) == list(ds.attrs)
            assert back.attrs['s'] == 'str' and back.attrs['one'] == 1
            os.remove(os.path.join(d, 'data' + ext))

            # ---- load_ds options -------------------------------------- #
            missing = os.path.join(d, 'nothing' + (ext if with_ext else ''))
            new = load_ds(missing, create_new=True, **kw)
            assert isinstance(new, xr.Dataset) and len(new.variables) == 0
            raises((OSError, FileNotFoundError), load_ds, missing, **kw)
            assert listing(d) == []

            save_ds(mk([1, 2, 3]), base, **kw)
            assert load_ds(base, create_new=True, **kw).equals(mk([1, 2, 3]))
            if engine == 'h5netcdf':
                eager = load_ds(base, **kw)
                assert eager['x'].chunks is None
                assert isinstance(eager['x'].variable._data, np.ndarray)
                lazy = load_ds(base, chunks={'a': 1}, **kw)
                assert lazy['x'].chunks is not None
                lazy.close()
                lazy = load_ds(base, chunks=1, load_to_mem=False, **kw)
                assert lazy['x'].chunks is not None
                lazy.close()
                e = raises(ValueError, load_ds, base, chunks=1,
                           load_to_mem=True, **kw)
                assert 'redundant' in str(e)
                # explicitly given load_to_mem (either value) without chunks
                # leaves the data lazily indexed, not in memory
                for flag in (True, False):
                    notmem = load_ds(base, load_to_mem=flag, **kw)
                    assert not isinstance(notmem['x'].variable._data,
                                          np.ndarray)
                    assert notmem.equals(mk([1, 2, 3]))
                    notmem.close()
            else:
                # joblib ignores chunks / load_to_mem completely
                got = load_ds(base, chunks=1, load_to_mem=True, **kw)
                assert got.equals(mk([1, 2, 3]))
            os.remove(os.path.join(d, 'data' + ext))

            # ---- forget_dtype_encoding -------------------------------- #
            save_ds(mk([1, 2]), base, **kw)
            loaded = load_ds(base, **kw)
            same = forget_dtype_encoding(loaded)
            assert same is loaded
            assert all('dtype' not in v.encoding
                       for v in loaded.variables.values())
            os.remove(os.path.join(d, 'data' + ext))

            # ---- save_merge_ds: sequences of merges ------------------- #
            assert listing(d) == []
            save_merge_ds(mk([1, 2]), base, **kw)
            assert listing(d) == ['data' + ext]
            assert load_ds(base, **kw).equals(mk([1, 2]))

            # disjoint -> union, nothing dropped
            save_merge_ds(mk([3]), base, **kw)
            assert load_ds(base, **kw).equals(mk([1, 2, 3]))

            # identical overlapping -> unchanged
            save_merge_ds(mk([2, 3]), base, overwrite=None, **kw)
            assert load_ds(base, **kw).equals(mk([1, 2, 3]))

            # conflicting, default policy -> MergeError, disk unchanged
            before = load_ds(base, **kw)
            raises(xr.MergeError, save_merge_ds, mk([2], offset=500), base,
                   **kw)
            assert load_ds(base, **kw).identical(before)
            assert listing(d) == ['data' + ext]

            # overwrite=False keeps old, still adds new points
            save_merge_ds(mk([2, 4], offset=500), base, overwrite=False, **kw)
            got = load_ds(base, **kw)
            assert got['x'].sel(a=2, b=1).item() == 21
            assert got['x'].sel(a=4, b=2).item() == 542
            assert sorted(got['a'].values) == [1, 2, 3, 4]

            # overwrite=True keeps new
            save_merge_ds(mk([1], offset=900), base, overwrite=True, **kw)
            got = load_ds(base, **kw)
            assert got['x'].sel(a=1, b=2).item() == 912
            assert got['x'].sel(a=2, b=1).item() == 21
            assert got['x'].sel(a=3, b=1).item() == 31
            assert got['x'].sel(a=4, b=1).item() == 541

            # 'truthy' but not True falls to the default (strict) policy
            raises(xr.MergeError, save_merge_ds, mk([3], offset=7), base,
                   overwrite=1, **kw)
            raises(xr.MergeError, save_merge_ds, mk([3], offset=7), base,
                   overwrite=0, **kw)
            assert load_ds(base, **kw).identical(got)

            # new float coordinate into a file of int labels keeps its value
            fl = xr.Dataset({'x': (('a', 'b'), [[1.5, 2.5]])},
                            coords={'a': [2.5], 'b': [1, 2]})
            save_merge_ds(fl, base, **kw)
            got = load_ds(base, **kw)
            assert 2.5 in got['a'].values
            assert got['x'].sel(a=2.5, b=2).item() == 2.5
            assert got['x'].sel(a=4, b=1).item() == 541
            assert listing(d) == ['data' + ext]

            # ---- the harvester on top of the same helpers ------------- #
            hbase = os.path.join(d, 'harv' + (ext if with_ext else ''))
            r = xyzpy.Runner(lambda a, b: 10 * a + b, var_names=['x'])
            h = xyzpy.Harvester(r, hbase, engine=engine)
            h.harvest_combos({'a': [1, 2], 'b': [1, 2]}, verbosity=0)
            h2 = xyzpy.Harvester(r, hbase, engine=engine)
            h2.harvest_cases([{'a': 3, 'b': 1}], verbosity=0)
            # and an outside save_merge_ds into the harvester's file
            save_merge_ds(mk([5]), hbase, engine=engine)
            h.harvest_combos({'a': [4], 'b': [2]}, verbosity=0)
            on_disk = load_ds(hbase, engine=engine)
            assert h.full_ds.equals(on_disk)
            assert on_disk['x'].sel(a=1, b=1).item() == 11
            assert on_disk['x'].sel(a=3, b=1).item() == 31
            assert on_disk['x'].sel(a=5, b=2).item() == 52
            assert on_disk['x'].sel(a=4, b=2).item() == 42
            assert np.isnan(on_disk['x'].sel(a=4, b=1).item())
            assert listing(d) == ['data' + ext, 'harv' + ext]

        # ---- order of the calls save_merge_ds makes ----------------------- #
        d = os.path.join(tmp, 'order')
        os.mkdir(d)
        base = os.path.join(d, 'o')
        events = []
        real_load, real_save = manage.load_ds, manage.save_ds
        real_exists = os.path.exists

        def spy_load(file_name, **kw):
            events.append(('load', os.path.basename(file_name), kw))
            return real_load(file_name, **kw)

        def spy_save(ds, file_name, **kw):
            events.append(('save', os.path.basename(file_name), kw))
            return real_save(ds, file_name, **kw)

        def spy_exists(p):
            caller = sys._getframe(1).f_code.co_filename
            if caller == manage.__file__ and str(p).startswith(d):
                events.append(('exists', os.path.basename(p)))
            return real_exists(p)

        manage.load_ds, manage.save_ds = spy_load, spy_save
        os.path.exists = spy_exists
        try:
            save_merge_ds(mk([1]), base, engine='joblib', compress=3)
            save_merge_ds(mk([2]), base, overwrite=True, engine='joblib')
            save_merge_ds(mk([3]), base)
        finally:
            manage.load_ds, manage.save_ds = real_load, real_save
            os.path.exists = real_exists
        assert events == [
            ('exists', 'o.dmp'),
            ('save', 'o', {'engine': 'joblib', 'compress': 3}),
            ('exists', 'o.dmp'),
            ('load', 'o', {'engine': 'joblib'}),
            ('exists', 'o.dmp'),
            ('save', 'o', {'engine': 'joblib'}),
            ('exists', 'o.h5'),
            ('save', 'o', {}),
        ], events
        assert listing(d) == ['o.dmp', 'o.h5']
        assert load_ds(base, engine='joblib').equals(mk([1, 2]))
        assert load_ds(base).equals(mk([3]))

        # complex data can be written with the netcdf engine
        cbase = os.path.join(d, 'cplx')
        cds = xr.Dataset({'z': ('a', np.array([1 + 2j, 3 - 1j]))},
                         coords={'a': [1, 2]})
        save_merge_ds(cds, cbase)
        assert load_ds(cbase)['z'].values.tolist() == [1 + 2j, 3 - 1j]
    finally:
        shutil.rmtree(tmp, ignore_errors=True)

    print('PASS')


if __name__ == '__main__':
    main()
