"""Demo for C01 / refactoring 3 (the executor path: ``_submit``,
``_get_result`` and ``_run_linear_executor``).

Checks that a grid sweep calls the function exactly once per combination (with
constants, nothing else) and that the nested / flat / split results hold each
value in its own slot, for every kind of pool / executor (submit-style,
apply_async-style, multiprocessing pools, the default process pool) including
executors that complete their work in reversed or random order.

Run as:  cd <worktree> && /venv/bin/python /path/to/demo.py
"""
import sys
import os

sys.path.insert(0, os.getcwd())

import itertools
import random
import tempfile
import time
import uuid
import multiprocessing
import multiprocessing.pool
from concurrent.futures import ThreadPoolExecutor, ProcessPoolExecutor

import numpy as np

import xyzpy
from xyzpy.gen.combo_runner import (
    combo_runner, combo_runner_core, _submit, _get_result
)

assert os.path.abspath(xyzpy.__file__).startswith(os.getcwd()), xyzpy.__file__

LOGDIR = None


def _log_call(kws):
    # one file per call: exactly-once accounting that works across processes
    logdir = os.environ["C01_DEMO_LOGDIR"]
    with open(os.path.join(logdir, uuid.uuid4().hex), "w") as f:
        f.write(repr(sorted(kws.items())))


def _delay(kws):
    # deterministic but "scrambled" delays so workers complete out of order
    h = sum(ord(c) for c in repr(sorted(kws.items())))
    time.sleep(((h * 7919) % 5) * 0.002)


def f_scalar(**kws):
    _log_call(kws)
    _delay(kws)
    return repr(sorted(kws.items()))


def f_tuple(**kws):
    _log_call(kws)
    _delay(kws)
    key = repr(sorted(kws.items()))
    return key, len(key), "x" + key


def f_array(**kws):
    _log_call(kws)
    _delay(kws)
    key = repr(sorted(kws.items()))
    return np.array([len(key), sum(map(ord, key)), 3.5])


def expected(kind, kws):
    key = repr(sorted(kws.items()))
    if kind == "scalar":
        return key
    if kind == "tuple":
        return key, len(key), "x" + key
    return np.array([len(key), sum(map(ord, key)), 3.5])


FNS = {"scalar": f_scalar, "tuple": f_tuple, "array": f_array}


def same(a, b):
    if isinstance(a, np.ndarray) or isinstance(b, np.ndarray):
        return (
            isinstance(a, np.ndarray) and isinstance(b, np.ndarray) and
            a.shape == b.shape and bool((a == b).all())
        )
    return type(a) is type(b) and a == b


def nested_get(nested, idx):
    for i in idx:
        assert isinstance(nested, tuple)
        nested = nested[i]
    return nested


def read_calls():
    calls = []
    for name in os.listdir(LOGDIR):
        path = os.path.join(LOGDIR, name)
        with open(path) as f:
            calls.append(f.read())
        os.remove(path)
    return sorted(calls)


def check(combos, constants, kind, flat, split, **opts):
    """Run one sweep and check the whole property."""
    if isinstance(combos, dict):
        items = list(combos.items())
    elif isinstance(combos[0], str):
        items = [combos]
    else:
        items = list(combos)
    args = [a for a, _ in items]
    values = [list(v) for _, v in items]
    shape = tuple(len(v) for v in values)
    all_idx = list(itertools.product(*(range(n) for n in shape)))
    all_kws = [
        {**{a: values[k][i] for k, (a, i) in enumerate(zip(args, idx))},
         **constants}
        for idx in all_idx
    ]

    assert read_calls() == []
    res = combo_runner(
        FNS[kind], combos, constants=constants, flat=flat, split=split,
        verbosity=0, **opts
    )

    # exactly once per combination, with the constants and nothing else
    want_calls = sorted(repr(sorted(kws.items())) for kws in all_kws)
    got_calls = read_calls()
    assert got_calls == want_calls, (got_calls, want_calls, opts)

    nout = 3 if split else None
    if split:
        assert kind in ("tuple", "array")
        assert isinstance(res, tuple) and len(res) == nout

    for n, (idx, kws) in enumerate(zip(all_idx, all_kws)):
        exp = expected(kind, kws)
        if split:
            for o in range(nout):
                part = res[o]
                got = part[n] if flat else nested_get(part, idx)
                assert same(got, exp[o]), (idx, o, got, exp[o], opts)
        else:
            got = res[n] if flat else nested_get(res, idx)
            assert same(got, exp), (idx, got, exp, opts)

    # and the container has exactly the grid's shape (no extra slots)
    def check_shape(nested, dims):
        if not dims:
            return
        assert isinstance(nested, tuple) and len(nested) == dims[0]
        for sub in nested:
            check_shape(sub, dims[1:])

    for part in (res if split else (res,)):
        if flat:
            assert isinstance(part, tuple) and len(part) == len(all_idx)
        else:
            check_shape(part, shape)


def random_grid(rng):
    nargs = rng.randint(1, 5)
    names = rng.sample(["a", "b", "c", "d", "e", "zz", "n_x"], nargs)
    pools = [
        [1, 2, 3, 5, -7, 0],
        [0.5, -1.25, 3.0, 1e-3, 2.5],
        ["x", "y", "foo", "bar", ""],
        [1, 2.5, "s", -3],
    ]
    items = []
    for nm in names:
        pool = rng.choice(pools)
        items.append((nm, rng.sample(pool, rng.randint(1, 4))))
    spelling = rng.choice(["dict", "tuple", "list"])
    if spelling == "dict":
        combos = dict(items)
    elif spelling == "tuple":
        combos = tuple((a, tuple(v)) for a, v in items)
    else:
        combos = [(a, v) for a, v in items]
    if nargs == 1 and rng.random() < 0.5:
        combos = items[0]  # single ('a', [..]) pair spelling
    constants = rng.choice([{}, {"k": 3}, {"k": "c", "other": 2.5}])
    return combos, constants


class LazyFuture:
    """A future whose work is done by its executor, in the executor's order,
    the first time any result is asked for."""

    def __init__(self, executor, fn, args, kwds, style):
        self.executor, self.fn, self.args, self.kwds = executor, fn, args, kwds
        self.done = False
        # expose only ``result`` or only ``get``
        if style == "result":
            self.result = self._fetch
        else:
            self.get = self._fetch

    def _fetch(self):
        if not self.done:
            self.executor.run_all()
        assert self.done
        return self.value


class LazySubmitExecutor:
    """concurrent.futures-like (``submit`` only); completes all the work in a
    scrambled order, only once the first result is requested."""

    style = "result"

    def __init__(self, order):
        self.order = order
        self.pending = []
        self.submitted = []

    def _add(self, fn, args, kwds):
        fut = LazyFuture(self, fn, args, kwds, self.style)
        self.pending.append(fut)
        self.submitted.append((args, dict(kwds)))
        return fut

    def submit(self, fn, *args, **kwds):
        return self._add(fn, args, kwds)

    def run_all(self):
        pending, self.pending = self.pending, []
        if self.order == "reversed":
            pending = pending[::-1]
        elif self.order != "fifo":
            random.Random(self.order).shuffle(pending)
        for fut in pending:
            fut.value = fut.fn(*fut.args, **fut.kwds)
            fut.done = True


class LazyApplyAsyncExecutor(LazySubmitExecutor):
    """ipyparallel-view-like: ``apply_async(fn, *args, **kwds)`` only, and
    futures with ``get`` only."""

    style = "get"
    submit = None

    def __getattribute__(self, name):
        if name == "submit":
            raise AttributeError(name)
        return object.__getattribute__(self, name)

    def apply_async(self, fn, *args, **kwds):
        return self._add(fn, args, kwds)


class Boom(Exception):
    pass


def f_boom(a, b):
    if (a, b) == (2, "y"):
        raise Boom("fails here")
    return a


def main():
    global LOGDIR
    rng = random.Random(99)
    nchecks = 0

    with tempfile.TemporaryDirectory() as tmp:
        LOGDIR = tmp
        os.environ["C01_DEMO_LOGDIR"] = tmp

        def variants(n):
            out = []
            for _ in range(n):
                kind = rng.choice(["scalar", "tuple", "array"])
                flat = rng.random() < 0.5
                split = kind != "scalar" and rng.random() < 0.5
                shuffle = rng.choice([False, False, True, 13])
                out.append((kind, flat, split, shuffle))
            return out

        # ---- in-process scrambled-completion executors, random grids ----- #
        assert not hasattr(LazyApplyAsyncExecutor("fifo"), "submit")
        for trial in range(60):
            combos, constants = random_grid(rng)
            order = rng.choice(["fifo", "reversed", 1, 2, 3, 4])
            cls = rng.choice([LazySubmitExecutor, LazyApplyAsyncExecutor])
            for kind, flat, split, shuffle in variants(2):
                ex = cls(order)
                check(combos, constants, kind, flat, split,
                      executor=ex, shuffle=shuffle)
                # submitted with keyword arguments only, nothing positional
                assert all(args == () for args, _ in ex.submitted)
                assert ex.pending == []
                nchecks += 1

        # ---- submission happens in settings order, all before gathering -- #
        ex = LazySubmitExecutor("reversed")
        grid = {"a": [1, 2, 3], "b": ["x", "y"]}
        check(grid, {"k": 5}, "scalar", False, False, executor=ex)
        assert [kw for _, kw in ex.submitted] == [
            {"a": a, "b": b, "k": 5} for a in [1, 2, 3] for b in ["x", "y"]
        ]
        nchecks += 1

        # ---- real pools --------------------------------------------------- #
        grids = [
            ({"a": [1, 2, 3], "b": ["x", "y"], "c": [0.5, 1.5]}, {"k": 0}),
            ((("n", (4, 3, 2, 1)), ("s", ("p", "q"))), {}),
            (("a", [1.5, 2.5, 3.5]), {"k": "c", "j": 2}),
        ]
        fork = multiprocessing.get_context("fork")
        with ThreadPoolExecutor(4) as tpe, \
                ProcessPoolExecutor(2, mp_context=fork) as ppe, \
                multiprocessing.pool.ThreadPool(3) as tp, \
                fork.Pool(2) as mpp:
            for name, ex in [("tpe", tpe), ("ppe", ppe), ("tp", tp),
                             ("mpp", mpp)]:
                for combos, constants in grids:
                    for kind, flat, split, shuffle in variants(3):
                        check(combos, constants, kind, flat, split,
                              executor=ex, shuffle=shuffle)
                        nchecks += 1
            # verbose mode takes the same path (descriptions go to stderr)
            res = combo_runner(f_scalar, grids[0][0], constants={"k": 0},
                               executor=tpe, verbosity=2)
            assert len(read_calls()) == 12
            assert res[2][1][0] == expected(
                "scalar", {"a": 3, "b": "y", "c": 0.5, "k": 0})
            nchecks += 1

            # an exception in the function propagates out of the sweep
            for ex in (tpe, tp, ppe, mpp, LazySubmitExecutor("reversed"),
                       LazyApplyAsyncExecutor(3)):
                try:
                    combo_runner(f_boom, {"a": [1, 2, 3], "b": ["x", "y"]},
                                 executor=ex, verbosity=0)
                except Boom as e:
                    assert "fails here" in str(e)
                else:
                    raise AssertionError("exception was swallowed")
                nchecks += 1

        # default process pool (loky)
        for opts in ({"parallel": True}, {"num_workers": 2}, {"parallel": 2},
                     {"parallel": True, "num_workers": 1}):
            for combos, constants in grids[:2]:
                for kind, flat, split, shuffle in variants(1):
                    check(combos, constants, kind, flat, split,
                          shuffle=shuffle, **opts)
                    nchecks += 1

        # ---- the low-level helpers directly ------------------------------ #
        def add(x, y=0, z=0):
            return (x, y, z)

        with ThreadPoolExecutor(1) as tpe, \
                multiprocessing.pool.ThreadPool(1) as tp:
            assert _get_result(_submit(tpe, add, 1, y=2)) == (1, 2, 0)
            assert _get_result(_submit(tp, add, 1, z=3)) == (1, 0, 3)
            assert _get_result(_submit(tp, add, x=4)) == (4, 0, 0)
        assert _get_result(
            _submit(LazySubmitExecutor("fifo"), add, 1, 2, z=3)) == (1, 2, 3)
        assert _get_result(
            _submit(LazyApplyAsyncExecutor("fifo"), add, 1, z=3)) == (1, 0, 3)

        class Both:
            # ``result`` wins over ``get``
            def result(self):
                return "result"

            def get(self):
                return "get"

        assert _get_result(Both()) == "result"

        class NotAnExecutor:
            def __repr__(self):
                return "<NotAnExecutor {weird} {0}>"

        for call in (
            lambda: _submit(NotAnExecutor(), add, 1),
            lambda: combo_runner(add, {"x": [1, 2]}, executor=NotAnExecutor(),
                                 verbosity=0),
        ):
            try:
                call()
            except TypeError as e:
                assert str(e) == (
                    "The executor supplied, <NotAnExecutor {weird} {0}>, does "
                    "not have a ``submit`` or ``apply_async`` method."
                ), str(e)
            else:
                raise AssertionError("no TypeError")
        try:
            _get_result(object())
        except TypeError as e:
            assert str(e) == (
                "Future does not have a `result` or `get` method.")
        else:
            raise AssertionError("no TypeError")
        nchecks += 9

    print(f"{nchecks} checks done")
    print("PASS")


if __name__ == "__main__":
    main()
