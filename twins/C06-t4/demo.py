"""Demo for C06 twin 1: the reap side of a farmer-attached Crop.

Run as ``cd <worktree> && /venv/bin/python /path/to/demo.py``.

Checks that ``Crop.reap`` / ``reap_runner`` / ``reap_harvest`` /
``reap_samples`` give exactly what a direct run / harvest / sample gives,
record the farmer's last result, leave the on-disk data as a direct harvest
would, clean up (or not) the crop directory at the right moment, and raise
the same errors -- in this process and when the crop is reloaded by name in
another process.
"""
import os
import sys

sys.path.insert(0, os.getcwd())

import pickle
import shutil
import subprocess
import tempfile
import warnings

import numpy as np
import pandas as pd
import xarray as xr

import xyzpy
from xyzpy import Runner, Harvester, Sampler
from xyzpy.gen.cropping import Crop, XYZError

assert os.path.dirname(os.path.dirname(os.path.abspath(xyzpy.__file__))) == (
    os.path.abspath(os.getcwd())
), xyzpy.__file__

warnings.simplefilter("ignore")


def fn(a, b, c=1, r=0):
    # scalar output and an array output with an internal dimension 't'
    return a + 10 * b + 100 * c + r, np.array([a, b, c]) * (1.0 + r)


def make_runner(c=2, r=1000):
    return Runner(
        fn,
        fn_args=("a", "b"),
        var_names=["s", "v"],
        var_dims={"v": ["t"]},
        var_coords={"t": [10, 20, 30]},
        constants={"c": c},
        resources={"r": r},
        attrs={"note": "hello"},
    )


def fn2(a, b, c=1, r=0):
    return a + 10 * b + 100 * c + r, float(a * b) / (1 + r)


def make_scalar_runner(c=2, r=1000):
    return Runner(
        fn2,
        fn_args=("a", "b"),
        var_names=["s", "q"],
        constants={"c": c},
        resources={"r": r},
        attrs={"note": "flat"},
    )


def ds_same(x, y):
    assert isinstance(x, xr.Dataset) and isinstance(y, xr.Dataset)
    assert x.identical(y), "\n{}\n!=\n{}".format(x, y)
    assert list(x.data_vars) == list(y.data_vars)
    assert dict(x.sizes) == dict(y.sizes)
    assert x.attrs == y.attrs and list(x.attrs) == list(y.attrs)
    for k in x.variables:
        assert x[k].dtype == y[k].dtype, k


def df_same(x, y):
    assert isinstance(x, pd.DataFrame) and isinstance(y, pd.DataFrame)
    pd.testing.assert_frame_equal(x, y, check_exact=True)


def raises(exc, call, match=None):
    try:
        call()
    except exc as e:
        assert type(e) is exc, type(e)
        if match is not None:
            assert match in str(e), str(e)
        return str(e)
    raise AssertionError("did not raise {}".format(exc))


COMBOS = {"a": [1, 2, 3], "b": [5, 4]}
CASES = [(7, 1), (8, 2), (9, 3)]


def check_runner(tmp):
    # -- plain combos, batchsize 2, default clean up ----------------------- #
    direct = make_runner().run_combos(COMBOS, verbosity=0)
    r = make_runner()
    crop = r.Crop(name="r1", parent_dir=tmp, batchsize=2)
    crop.sow_combos(COMBOS, verbosity=0)
    raises(XYZError, crop.reap, "not ready to reap")
    assert r.last_ds is None
    crop.grow_missing(verbosity=0)
    out = crop.reap()
    ds_same(out, direct)
    assert r.last_ds is out and r._last_ds is out
    assert not hasattr(r, "_last_df")
    assert not os.path.exists(crop.location)
    assert float(out["s"].sel(a=2, b=4)) == 2 + 40 + 200 + 1000
    assert out.attrs == {"note": "hello", "c": 2}

    # -- shuffled, with remainder, sow-time constants override ------------- #
    direct = make_runner().run_combos(
        COMBOS, constants={"c": 5}, verbosity=0
    )
    r = make_runner()
    crop = r.Crop(name="r2", parent_dir=tmp, num_batches=4)
    crop.sow_combos(COMBOS, constants={"c": 5}, shuffle=7, verbosity=0)
    crop.grow_missing(verbosity=0)
    out = crop.reap(clean_up=False)
    ds_same(out, direct)
    assert out.attrs["c"] == 5
    assert os.path.isdir(crop.location)
    # reaping again gives the same and now (explicitly) cleans up
    out2 = crop.reap(clean_up=True)
    ds_same(out2, direct)
    assert r.last_ds is out2
    assert not os.path.exists(crop.location)

    # -- cases (+ sub combos), fn_args from the runner, to dataframe ------- #
    r0 = make_scalar_runner()
    direct_df = r0.run_cases(CASES, to_df=True, verbosity=0)
    direct_ds = make_scalar_runner().run_cases(CASES, verbosity=0)
    r = make_scalar_runner()
    crop = r.Crop(name="r3", parent_dir=tmp, batchsize=2)
    crop.sow_cases(None, CASES, verbosity=0)
    crop.grow_missing(verbosity=0)
    out_df = crop.reap_runner(r, to_df=True, clean_up=False)
    df_same(out_df, direct_df)
    assert r._last_df is out_df and r._last_ds is None
    out_ds = crop.reap_runner(r, wait=True)
    ds_same(out_ds, direct_ds)
    assert r._last_ds is out_ds and r._last_df is out_df
    assert not os.path.exists(crop.location)

    # -- partial reap: allow_incomplete fills with nan, keeps the crop ----- #
    r = make_runner()
    crop = r.Crop(name="r4", parent_dir=tmp, batchsize=2)
    crop.sow_combos(COMBOS, verbosity=0)
    raises(XYZError, lambda: crop.reap(allow_incomplete=True), "all-nan")
    crop.grow((1, 3), verbosity=0)
    out = crop.reap(allow_incomplete=True)
    assert os.path.isdir(crop.location)
    full = make_runner().run_combos(COMBOS, verbosity=0)
    assert int(out["s"].isnull().sum()) == 2
    good = out["s"].notnull()
    assert bool((out["s"].where(good) == full["s"].where(good)).sum() == 4)
    assert r.last_ds is out
    # ... but explicit clean_up=True wins
    out = crop.reap(allow_incomplete=True, clean_up=True)
    assert not os.path.exists(crop.location)

    # -- reaping a crop that was never sown -------------------------------- #
    r = make_runner()
    crop = r.Crop(name="r5", parent_dir=tmp)
    msg = raises(XYZError, crop.reap)
    assert msg == "Settings can't be found at {}.".format(
        os.path.join(crop.location, "xyz-settings.jbdmp")
    ), msg
    raises(XYZError, lambda: crop.reap(wait=True), "Settings can't be found")

    # -- no farmer: raw nested tuple --------------------------------------- #
    crop = Crop(fn=fn, name="r6", parent_dir=tmp, batchsize=4)
    crop.sow_combos(COMBOS, constants={"c": 1}, verbosity=0)
    crop.grow_missing(verbosity=0)
    raw = crop.reap(sync=False, overwrite=True)
    assert isinstance(raw, tuple) and len(raw) == 3 and len(raw[0]) == 2
    assert raw[1][0][0] == 2 + 50 + 100
    assert not os.path.exists(crop.location)


def check_harvester(tmp):
    def direct_and_crop(tag, steps, **hopts):
        """steps: list of (combos, c, overwrite, sync)."""
        f1 = os.path.join(tmp, "direct-{}.h5".format(tag))
        f2 = os.path.join(tmp, "crop-{}.h5".format(tag))
        h1 = Harvester(make_runner(), data_name=f1, **hopts)
        h2 = Harvester(make_runner(), data_name=f2, **hopts)
        for i, (combos, c, overwrite, sync) in enumerate(steps):
            err1 = err2 = None
            try:
                h1.harvest_combos(
                    combos,
                    constants={"c": c},
                    overwrite=overwrite,
                    sync=sync,
                    verbosity=0,
                )
            except Exception as e:
                err1 = e
            crop = h2.Crop(
                name="h{}{}".format(tag, i), parent_dir=tmp, batchsize=3
            )
            crop.sow_combos(combos, constants={"c": c}, verbosity=0)
            crop.grow_missing(verbosity=0)
            try:
                out = crop.reap(overwrite=overwrite, sync=sync)
            except Exception as e:
                err2 = e
            assert type(err1) is type(err2), (err1, err2)
            if err1 is None:
                ds_same(out, h1.last_ds)
                assert h2.last_ds is out
                assert not os.path.exists(crop.location)
            else:
                assert str(err1) == str(err2)
                # failed to merge: the crop must still be there for a retry
                assert os.path.isdir(crop.location)
                # last result is still recorded
                ds_same(h2.last_ds, h1.last_ds)
            assert os.path.exists(f1) == os.path.exists(f2)
            if os.path.exists(f1):
                ds_same(xyzpy.load_ds(f2), xyzpy.load_ds(f1))
            if not sync:
                # reaping with sync=False does not touch the accumulated
                # data at all (neither on disk nor in memory)
                assert h2._full_ds is None
            elif (h1._full_ds is None) or (h2._full_ds is None):
                assert h1._full_ds is None and h2._full_ds is None
            else:
                ds_same(h2._full_ds, h1._full_ds)
        if h1._full_ds is not None:
            h1._full_ds.close()
        if h2._full_ds is not None:
            h2._full_ds.close()
        return h1, h2

    first = {"a": [1, 2], "b": [5]}
    more = {"a": [2, 3], "b": [5, 4]}
    # disjoint-ish merge (same constants: no conflict)
    direct_and_crop("A", [(first, 2, None, True), (more, 2, None, True)])
    # conflicting data, the three policies
    direct_and_crop("B", [(first, 2, None, True), (more, 3, True, True)])
    direct_and_crop("C", [(first, 2, None, True), (more, 3, False, True)])
    direct_and_crop("D", [(first, 2, None, True), (more, 3, None, True)])
    # not syncing at all
    h1, h2 = direct_and_crop("E", [(first, 2, None, False)])
    assert h2._full_ds is None and not os.path.exists(h2.data_name)

    # no data_name: in memory accumulation only
    h = Harvester(make_runner())
    crop = h.Crop(name="hmem", parent_dir=tmp)
    crop.sow_combos(first, verbosity=0)
    crop.grow_missing(verbosity=0)
    out = crop.reap()
    ds_same(h.full_ds, out)
    assert h.full_ds is not out

    # incomplete harvest: crop kept unless clean_up is forced
    f = os.path.join(tmp, "inc.h5")
    h = Harvester(make_runner(), data_name=f)
    crop = h.Crop(name="hinc", parent_dir=tmp, batchsize=1)
    crop.sow_combos(first, verbosity=0)
    crop.grow(2, verbosity=0)
    out = crop.reap(allow_incomplete=True)
    assert os.path.isdir(crop.location)
    assert int(out["s"].isnull().sum()) == 1
    on_disk = xyzpy.load_ds(f)
    ds_same(on_disk, out)
    on_disk.close()
    h._full_ds.close()
    crop.reap_harvest(h, allow_incomplete=True, clean_up=True, overwrite=True)
    assert not os.path.exists(crop.location)
    h._full_ds.close()

    # missing harvester
    crop = Crop(fn=fn, name="hnone", parent_dir=tmp)
    msg = raises(ValueError, lambda: crop.reap_harvest(None))
    assert msg == "Cannot reap and harvest if no Harvester is set."
    msg = raises(ValueError, lambda: crop.reap_samples(None))
    assert msg == "Cannot reap samples without a 'Sampler'."


def check_sampler(tmp):
    spec = {"a": [1, 2, 3, 4], "b": lambda: int(np.random.randint(100))}
    f1 = os.path.join(tmp, "direct.pkl")
    f2 = os.path.join(tmp, "crop.pkl")
    s1 = Sampler(make_scalar_runner(), data_name=f1, default_combos=spec)
    s2 = Sampler(make_scalar_runner(), data_name=f2, default_combos=spec)

    for i, n in enumerate([5, 3]):
        np.random.seed(42 + i)
        d = s1.sample_combos(n, verbosity=0)
        np.random.seed(42 + i)
        crop = s2.Crop(name="s{}".format(i), parent_dir=tmp, batchsize=2)
        crop.sow_samples(n, verbosity=0)
        crop.grow_missing(verbosity=0)
        out = crop.reap()
        df_same(out, d)
        assert s2.last_df is out
        assert s2.runner._last_df is out
        assert not os.path.exists(crop.location)
        df_same(xyzpy.load_df(f2), xyzpy.load_df(f1))
        df_same(s2.full_df, s1.full_df)
    assert len(s2.full_df) == 8

    # sync=False: nothing recorded on the sampler, nothing written
    before = xyzpy.load_df(f2)
    np.random.seed(1)
    crop = s2.Crop(name="snosync", parent_dir=tmp)
    crop.sow_samples(2, combos={"a": [9]}, verbosity=0)
    crop.grow_missing(verbosity=0)
    last = s2.last_df
    out = crop.reap(sync=False, clean_up=False)
    assert s2.last_df is last and s2.runner._last_df is out
    assert list(out["a"]) == [9, 9]
    df_same(xyzpy.load_df(f2), before)
    assert os.path.isdir(crop.location)
    out = crop.reap_samples(s2, allow_incomplete=True)
    assert os.path.isdir(crop.location)  # incomplete allowed -> kept
    assert len(xyzpy.load_df(f2)) == 10
    crop.delete_all()


CHILD = r"""
import os, sys, pickle
sys.path.insert(0, os.getcwd())
import warnings
warnings.simplefilter("ignore")
import xyzpy
from xyzpy.gen.cropping import Crop
mode, name, parent, out = sys.argv[1:5]
crop = Crop(name=name, parent_dir=parent)
assert crop.farmer is not None and crop.farmer.fn is crop.fn
if mode == "grow":
    crop.grow_missing(verbosity=0)
else:
    res = crop.reap()
    farmer = crop.farmer
    runner = crop.runner
    last = runner._last_df if hasattr(runner, "_last_df") else runner._last_ds
    assert last is res
    with open(out, "wb") as f:
        pickle.dump((type(farmer).__name__, res), f)
"""


def child(mode, name, parent, out):
    subprocess.run(
        [sys.executable, "-c", CHILD, mode, name, parent, out],
        check=True,
        cwd=os.getcwd(),
        stderr=subprocess.DEVNULL,
    )


def check_other_process(tmp):
    out = os.path.join(tmp, "child.pkl")

    # Runner
    direct = make_runner().run_combos(COMBOS, constants={"c": 4}, verbosity=0)
    crop = make_runner().Crop(name="p1", parent_dir=tmp, num_batches=2)
    crop.sow_combos(COMBOS, constants={"c": 4}, verbosity=0)
    child("grow", "p1", tmp, out)
    child("reap", "p1", tmp, out)
    with open(out, "rb") as f:
        kind, res = pickle.load(f)
    assert kind == "Runner"
    ds_same(res, direct)
    assert not os.path.exists(crop.location)

    # Harvester: grow here through a reloaded crop, reap in the child
    f1 = os.path.join(tmp, "pd.h5")
    f2 = os.path.join(tmp, "pc.h5")
    h1 = Harvester(make_runner(), data_name=f1)
    h1.harvest_combos({"a": [1], "b": [1, 2]}, verbosity=0)
    h1.harvest_combos(COMBOS, verbosity=0)
    h1._full_ds.close()
    h2 = Harvester(make_runner(), data_name=f2)
    h2.harvest_combos({"a": [1], "b": [1, 2]}, verbosity=0)
    h2._full_ds.close()
    crop = h2.Crop(name="p2", parent_dir=tmp, batchsize=4)
    crop.sow_combos(COMBOS, verbosity=0)
    reloaded = Crop(name="p2", parent_dir=tmp)
    assert isinstance(reloaded.farmer, Harvester)
    assert reloaded.farmer is not h2 and reloaded.farmer.fn is reloaded.fn
    reloaded.grow_missing(verbosity=0)
    child("reap", "p2", tmp, out)
    with open(out, "rb") as f:
        kind, res = pickle.load(f)
    assert kind == "Harvester"
    ds_same(res, h1.last_ds)
    a, b = xyzpy.load_ds(f2), xyzpy.load_ds(f1)
    ds_same(a, b)
    a.close()
    b.close()

    # Sampler
    spec = {"a": [1, 2, 3], "b": [4, 5, 6]}
    f1 = os.path.join(tmp, "pd.pkl")
    f2 = os.path.join(tmp, "pc.pkl")
    np.random.seed(3)
    d = Sampler(make_scalar_runner(), f1, spec).sample_combos(4, verbosity=0)
    np.random.seed(3)
    crop = Sampler(make_scalar_runner(), f2, spec).Crop(name="p3", parent_dir=tmp)
    crop.sow_samples(4, verbosity=0)
    child("grow", "p3", tmp, out)
    child("reap", "p3", tmp, out)
    with open(out, "rb") as f:
        kind, res = pickle.load(f)
    assert kind == "Sampler"
    df_same(res, d)
    df_same(xyzpy.load_df(f2), xyzpy.load_df(f1))


def main():
    cwd_before = sorted(os.listdir("."))
    tmp = tempfile.mkdtemp(prefix="c06-t1-")
    try:
        check_runner(os.path.join(tmp))
        check_harvester(tmp)
        check_sampler(tmp)
        check_other_process(tmp)
    finally:
        shutil.rmtree(tmp, ignore_errors=True)
    assert sorted(os.listdir(".")) == cwd_before
    print("PASS")


if __name__ == "__main__":
    main()
