"""Demo for property C05: the harvested dataset is the faithful merge of
everything ever harvested (Harvester.add_ds / save_full_ds / load_full_ds /
expand_dims / drop_sel / harvest_combos / harvest_cases, save_merge_ds).

Run as:  cd <worktree> && /venv/bin/python /path/to/demo.py
"""
import os
import sys

sys.path.insert(0, os.getcwd())

import functools
import hashlib
import itertools
import random
import shutil
import tempfile
import warnings

import numpy as np
import xarray as xr

import xyzpy
from xyzpy import Runner, Harvester, load_ds, save_ds, save_merge_ds
from xyzpy.manage import auto_add_extension
from xyzpy.utils import XYZError

warnings.filterwarnings('ignore')

EXT = {'h5netcdf': '.h5', 'joblib': '.dmp'}
VERSION = [0]
NCHECKS = [0]


def fn(a, b):
    return float(1000 * VERSION[0] + 10 * a + b)


def check(cond, msg):
    NCHECKS[0] += 1
    if not cond:
        raise AssertionError(msg)


def file_digest(path):
    if not os.path.exists(path):
        return None
    with open(path, 'rb') as f:
        return hashlib.sha256(f.read()).hexdigest()


def ds_points(ds, var='out'):
    """All non-nan points of a dataset as a dict {(a, b): value}."""
    if ds is None or var not in ds:
        return {}
    da = ds[var].transpose('a', 'b')
    pts = {}
    for i, a in enumerate(da.coords['a'].values):
        for j, b in enumerate(da.coords['b'].values):
            v = float(da.values[i, j])
            if not np.isnan(v):
                pts[(int(a), int(b))] = v
    return pts


def new_points_grid(as_, bs):
    return {(a, b): fn(a, b) for a in as_ for b in bs}


def new_points_cases(cases):
    return {(a, b): fn(a, b) for a, b in cases}


def merge_model(old, new, overwrite):
    """Reference model of the overwrite policy on point dictionaries.
    Returns the merged dict or raises ValueError on conflict.
    """
    out = dict(old)
    for k, v in new.items():
        if k in old and old[k] != v:
            if overwrite is True:
                out[k] = v
            elif overwrite is False:
                pass
            else:
                raise ValueError('conflict')
        else:
            out[k] = v
    return out


# --------------------------------------------------------------------------- #
#  1. random sequences of harvests checked against the reference model        #
# --------------------------------------------------------------------------- #

def make_runner():
    r = Runner(fn, var_names='out')
    for meth in ('run_combos', 'run_cases'):
        setattr(r, meth, functools.partial(getattr(r, meth), verbosity=0))
    return r


def make_harvester(data_name, engine, how):
    r = make_runner()
    if how == 0:
        return Harvester(r, data_name=data_name, engine=engine)
    if how == 1 and engine == 'h5netcdf':
        # engine=None means default engine
        return Harvester(r, data_name=data_name, engine=None)
    return Harvester(r, data_name, None, engine)


def run_sequence(seed, tmpdir):
    rng = random.Random(seed)
    engine = rng.choice(['h5netcdf', 'joblib'])
    with_ext = rng.random() < 0.5
    base = os.path.join(tmpdir, 'seq{}'.format(seed))
    data_name = base + EXT[engine] if with_ext else base
    file_name = base + EXT[engine]
    check(auto_add_extension(data_name, engine) == file_name, 'file name')

    h = make_harvester(data_name, engine, rng.randrange(3))
    mem = None    # model of in-memory full_ds (None: nothing yet)
    disk = None   # model of the on-disk dataset (None: no file)
    dropped_a = set()

    for step in range(rng.randint(1, 8)):
        # maybe a new session
        if rng.random() < 0.3:
            h = make_harvester(data_name, engine, rng.randrange(3))
            # nothing is loaded until a sync (or a ``full_ds`` access)
            mem = None
            check(h._full_ds is None, 'fresh harvester is lazy')

        VERSION[0] = rng.choice([0, 0, 0, 1, 2])
        overwrite = rng.choice([None, None, True, False])
        sync = rng.random() < 0.8
        op = rng.choice(['combos', 'combos', 'cases', 'cases', 'add_ds',
                         'add_da', 'drop_sel'])
        before_disk = file_digest(file_name)

        if op == 'drop_sel':
            present = sorted({a for a, _ in
                              ((mem or {}) if disk is None else disk)})
            if not present:
                continue
            target = rng.choice(present)
            # drop_sel always reloads from disk then saves
            if disk is not None:
                mem = dict(disk)
            h.drop_sel(a=[target])
            mem = {k: v for k, v in mem.items() if k[0] != target}
            disk = dict(mem)
            check(target not in h.full_ds.coords['a'].values, 'coord dropped')
        else:
            if op == 'cases':
                cases = rng.sample(
                    list(itertools.product(range(4), range(3))),
                    rng.randint(1, 5))
                new = new_points_cases(cases)
            else:
                as_ = sorted(rng.sample(range(4), rng.randint(1, 3)))
                bs = sorted(rng.sample(range(3), rng.randint(1, 3)))
                new = new_points_grid(as_, bs)

            # expected outcome
            start = dict(disk) if (sync and disk is not None) \
                else dict(mem or {})
            try:
                expect = merge_model(start, new, overwrite)
                conflict = False
            except ValueError:
                expect = start
                conflict = True

            kws = dict(sync=sync, overwrite=overwrite)
            try:
                if op == 'combos':
                    h.harvest_combos({'a': as_, 'b': bs}, **kws)
                elif op == 'cases':
                    if rng.random() < 0.5:
                        h.harvest_cases([{'a': a, 'b': b} for a, b in cases],
                                        **kws)
                    else:
                        h.harvest_cases(cases, **kws)
                else:
                    ds = h.runner.run_combos({'a': as_, 'b': bs})
                    if op == 'add_da':
                        ds = ds['out']
                    h.add_ds(ds, **kws)
                raised = False
            except xr.MergeError:
                raised = True

            check(raised == conflict,
                  'seed {} step {}: raised={} conflict={}'.format(
                      seed, step, raised, conflict))
            if conflict:
                check(file_digest(file_name) == before_disk,
                      'disk untouched by failed merge')
            mem = expect
            if sync and not conflict:
                disk = dict(expect)
            if not sync:
                check(file_digest(file_name) == before_disk,
                      'disk untouched when sync=False')

        # --- compare with the library state
        got_mem = ds_points(h._full_ds)
        check(got_mem == (mem or {}), 'seed {} step {} op {}: memory {} != {}'.format(
            seed, step, op, got_mem, mem))
        if disk is None:
            check(not os.path.exists(file_name), 'no file expected')
        else:
            on_disk = load_ds(file_name, engine=engine)
            check(ds_points(on_disk) == disk,
                  'seed {} step {}: disk mismatch'.format(seed, step))
            if sync or op == 'drop_sel':
                check(on_disk.identical(h.full_ds) or
                      on_disk.equals(h.full_ds), 'memory == disk')
            on_disk.close()
        check(not os.path.exists(file_name + '.tmp'), 'no temp file left')
        others = [f for f in os.listdir(tmpdir)
                  if f.startswith('seq{}'.format(seed)) and
                  os.path.join(tmpdir, f) != file_name]
        check(others == [], 'unexpected files {}'.format(others))

    # a final fresh session sees exactly what is on disk
    h2 = make_harvester(data_name, engine, 0)
    if disk is None:
        check(h2.full_ds is None, 'nothing on disk -> full_ds None')
        check((h._full_ds is None) == (mem is None), 'memory emptiness')
    else:
        check(ds_points(h2.full_ds) == disk, 'fresh session sees disk')


# --------------------------------------------------------------------------- #
#  2. deterministic edge cases                                                #
# --------------------------------------------------------------------------- #

def edge_cases(tmpdir):
    VERSION[0] = 0

    # -- memory-only harvester (no data name)
    h = Harvester(make_runner())
    h.harvest_combos({'a': [0, 1], 'b': [0, 1]})
    check(ds_points(h.full_ds) == new_points_grid([0, 1], [0, 1]), 'mem only')
    check(h.last_ds is not h.full_ds, 'full_ds is a copy of last_ds')
    h.last_ds['out'].values[0, 0] = -1.0
    check(h.full_ds['out'].values[0, 0] == 0.0, 'deep copy of first dataset')
    h.harvest_cases([(2, 2)], sync=True)
    check(ds_points(h.full_ds)[(2, 2)] == 22.0, 'cases merged in memory')
    h.drop_sel(a=[2])
    check(list(h.full_ds.coords['a'].values) == [0, 1], 'drop_sel in memory')
    h.drop_sel(a=[17], errors='ignore')
    try:
        h.drop_sel(a=[17])
        check(False, 'drop_sel should raise')
    except KeyError:
        pass
    h.expand_dims('c', 7)
    check(h.full_ds['out'].dims[0] == 'c' and
          list(h.full_ds.coords['c'].values) == [7], 'expand_dims in memory')
    try:
        h.save_full_ds()
        check(False, 'expected XYZError')
    except XYZError:
        pass
    check(os.listdir(tmpdir) == [], 'memory only harvester wrote nothing')

    # -- conflicting harvest leaves memory and disk unchanged
    for engine in ('h5netcdf', 'joblib'):
        name = os.path.join(tmpdir, 'edge_' + engine)
        fname = name + EXT[engine]
        VERSION[0] = 0
        h = Harvester(make_runner(), name, engine=engine)
        h.harvest_combos({'a': [0, 1], 'b': [0, 1]})
        before_bytes = file_digest(fname)
        before_mem = h.full_ds.copy(deep=True)
        VERSION[0] = 1
        for sync in (True, False):
            try:
                h.harvest_combos({'a': [1, 2], 'b': [1, 2]}, sync=sync)
                check(False, 'expected MergeError')
            except xr.MergeError:
                pass
            check(file_digest(fname) == before_bytes, 'disk unchanged')
            check(h.full_ds.identical(before_mem), 'memory unchanged')
        # overwrite=False keeps old, adds new
        h.harvest_combos({'a': [1, 2], 'b': [1, 2]}, overwrite=False)
        pts = ds_points(h.full_ds)
        check(pts[(1, 1)] == 11.0 and pts[(2, 2)] == 1022.0, 'keep old')
        check((2, 0) not in pts and pts[(0, 0)] == 0.0, 'nothing else changed')
        # overwrite=True keeps new
        VERSION[0] = 2
        h.harvest_cases([(1, 1), (0, 2)], overwrite=True)
        pts = ds_points(h.full_ds)
        check(pts[(1, 1)] == 2011.0 and pts[(0, 2)] == 2002.0, 'keep new')
        check(pts[(2, 2)] == 1022.0 and pts[(0, 1)] == 1.0, 'old data kept')
        check(ds_points(load_ds(fname, engine=engine)) == pts, 'disk == mem')
        # values 0 / 1 for overwrite are *not* the False / True policies
        VERSION[0] = 0
        for ow in (1, 0, 'yes'):
            try:
                h.harvest_cases([(1, 1)], overwrite=ow)
                check(False, 'expected MergeError for overwrite=%r' % (ow,))
            except xr.MergeError:
                pass

        # two live harvesters on the same file: neither loses the other's data
        VERSION[0] = 0
        h_a = Harvester(make_runner(), name, engine=engine)
        h_b = Harvester(make_runner(), fname, engine=engine)
        h_a.harvest_combos({'a': [5], 'b': [0]})
        h_b.harvest_combos({'a': [6], 'b': [0]})
        h_a.harvest_combos({'a': [7], 'b': [0]})
        for hh in (h_a, Harvester(make_runner(), name,
                                  engine=engine)):
            p2 = ds_points(hh.full_ds)
            check(all(p2[(a, 0)] == 10.0 * a for a in (5, 6, 7)), 'interleave')
            check(p2[(1, 1)] == 2011.0, 'old data still there')
        # expand_dims / drop_sel reload the file first
        h_b.harvest_combos({'a': [8], 'b': [0]})
        h_a.drop_sel(a=[5])
        p3 = ds_points(h_a.full_ds)
        check((5, 0) not in p3 and p3[(8, 0)] == 80.0, 'drop_sel reloaded')
        h_b.harvest_combos({'a': [9], 'b': [0]})
        h_a.expand_dims('c', 3)
        check('c' in h_a.full_ds['out'].dims, 'expanded')
        on_disk = load_ds(fname, engine=engine)
        check(on_disk.identical(h_a.full_ds) or on_disk.equals(h_a.full_ds),
              'expand_dims synced')
        check(ds_points(on_disk.isel(c=0))[(9, 0)] == 90.0,
              'expand_dims reloaded')
        check(not os.path.exists(fname + '.tmp'), 'no tmp left')

    # -- engine given per call rather than per harvester
    VERSION[0] = 0
    name = os.path.join(tmpdir, 'percall')
    h = Harvester(make_runner(), name)
    h.harvest_combos({'a': [0], 'b': [0, 1]}, engine='joblib')
    check(os.path.exists(name + '.dmp') and not os.path.exists(name + '.h5'),
          'per call engine picks the file')
    h.harvest_combos({'a': [1], 'b': [0, 1]}, engine='joblib')
    check(ds_points(load_ds(name, engine='joblib')) ==
          new_points_grid([0, 1], [0, 1]), 'per call engine merged')
    h.drop_sel(a=[0], engine='joblib')
    check(ds_points(load_ds(name + '.dmp', engine='joblib')) ==
          new_points_grid([1], [0, 1]), 'per call engine drop_sel')
    h.expand_dims('c', 1, engine='joblib')
    check(not os.path.exists(name + '.h5'), 'still only the joblib file')
    check('c' in load_ds(name, engine='joblib').dims, 'expanded on disk')

    # -- harvest_combos with ... takes the coordinate from the full dataset
    name = os.path.join(tmpdir, 'ellipsis.h5')
    h = Harvester(make_runner(), name)
    h.harvest_combos({'a': [0, 1, 2], 'b': [0]})
    h = Harvester(make_runner(), name)
    h.harvest_combos((('a', ...), ('b', [1, 2])))
    check(ds_points(h.full_ds) == new_points_grid([0, 1, 2], [0, 1, 2]),
          'ellipsis combos')
    h.harvest_combos({'b': ..., 'a': [3]}, sync=False)
    check(ds_points(h.full_ds) == new_points_grid([0, 1, 2, 3], [0, 1, 2]),
          'ellipsis combos no sync')
    check(ds_points(load_ds(name)) == new_points_grid([0, 1, 2], [0, 1, 2]),
          'not synced')
    h.save_full_ds()
    check(ds_points(load_ds(name)) == new_points_grid([0, 1, 2, 3], [0, 1, 2]),
          'explicit save_full_ds')
    # both coordinates from the dataset: recomputes everything, no conflicts
    calls = []
    h.runner.fn = lambda a, b: calls.append((a, b)) or fn(a, b)
    h.harvest_combos({'a': ..., 'b': ...})
    check(sorted(calls) == sorted(new_points_grid(range(4), range(3))),
          'ellipsis for every coordinate')
    check(ds_points(load_ds(name)) == new_points_grid([0, 1, 2, 3], [0, 1, 2]),
          'unchanged by identical re-harvest')
    # ... with nothing harvested yet, or an unknown coordinate, is an error
    # raised before anything runs or is written
    del calls[:]
    before = file_digest(name)
    try:
        h.harvest_combos({'a': [0], 'z': ...})
        check(False, 'expected KeyError')
    except KeyError:
        pass
    h_empty = Harvester(make_runner(), os.path.join(tmpdir, 'nothing_yet'))
    try:
        h_empty.harvest_combos({'a': ..., 'b': [0]})
        check(False, 'expected AttributeError')
    except AttributeError:
        pass
    try:
        h.harvest_combos({'a': [0, 0], 'b': ...})
        check(False, 'expected duplicate error')
    except XYZError:
        pass
    check(calls == [] and file_digest(name) == before and
          not os.path.exists(os.path.join(tmpdir, 'nothing_yet.h5')),
          'failed harvests have no effect')
    # no ellipsis -> the file is not even looked at before running
    h_lazy = Harvester(make_runner(), name)
    seen = []
    h_lazy.runner.fn = lambda a, b: seen.append(h_lazy._full_ds) or fn(a, b)
    h_lazy.harvest_combos({'a': [0], 'b': [0]})
    check(seen == [None], 'full_ds not loaded before running without ...')
    check(ds_points(h_lazy.full_ds) ==
          new_points_grid([0, 1, 2, 3], [0, 1, 2]), 'then merged')

    # -- dask chunks
    name = os.path.join(tmpdir, 'chunked')
    h = Harvester(make_runner(), name, chunks=1)
    h.harvest_combos({'a': [0, 1], 'b': [0, 1]})
    h.harvest_combos({'a': [2], 'b': [0, 1]}, chunks={'a': 1})
    h2 = Harvester(make_runner(), name)
    check(ds_points(h2.full_ds) == new_points_grid([0, 1, 2], [0, 1]),
          'chunked harvest')
    h.full_ds.close()

    # -- unwritable file
    name = os.path.join(tmpdir, 'readonly.h5')
    h = Harvester(make_runner(), name)
    h.harvest_combos({'a': [0], 'b': [0]})
    real_access = os.access
    try:
        os.access = lambda p, mode: False if p == name else real_access(p, mode)
        h3 = Harvester(make_runner(), name)
        before = file_digest(name)
        for call in (lambda: h3.full_ds,
                     lambda: h3.harvest_combos({'a': [1], 'b': [0]}),
                     lambda: h3.drop_sel(a=[0]),
                     lambda: h3.expand_dims('c', 1)):
            try:
                call()
                check(False, 'expected OSError')
            except OSError as e:
                check(name in str(e), 'message names the file')
        check(file_digest(name) == before, 'read only file untouched')
    finally:
        os.access = real_access
    # missing file: nothing loaded, no error
    h4 = Harvester(make_runner(),
                   os.path.join(tmpdir, 'missing'))
    h4.load_full_ds()
    check(h4.full_ds is None, 'missing file -> None')

    # -- delete_ds then harvest again starts afresh on disk
    name = os.path.join(tmpdir, 'deleted')
    h = Harvester(make_runner(), name, engine='joblib')
    h.harvest_combos({'a': [0], 'b': [0]})
    h.delete_ds()
    check(not os.path.exists(name + '.dmp'), 'deleted')


# --------------------------------------------------------------------------- #
#  3. save_merge_ds                                                           #
# --------------------------------------------------------------------------- #

def save_merge_sequences(tmpdir):
    r = make_runner()
    for seed in range(12):
        rng = random.Random(1000 + seed)
        engine = rng.choice(['h5netcdf', 'joblib'])
        base = os.path.join(tmpdir, 'sm{}'.format(seed))
        fname = base + (EXT[engine] if rng.random() < 0.5 else '')
        target = base + EXT[engine]
        disk = {}
        for step in range(rng.randint(1, 6)):
            VERSION[0] = rng.choice([0, 0, 1])
            overwrite = rng.choice([None, None, True, False])
            as_ = sorted(rng.sample(range(4), rng.randint(1, 3)))
            bs = sorted(rng.sample(range(3), rng.randint(1, 3)))
            ds = r.run_combos({'a': as_, 'b': bs})
            new = new_points_grid(as_, bs)
            before = file_digest(target)
            try:
                expect = merge_model(disk, new, overwrite)
                conflict = False
            except ValueError:
                expect, conflict = disk, True
            kwargs = {} if (engine == 'h5netcdf' and rng.random() < 0.5) \
                else {'engine': engine}
            try:
                save_merge_ds(ds, fname, overwrite=overwrite, **kwargs)
                raised = False
            except xr.MergeError:
                raised = True
            check(raised == conflict, 'save_merge_ds conflict detection')
            if conflict:
                check(file_digest(target) == before, 'file unchanged')
            disk = expect
            if disk:
                check(ds_points(load_ds(target, engine=engine)) == disk,
                      'save_merge_ds seed {} step {}'.format(seed, step))
            check(sorted(f for f in os.listdir(tmpdir)
                         if f.startswith('sm{}.'.format(seed))) ==
                  ([os.path.basename(target)] if disk else []),
                  'only the target file is written')

    # attributes True / False / None are sanitised for netcdf only
    VERSION[0] = 0
    for engine, expect in (('h5netcdf', ['None', 'True', 'False', 1, 0.0]),
                           ('joblib', [None, True, False, 1, 0.0])):
        ds = r.run_combos({'a': [0], 'b': [0]})
        ds.attrs.update(p=None, q=True, r=False, s=1, t=0.0)
        fname = os.path.join(tmpdir, 'attrs')
        save_ds(ds, fname, engine=engine)
        got = load_ds(fname, engine=engine)
        check([got.attrs[k] for k in 'pqrst'] == expect, 'attrs ' + engine)
        fname = os.path.join(tmpdir, 'attrs_merged')
        save_merge_ds(ds, fname, overwrite=True, engine=engine)
        got = load_ds(fname, engine=engine)
        check([got.attrs[k] for k in 'pqrst'] == expect, 'attrs ' + engine)
        check([type(got.attrs[k]) for k in 'pqr'] ==
              [type(v) for v in expect[:3]], 'attr types ' + engine)

    # load_ds options
    fname = os.path.join(tmpdir, 'opts.h5')
    save_ds(r.run_combos({'a': [0, 1], 'b': [0]}), fname)
    check(load_ds(fname)['out'].chunks is None, 'loaded to memory')
    lazy = load_ds(fname, chunks=1)
    check(lazy['out'].chunks is not None, 'chunked')
    lazy.close()
    try:
        load_ds(fname, load_to_mem=True, chunks=1)
        check(False, 'expected ValueError')
    except ValueError:
        pass
    for kws in (dict(load_to_mem=True), dict(load_to_mem=False)):
        d = load_ds(fname, **kws)
        check(ds_points(d) == new_points_grid([0, 1], [0]), 'load opts')
        d.close()
    check(len(load_ds(os.path.join(tmpdir, 'nope'), create_new=True)) == 0,
          'create_new')
    for bad in ('nope', 'nope.dmp'):
        try:
            load_ds(os.path.join(tmpdir, bad),
                    engine='joblib' if bad.endswith('dmp') else 'h5netcdf')
            check(False, 'expected error for missing file')
        except (OSError, FileNotFoundError):
            pass
    try:
        auto_add_extension('x', 'nonsense')
        check(False, 'expected KeyError')
    except KeyError:
        pass
    check(auto_add_extension('x.nc', 'nonsense') == 'x.nc', 'has extension')
    check(auto_add_extension('x.h5.bak', 'joblib') == 'x.h5.bak', 'contains')
    check(auto_add_extension('x', 'zarr') == 'x.zarr', 'zarr extension')
    check(auto_add_extension('x.zarr', 'h5netcdf') == 'x.zarr', 'other ext')
    check(auto_add_extension('a.dmp/x', 'h5netcdf') == 'a.dmp/x', 'in dir')
    check(auto_add_extension('', 'netcdf4') == '.nc', 'empty name')
    for bad_name in (None, 3):
        try:
            auto_add_extension(bad_name, 'h5netcdf')
            check(False, 'expected TypeError')
        except TypeError:
            pass


def main():
    check(os.path.dirname(os.path.abspath(xyzpy.__file__)) ==
          os.path.join(os.getcwd(), 'xyzpy'), 'wrong xyzpy imported')
    tmpdir = tempfile.mkdtemp(prefix='c05demo_')
    try:
        for seed in range(60):
            d = os.path.join(tmpdir, 'r{}'.format(seed))
            os.mkdir(d)
            run_sequence(seed, d)
        for sub, f in (('edge', edge_cases), ('sm', save_merge_sequences)):
            d = os.path.join(tmpdir, sub)
            os.mkdir(d)
            f(d)
    finally:
        shutil.rmtree(tmpdir, ignore_errors=True)
    print('checks:', NCHECKS[0])
    print('PASS')


if __name__ == '__main__':
    main()
