import os
import sys
import itertools
import tempfile
import warnings

sys.path.insert(0, os.getcwd())
warnings.filterwarnings("ignore")

import numpy as np
import xarray as xr

import xyzpy
import xyzpy.manage as manage
from xyzpy.manage import (
    auto_add_extension, save_ds, load_ds, save_merge_ds,
    merge_sync_conflict_datasets,
)

assert os.path.abspath(xyzpy.__file__).startswith(os.getcwd()), xyzpy.__file__

N_CHECKS = [0]


def check(cond, msg=""):
    N_CHECKS[0] += 1
    if not cond:
        import traceback
        traceback.print_stack(limit=4)
        print("FAIL:", msg)
        sys.exit(1)


EXT = {'h5netcdf': '.h5', 'netcdf4': '.nc', 'joblib': '.dmp', 'zarr': '.zarr'}

ENGINES = ['h5netcdf', 'joblib']
for _mod, _eng in [('netCDF4', 'netcdf4'), ('zarr', 'zarr')]:
    try:
        __import__(_mod)
        ENGINES.append(_eng)
    except ImportError:
        pass


# ------------------------------ dataset makers ----------------------------- #

def make_ds(ndim, seed, nan_pattern='some', attrs=None):
    """A dataset with ``ndim`` dimensions, int/float/complex/bool/str
    variables and int/float/str coordinates."""
    rng = np.random.RandomState(seed)
    dim_names = ['a', 'b', 'c', 'd'][:ndim]
    sizes = [3, 2, 4, 2][:ndim]
    coords = {}
    if ndim > 0:
        coords['a'] = np.arange(10, 10 + sizes[0])                  # int
    if ndim > 1:
        coords['b'] = ['l{}'.format(i) for i in range(sizes[1])]      # str
    if ndim > 2:
        coords['c'] = np.linspace(-1.5, 2.5, sizes[2])               # float
    if ndim > 3:
        coords['d'] = np.array([True, False][:sizes[3]]).astype(int)
    shape = tuple(sizes)

    f = rng.randn(*shape)
    z = rng.randn(*shape) + 1.0j * rng.randn(*shape)
    if nan_pattern == 'some' and ndim > 0:
        f = np.where(rng.rand(*shape) < 0.4, np.nan, f)
        z = np.where(rng.rand(*shape) < 0.4, np.nan + 0.0j, z)
    elif nan_pattern == 'all':
        f = np.full(shape, np.nan)
        z = np.full(shape, np.nan + 1.0j * np.nan)
    elif nan_pattern == 'some' and ndim == 0:
        f = np.array(np.nan)

    data_vars = {
        'vint': (dim_names, rng.randint(-5, 5, size=shape)),
        'vfloat': (dim_names, f),
        'vcplx': (dim_names, z),
        'vbool': (dim_names, rng.rand(*shape) < 0.5),
        'vstr': (dim_names, np.asarray(rng.choice(['foo', 'ba', 'quux'],
                                                  size=shape), dtype=str)),
    }
    if ndim > 1:
        # a variable that lives on only some of the dimensions
        data_vars['vpart'] = (dim_names[:1], rng.randn(sizes[0]))
    return xr.Dataset(coords=coords, data_vars=data_vars,
                      attrs=dict(attrs or {}))


ATTR_SETS = [
    {},
    {'foo': 'bar'},
    {'n': None, 't': True, 'f': False},
    {'n': None, 't': True, 'f': False, 'one': 1, 'zero': 0, 'x': 2.5,
     's': 'None', 'arr': np.array([1.0, 2.0, 3.0]), 'fone': 1.0},
]


def expected_attrs(attrs, engine):
    """The documented rewriting of None/True/False for netcdf engines."""
    if engine in ('joblib', 'zarr'):
        return dict(attrs)
    out = {}
    for k, v in attrs.items():
        if v is None:
            out[k] = "None"
        elif v is True:
            out[k] = "True"
        elif v is False:
            out[k] = "False"
        else:
            out[k] = v
    return out


def attrs_equal(got, exp):
    if list(got.keys()) != list(exp.keys()):
        return False
    for k in exp:
        g, e = got[k], exp[k]
        if isinstance(e, (np.ndarray, list, tuple)):
            if not np.array_equal(np.asarray(g), np.asarray(e)):
                return False
        elif isinstance(e, str) or e is None or isinstance(e, bool):
            if type(g) is not type(e) or g != e:
                return False
        else:
            # numbers may come back as numpy scalars
            if isinstance(g, (str, bool)) or g is None or g != e:
                return False
    return True


def same_dataset(got, ref, ref_attrs):
    """Same dims, coords, variables, values (NaN aware) and attributes."""
    if dict(got.sizes) != dict(ref.sizes):
        return "sizes {} != {}".format(dict(got.sizes), dict(ref.sizes))
    if set(got.coords) != set(ref.coords):
        return "coords differ"
    if set(got.data_vars) != set(ref.data_vars):
        return "data_vars differ"
    for name in ref.variables:
        g, r = got[name], ref[name]
        if g.dims != r.dims:
            return "dims of {} differ".format(name)
        gv, rv = np.asarray(g.values), np.asarray(r.values)
        if gv.shape != rv.shape:
            return "shape of {} differs".format(name)
        if rv.dtype.kind in 'fc':
            if gv.dtype != rv.dtype:
                return "dtype of {}: {} != {}".format(name, gv.dtype, rv.dtype)
            if not np.array_equal(gv, rv, equal_nan=True):
                return "values of {} differ".format(name)
            if not np.array_equal(np.isnan(gv), np.isnan(rv)):
                return "NaN pattern of {} differs".format(name)
        elif rv.dtype.kind in 'US':
            if not np.array_equal(gv.astype(str), rv.astype(str)):
                return "str values of {} differ".format(name)
        else:
            if gv.dtype != rv.dtype:
                return "dtype of {}: {} != {}".format(name, gv.dtype, rv.dtype)
            if not np.array_equal(gv, rv):
                return "values of {} differ".format(name)
    if not attrs_equal(got.attrs, ref_attrs):
        return "attrs {} != {}".format(got.attrs, ref_attrs)
    if not got.equals(ref):
        return "xarray .equals() is False"
    return None


def listdir(d):
    return sorted(os.listdir(d))


# ----------------------- 1. the file name convention ----------------------- #

def section_file_names():
    table = [
        ('data', 'h5netcdf', 'data.h5'),
        ('data', 'netcdf4', 'data.nc'),
        ('data', 'joblib', 'data.dmp'),
        ('data', 'zarr', 'data.zarr'),
        ('data.h5', 'h5netcdf', 'data.h5'),
        ('data.h5', 'joblib', 'data.h5'),
        ('data.nc', 'h5netcdf', 'data.nc'),
        ('data.dmp', 'zarr', 'data.dmp'),
        ('data.zarr', 'netcdf4', 'data.zarr'),
        ('data.txt', 'h5netcdf', 'data.txt.h5'),
        ('data.h', 'h5netcdf', 'data.h.h5'),
        ('data.H5', 'h5netcdf', 'data.H5.h5'),
        ('data.h5.bak', 'joblib', 'data.h5.bak'),
        ('dir.nc/data', 'joblib', 'dir.nc/data'),
        ('', 'joblib', '.dmp'),
        ('.h5', 'zarr', '.h5'),
        ('a.dmpb.ncc', 'h5netcdf', 'a.dmpb.ncc'),
        ('run_*', 'h5netcdf', 'run_*.h5'),
        ('data.h5', 'not-an-engine', 'data.h5'),
    ]
    for name, engine, exp in table:
        got = auto_add_extension(name, engine)
        check(got == exp, "auto_add_extension({!r}, {!r}) = {!r} != {!r}"
              .format(name, engine, got, exp))
        check(type(got) is str)
        # idempotent when the engine is known
        if engine in EXT:
            check(auto_add_extension(got, engine) == got, "not idempotent")
    for bad in ['not-an-engine', None, 'H5NETCDF']:
        try:
            auto_add_extension('data', bad)
        except KeyError:
            check(True)
        else:
            check(False, "expected KeyError for engine {!r}".format(bad))
    # the table of extensions itself
    check(manage._engine_extensions == EXT, "extension table changed")


# --------------------------- 2. save / load grid --------------------------- #

def chunk_options(ds):
    opts = [None, 1, 2]
    if ds.sizes:
        first = list(ds.sizes)[0]
        opts.append({first: 1})
        opts.append({d: 2 for d in ds.sizes})
    else:
        opts.append({})
    return opts


def section_roundtrip():
    seed = 0
    nan_patterns = ['none', 'some', 'all']
    for ndim, engine in itertools.product(range(5), ENGINES):
        for i in range(6):
            seed += 1
            nanp = nan_patterns[(i + ndim) % 3]
            attrs = ATTR_SETS[(i + seed // 6) % 4]
            with_ext = bool((i + ndim) % 2)
            with tempfile.TemporaryDirectory() as tmpdir:
                base = os.path.join(tmpdir, 'roundtrip')
                name = base + (EXT[engine] if with_ext else '')
                on_disk = 'roundtrip' + EXT[engine]

                ds = make_ds(ndim, seed, nanp, attrs)
                ref = ds.copy(deep=True)
                ref.attrs = dict(attrs)
                exp_attrs = expected_attrs(attrs, engine)

                ret = save_ds(ds, name, engine=engine)
                check(ret is None, "save_ds should return None")
                check(listdir(tmpdir) == [on_disk],
                      "files on disk {} != [{}]".format(listdir(tmpdir),
                                                        on_disk))
                # the saved dataset has its attributes rewritten in place for
                # netcdf engines, untouched otherwise; data is never touched
                check(attrs_equal(ds.attrs, exp_attrs),
                      "in-place attrs {} != {}".format(ds.attrs, exp_attrs))
                err = same_dataset(ds, ref, exp_attrs)
                check(err is None, "saving modified the dataset: {}".format(err))

                # load with either form of the name
                for lname in (base, base + EXT[engine]):
                    got = load_ds(lname, engine=engine)
                    err = same_dataset(got, ref, exp_attrs)
                    check(err is None, "ndim={} engine={} nan={} attrs={} "
                          "name={}: {}".format(ndim, engine, nanp, attrs,
                                               lname, err))
                    if engine != 'joblib':
                        check(all(v._in_memory
                                  for v in got.variables.values()),
                              "default load should be in memory")

                # lazy loading
                mem = load_ds(base, engine=engine)
                copts = chunk_options(ref)
                copts = [None] + [copts[(seed + j) % len(copts)]
                                  for j in (0, 2)]
                for chunks in copts:
                    got = load_ds(base, engine=engine, chunks=chunks)
                    try:
                        if engine != 'joblib' and chunks is not None:
                            lazy = [k for k, v in got.data_vars.items()
                                    if v.chunks is not None]
                            check(len(lazy) == len(got.data_vars) or
                                  not ref.sizes or chunks == {},
                                  "chunks={} did not give dask arrays"
                                  .format(chunks))
                        computed = got.compute()
                        err = same_dataset(computed, ref, exp_attrs)
                        check(err is None, "chunks={} ndim={} engine={}: {}"
                              .format(chunks, ndim, engine, err))
                        check(computed.identical(mem),
                              "lazy != in-memory for chunks={}".format(chunks))
                    finally:
                        got.close()

                # saving what was loaded gives the same thing again
                again = load_ds(base, engine=engine)
                save_ds(again, os.path.join(tmpdir, 'second'), engine=engine)
                check(listdir(tmpdir) == [on_disk, 'second' + EXT[engine]],
                      "second save: {}".format(listdir(tmpdir)))
                got = load_ds(os.path.join(tmpdir, 'second'), engine=engine)
                err = same_dataset(got, ref, exp_attrs)
                check(err is None, "second roundtrip: {}".format(err))


# ----------------------- 3. load_ds options and errors --------------------- #

def section_load_options():
    ds = make_ds(2, 99, 'some', {'n': None, 'k': 3})
    for engine in ENGINES:
        with tempfile.TemporaryDirectory() as tmpdir:
            name = os.path.join(tmpdir, 'opts')
            ref = ds.copy(deep=True)
            ref.attrs = dict(ds.attrs)
            exp_attrs = expected_attrs(ref.attrs, engine)

            # nothing on disk yet
            for create_new_name in (name, name + EXT[engine]):
                blank = load_ds(create_new_name, engine=engine,
                                create_new=True)
                check(isinstance(blank, xr.Dataset) and
                      blank.identical(xr.Dataset()), "create_new not blank")
            check(listdir(tmpdir) == [], "create_new wrote a file")
            try:
                load_ds(name, engine=engine)
            except (OSError, IOError, ValueError):
                check(True)
            else:
                check(False, "loading missing file should raise")
            try:
                load_ds(name, engine=engine, create_new=False, chunks=1)
            except (OSError, IOError, ValueError):
                check(True)
            else:
                check(False, "loading missing file should raise")

            save_ds(ds.copy(deep=True), name, engine=engine)
            check(listdir(tmpdir) == ['opts' + EXT[engine]])

            # create_new is irrelevant when the file is there
            got = load_ds(name, engine=engine, create_new=True)
            check(same_dataset(got, ref, exp_attrs) is None, "create_new+file")

            if engine == 'joblib':
                # options other than the name are ignored by joblib
                for ltm, chunks in itertools.product(
                        [None, True, False], [None, 1, {'a': 1}]):
                    got = load_ds(name, engine=engine, load_to_mem=ltm,
                                  chunks=chunks)
                    check(same_dataset(got, ref, exp_attrs) is None)
                got = load_ds(name, engine=engine, mmap_mode=None)
                check(same_dataset(got, ref, exp_attrs) is None)
                continue

            for ltm, chunks in itertools.product(
                    [None, True, False, 1, 0], [None, 1, {'a': 1}, {}]):
                if ltm and chunks is not None:
                    try:
                        load_ds(name, engine=engine, load_to_mem=ltm,
                                chunks=chunks)
                    except ValueError as e:
                        check("redundant" in str(e), str(e))
                    else:
                        check(False, "expected ValueError")
                    continue
                got = load_ds(name, engine=engine, load_to_mem=ltm,
                              chunks=chunks)
                try:
                    in_mem = all(v._in_memory for v in got.variables.values())
                    check(in_mem == (ltm is None and chunks is None),
                          "in-memory status for load_to_mem={}, chunks={}"
                          .format(ltm, chunks))
                    is_dask = any(v.chunks is not None
                                  for v in got.data_vars.values())
                    check(is_dask == (chunks is not None),
                          "dask status for chunks={}".format(chunks))
                    err = same_dataset(got, ref, exp_attrs)
                    check(err is None, "load_to_mem={}, chunks={}: {}"
                          .format(ltm, chunks, err))
                finally:
                    got.close()

            # extra keyword arguments reach xarray
            got = load_ds(name, engine=engine, drop_variables=['vstr'])
            check('vstr' not in got and 'vint' in got, "kwargs not passed on")
            got = load_ds(name, engine=engine, chunks=1,
                          drop_variables=['vint'])
            check('vint' not in got and 'vstr' in got, "kwargs not passed on")
            got.close()

    # extra keyword arguments reach the writers
    with tempfile.TemporaryDirectory() as tmpdir:
        name = os.path.join(tmpdir, 'kw')
        small = xr.Dataset({'v': ('a', np.arange(4.0))}, {'a': np.arange(4)},
                           attrs={'t': True})
        save_ds(small, name, engine='h5netcdf',
                encoding={'v': {'dtype': 'float32'}})
        got = load_ds(name)
        check(got['v'].dtype == np.float32, "to_netcdf kwargs not passed on")
        check(got.attrs == {'t': 'True'})
        small2 = xr.Dataset({'v': ('a', np.arange(4.0) + 1j)},
                            attrs={'t': True})
        save_ds(small2, name + '2', engine='h5netcdf', invalid_netcdf=True)
        check(load_ds(name + '2')['v'].dtype == np.complex128)
        check(small2.attrs == {'t': 'True'}, "attrs are rewritten in place")
        small3 = xr.Dataset({'v': ('a', np.arange(4.0) + 1j)},
                            attrs={'t': True})
        save_ds(small3, name + '3', engine='joblib', compress=3)
        got = load_ds(name + '3', engine='joblib')
        check(got.attrs == {'t': True} and got.attrs['t'] is True and
              got.identical(small3))
        check(listdir(tmpdir) == ['kw.h5', 'kw2.h5', 'kw3.dmp'],
              listdir(tmpdir))


def section_attribute_error_fallback():
    """``load_ds`` retries with netcdf4 when h5netcdf hits a particular
    AttributeError (simulated here by wrapping ``xr.open_dataset``)."""
    real_open = xr.open_dataset
    with tempfile.TemporaryDirectory() as tmpdir:
        name = os.path.join(tmpdir, 'fb')
        ds = make_ds(1, 5)
        save_ds(ds, name)

        calls = []

        def flaky(file_name, **opts):
            calls.append((file_name, dict(opts)))
            if opts.get('engine') == 'h5netcdf':
                raise AttributeError("'Foo' object has no attribute 'bar'")
            # pretend that we are the netcdf4 backend
            return real_open(file_name, **dict(opts, engine='h5netcdf'))

        def broken(file_name, **opts):
            calls.append((file_name, dict(opts)))
            raise AttributeError("something else entirely")

        def always(file_name, **opts):
            calls.append((file_name, dict(opts)))
            raise AttributeError("'Foo' object has no attribute 'bar'")

        try:
            manage.xr.open_dataset = flaky
            got = load_ds(name, chunks=None, drop_variables=['vstr'])
            check([c[1]['engine'] for c in calls] == ['h5netcdf', 'netcdf4'],
                  "fallback engines: {}".format(calls))
            check(all(c[0] == name + '.h5' for c in calls), "fallback names")
            check(all(c[1]['chunks'] is None and
                      c[1]['drop_variables'] == ['vstr'] and
                      sorted(c[1]) == ['chunks', 'drop_variables', 'engine']
                      for c in calls), "fallback options: {}".format(calls))
            check(got.identical(ds.drop_vars('vstr')), "fallback result")

            del calls[:]
            got = load_ds(name, chunks=1)
            check([c[1]['engine'] for c in calls] == ['h5netcdf', 'netcdf4'])
            check(all(c[1]['chunks'] == 1 for c in calls))
            check(got.identical(ds))
            got.close()

            # other messages are not retried
            del calls[:]
            manage.xr.open_dataset = broken
            try:
                load_ds(name)
            except AttributeError as e:
                check(str(e) == "something else entirely")
            else:
                check(False, "expected AttributeError")
            check(len(calls) == 1, "should not retry")

            # other engines are not retried
            del calls[:]
            manage.xr.open_dataset = always
            try:
                load_ds(name + '.h5', engine='netcdf4')
            except AttributeError as e:
                check("has no attribute" in str(e))
            else:
                check(False, "expected AttributeError")
            check(len(calls) == 1 and calls[0][1]['engine'] == 'netcdf4')

            # and a failure of the retry itself propagates
            del calls[:]
            try:
                load_ds(name)
            except AttributeError as e:
                check("has no attribute" in str(e))
            else:
                check(False, "expected AttributeError")
            check([c[1]['engine'] for c in calls] == ['h5netcdf', 'netcdf4'])
        finally:
            manage.xr.open_dataset = real_open
        check(xr.open_dataset is real_open)


# ------------------------- 4. merging on disk ------------------------------ #

def merge_parts():
    d1 = xr.Dataset(
        coords={'b': ['l1', 'l2', 'l4'], 'a': [1, 2, 3, 4]},
        data_vars={'x': (('b', 'a'), np.arange(12.).reshape(3, 4) * (1 + 2j)),
                   'isodd': ('a', np.asarray([True, False, True, False]))},
        attrs={'foo': 'bar', 'none': None})
    d2 = xr.Dataset(
        coords={'b': ['l3', 'l5'], 'a': [3, 4, 5]},
        data_vars={'x': (('b', 'a'), np.arange(6.).reshape(2, 3) * (3 - 1j)),
                   'isodd': ('a', np.asarray([True, False, True]))},
        attrs={'bar': 'baz'})
    d3 = xr.Dataset(
        coords={'b': ['l5'], 'a': [4]},
        data_vars={'x': (('b', 'a'), [[123. + 456.0j]]),
                   'isodd': ('a', np.asarray([True]))},
        attrs={'baz': 'qux', 'flag': True})
    return d1, d2, d3


def section_save_merge():
    for engine, with_ext in itertools.product(ENGINES, [False, True]):
        with tempfile.TemporaryDirectory() as tmpdir:
            d1, d2, d3 = merge_parts()
            base = os.path.join(tmpdir, 'merged')
            fname = base + (EXT[engine] if with_ext else '')
            on_disk = ['merged' + EXT[engine]]
            kws = {} if engine == 'h5netcdf' else {'engine': engine}
            if not with_ext:
                kws['engine'] = engine

            save_merge_ds(d1.copy(deep=True), fname, **kws)
            check(listdir(tmpdir) == on_disk, listdir(tmpdir))
            got = load_ds(base, engine=engine)
            check(got.equals(d1), "first save_merge_ds")

            save_merge_ds(d2.copy(deep=True), fname, **kws)
            check(listdir(tmpdir) == on_disk, listdir(tmpdir))
            exp12 = xr.merge([d1, d2])
            got = load_ds(base, engine=engine)
            check(got.equals(exp12), "second save_merge_ds")

            try:
                save_merge_ds(d3.copy(deep=True), fname, **kws)
            except xr.MergeError:
                check(True)
            else:
                check(False, "expected MergeError")
            check(load_ds(base, engine=engine).equals(exp12),
                  "failed merge changed the file")

            save_merge_ds(d3.copy(deep=True), fname, overwrite=False, **kws)
            got = load_ds(base, engine=engine)
            check(got.equals(exp12.combine_first(d3)), "overwrite=False")
            check(got['x'].sel(a=4, b='l5').item() == exp12['x'].sel(
                a=4, b='l5').item(), "old value should be kept")

            save_merge_ds(d3.copy(deep=True), fname, overwrite=True, **kws)
            got = load_ds(base, engine=engine)
            check(got.equals(d3.combine_first(exp12)), "overwrite=True")
            check(got['x'].sel(a=4, b='l5').item() == 123. + 456.0j)
            check(attrs_equal(got.attrs, expected_attrs(d3.attrs, engine)),
                  "save_merge attrs: {}".format(got.attrs))
            check(listdir(tmpdir) == on_disk, listdir(tmpdir))


def section_merge_sync_conflicts():
    import io
    import contextlib

    for engine, combine_first in itertools.product(ENGINES, [False, True]):
        with tempfile.TemporaryDirectory() as tmpdir:
            d1, d2, d3 = merge_parts()
            ext = EXT[engine]
            save_ds(d1.copy(deep=True), os.path.join(tmpdir, 'sync'),
                    engine=engine)
            save_ds(d2.copy(deep=True),
                    os.path.join(tmpdir, 'sync (conflict 1)'), engine=engine)
            parts = [d1, d2]
            if combine_first:
                save_ds(d3.copy(deep=True),
                        os.path.join(tmpdir, 'sync (conflict 22)' + ext),
                        engine=engine)
                parts.append(d3)
            check(len(listdir(tmpdir)) == len(parts))

            out = io.StringIO()
            with contextlib.redirect_stdout(out):
                merge_sync_conflict_datasets(
                    os.path.join(tmpdir, 'sync*' + ext), engine=engine,
                    combine_first=combine_first)
            check(out.getvalue().startswith("Merging:"), out.getvalue())
            check(listdir(tmpdir) == ['sync' + ext], listdir(tmpdir))

            got = load_ds(os.path.join(tmpdir, 'sync'), engine=engine)
            if combine_first:
                exp = d1.combine_first(d2).combine_first(d3)
            else:
                exp = xr.merge([d1, d2])
            check(got.equals(exp), "merged conflicts differ")

            # only one file left -> nothing to do
            out = io.StringIO()
            with contextlib.redirect_stdout(out):
                merge_sync_conflict_datasets(
                    os.path.join(tmpdir, 'sync*' + ext), engine=engine)
            check("Nothing to do" in out.getvalue())
            check(listdir(tmpdir) == ['sync' + ext])


# --------------------- 5. harvester: save, load, delete -------------------- #

def _fn(a, b):
    return a + 10 * b, (a - b) * (1 + 1j)


def section_harvester():
    for engine, with_ext in itertools.product(ENGINES, [False, True]):
        with tempfile.TemporaryDirectory() as tmpdir:
            base = os.path.join(tmpdir, 'harvest')
            data_name = base + (EXT[engine] if with_ext else '')
            on_disk = ['harvest' + EXT[engine]]

            runner = xyzpy.Runner(_fn, var_names=['s', 'z'])
            h = xyzpy.Harvester(runner, data_name=data_name, engine=engine)
            h.harvest_combos({'a': [1, 2, 3], 'b': [10, 20]}, verbosity=0)
            check(listdir(tmpdir) == on_disk, listdir(tmpdir))

            exp1 = runner.last_ds
            got = load_ds(base, engine=engine)
            check(got.equals(exp1), "harvested data on disk")
            check(got['z'].dtype.kind == 'c')

            # a fresh harvester finds the same file
            h2 = xyzpy.Harvester(runner, data_name=data_name, engine=engine)
            check(h2.full_ds.equals(exp1), "harvester load_full_ds")
            h2.harvest_combos({'a': [4], 'b': [10, 20]}, verbosity=0)
            check(listdir(tmpdir) == on_disk, listdir(tmpdir))
            got = load_ds(base, engine=engine)
            check(got.equals(xr.merge([exp1, runner.last_ds])),
                  "harvester merged data")
            check(dict(got.sizes) == {'a': 4, 'b': 2})

            # lazily opened full dataset has the same values
            if engine != 'joblib':
                h3 = xyzpy.Harvester(runner, data_name=data_name,
                                     engine=engine, chunks=1)
                lazy = h3.full_ds
                check(lazy['s'].chunks is not None)
                check(lazy.identical(got), "lazy harvester dataset")
                lazy.close()

            # delete, with a backup first
            h2.delete_ds(backup=True)
            left = listdir(tmpdir)
            check(len(left) == 1 and
                  left[0].startswith(on_disk[0] + '.BAK-'), left)
            bak = joblib_or_nc_load(os.path.join(tmpdir, left[0]), engine)
            check(bak.equals(got), "backup differs")
            os.remove(os.path.join(tmpdir, left[0]))

            h4 = xyzpy.Harvester(runner, data_name=data_name, engine=engine)
            h4.harvest_combos({'a': [1], 'b': [10]}, verbosity=0)
            check(listdir(tmpdir) == on_disk, listdir(tmpdir))
            h4.delete_ds()
            check(listdir(tmpdir) == [], listdir(tmpdir))


def joblib_or_nc_load(path, engine):
    # the backup has the extension in the middle of its name so is found as is
    check(auto_add_extension(path, engine) == path)
    return load_ds(path, engine=engine)


# ------------------ focus: attribute rewriting when saving ----------------- #

def section_attrs_focus():
    cases = [
        {},
        {'a': None},
        {'a': True},
        {'a': False},
        {'a': None, 'b': None, 'c': True, 'd': True, 'e': False, 'f': False},
        # equal to but not identical to True/False/None -> kept
        {'one': 1, 'zero': 0, 'fone': 1.0, 'fzero': 0.0, 't': True,
         'f': False},
        {'sNone': 'None', 'sTrue': 'True', 'sFalse': 'False', 'empty': '',
         'n': None},
        {'np1': np.int64(1), 'np0': np.float64(0.0), 'arr': np.array([0, 1]),
         'lst': [1.5, 2.5], 'n': None, 'z': False},
        {'z': False, 'y': True, 'x': None, 'w': 'w', 'v': 5},
    ]
    for engine, attrs in itertools.product(ENGINES, cases):
        with tempfile.TemporaryDirectory() as tmpdir:
            name = os.path.join(tmpdir, 'attrs')
            ds = make_ds(1, 3, 'some', attrs)
            # variable level attributes are left alone
            ds['vfloat'].attrs['units'] = 'm'
            ds['a'].attrs['long_name'] = 'the a coordinate'
            attrs_obj = ds.attrs
            exp = expected_attrs(attrs, engine)

            save_ds(ds, name, engine=engine)

            # rewritten in place (same dict, same key order), only for netcdf
            check(ds.attrs is attrs_obj, "attrs dict replaced")
            check(list(ds.attrs) == list(attrs), "attrs keys reordered")
            check(attrs_equal(ds.attrs, exp), "in place: {} != {}".format(
                ds.attrs, exp))
            for k, v in attrs.items():
                if v is None or v is True or v is False:
                    if engine in ('joblib', 'zarr'):
                        check(ds.attrs[k] is v)
                    else:
                        check(ds.attrs[k] == repr(v) and
                              type(ds.attrs[k]) is str)
                else:
                    check(ds.attrs[k] is v, "attr {} was touched".format(k))
            check(ds['vfloat'].attrs == {'units': 'm'})
            check(ds['a'].attrs == {'long_name': 'the a coordinate'})

            for chunks in (None, 1):
                got = load_ds(name, engine=engine, chunks=chunks)
                check(attrs_equal(got.attrs, exp), "loaded: {} != {}".format(
                    got.attrs, exp))
                check(got['vfloat'].attrs == {'units': 'm'})
                check(got['a'].attrs == {'long_name': 'the a coordinate'})
                check(got.equals(ds))
                got.close()

            # saving a second time changes nothing more
            before = dict(ds.attrs)
            save_ds(ds, name + '_again', engine=engine)
            check(attrs_equal(ds.attrs, before), "second save changed attrs")
            got = load_ds(name + '_again', engine=engine)
            check(attrs_equal(got.attrs, exp))

    # the same rewriting happens through save_merge_ds and the harvester
    for engine in ENGINES:
        with tempfile.TemporaryDirectory() as tmpdir:
            name = os.path.join(tmpdir, 'm')
            ds = make_ds(1, 4, 'none', {'n': None, 't': True, 'k': 1})
            save_merge_ds(ds, name, overwrite=True, engine=engine)
            got = load_ds(name, engine=engine)
            check(attrs_equal(got.attrs,
                              expected_attrs({'n': None, 't': True, 'k': 1},
                                             engine)), got.attrs)

    # complex data alone decides about ``invalid_netcdf``
    with tempfile.TemporaryDirectory() as tmpdir:
        for i, (val, kind) in enumerate([(1.0, 'f'), (1.0 + 2.0j, 'c'),
                                         (np.complex64(1j), 'c'), (2, 'i'),
                                         (True, 'b')]):
            ds = xr.Dataset({'v': ('a', np.array([val, val]))},
                            coords={'a': [1, 2]}, attrs={'f': False})
            name = os.path.join(tmpdir, 'c{}'.format(i))
            save_ds(ds, name)
            got = load_ds(name)
            check(got['v'].dtype == ds['v'].dtype and got['v'].dtype.kind ==
                  kind, "dtype {} != {}".format(got['v'].dtype, ds['v'].dtype))
            check(got.equals(ds) and got.attrs == {'f': 'False'})
        # complex coordinate
        ds = xr.Dataset({'v': ('a', [1.0, 2.0])},
                        coords={'a': [1j, 2 + 1j]}, attrs={'n': None})
        name = os.path.join(tmpdir, 'ccoord')
        save_ds(ds, name)
        got = load_ds(name)
        check(got.equals(ds) and got['a'].dtype.kind == 'c' and
              got.attrs == {'n': 'None'})


if __name__ == '__main__':
    section_file_names()
    section_roundtrip()
    section_load_options()
    section_attribute_error_fallback()
    section_save_merge()
    section_merge_sync_conflicts()
    section_harvester()
    section_attrs_focus()
    print("engines:", ENGINES, "checks:", N_CHECKS[0])
    print("PASS")
