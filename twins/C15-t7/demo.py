"""Demo for C15 (sampling only ever appends correct rows), aimed at the
dataframe reader / writer (``save_df`` / ``load_df``), the conversion of
results into table rows (``results_to_df``) and the clean-up at the end of
``Crop.reap_samples`` / ``Crop.reap_harvest``.  Run from the worktree root:

    cd <worktree> && /venv/bin/python /path/to/demo.py
"""
import sys
import os

sys.path.insert(0, os.getcwd())

import shutil
import tempfile
import warnings

import numpy as np
import pandas as pd

import xyzpy
import xyzpy.gen.farming as farming
from xyzpy.gen.combo_runner import results_to_df

assert os.path.dirname(os.path.dirname(os.path.abspath(xyzpy.__file__))) \
    == os.path.abspath(os.getcwd()), xyzpy.__file__

warnings.simplefilter('ignore')

A_CHOICES = (1, 2, 3, 4)
B_CHOICES = (10, 20, 30)
COMBOS = {'a': A_CHOICES, 'b': B_CHOICES}


def fn(a, b, c=0):
    return a + 2 * b + c, a * b - c


def make_runner(constants=None):
    return xyzpy.Runner(fn, var_names=['s', 'p'], constants=constants)


def check_rows(df, c=0, a_allowed=A_CHOICES, b_allowed=B_CHOICES):
    for _, row in df.iterrows():
        a, b = row['a'], row['b']
        assert a in a_allowed and b in b_allowed, (a, b)
        s, p = fn(a, b, c)
        assert row['s'] == s and row['p'] == p, row
        if c:
            assert row['c'] == c


def same_table(x, y):
    assert list(x.columns) == list(y.columns), (x.columns, y.columns)
    assert len(x) == len(y), (len(x), len(y))
    assert list(x.index) == list(y.index)
    for col in x.columns:
        assert np.array_equal(np.asarray(x[col], dtype=float),
                              np.asarray(y[col], dtype=float),
                              equal_nan=True), col


class Trace:
    """Record the order of loads, saves, renames and directory removals."""

    def __init__(self):
        self.events = []

    def __enter__(self):
        self._load, self._save = farming.load_df, farming.save_df
        self._replace, self._rmtree = os.replace, shutil.rmtree

        def load_df(name, **kw):
            self.events.append(('load', os.path.basename(name)))
            return self._load(name, **kw)

        def save_df(df, name, **kw):
            self.events.append(('save', os.path.basename(name), len(df)))
            return self._save(df, name, **kw)

        def replace(src, dst, **kw):
            self.events.append(('replace', os.path.basename(src),
                                os.path.basename(dst)))
            return self._replace(src, dst, **kw)

        def rmtree(path, *args, **kw):
            self.events.append(('rmtree', os.path.basename(path)))
            return self._rmtree(path, *args, **kw)

        farming.load_df, farming.save_df = load_df, save_df
        os.replace, shutil.rmtree = replace, rmtree
        return self

    def __exit__(self, *exc):
        farming.load_df, farming.save_df = self._load, self._save
        os.replace, shutil.rmtree = self._replace, self._rmtree


class FakeFrame:
    """Stands in for a dataframe: records how its writers are called."""

    def __init__(self):
        self.calls = []

    def _record(self, which):
        def writer(*args, **kwargs):
            self.calls.append((which, args, kwargs))
            return 'ignored'
        return writer

    def __getattr__(self, name):
        if name in ('to_csv', 'to_hdf', 'to_pickle', 'to_json'):
            return self._record(name)
        raise AttributeError(name)


def run_reader_writer(tmp):
    df = pd.DataFrame({'a': [1, 2, 3], 'b': [10, 20, 30],
                       'p': [10, 40, 90], 's': [21.5, 42.0, 63.25]})

    # how the writers are called for each engine
    fake = FakeFrame()
    assert xyzpy.save_df(fake, 'x.pkl') is None
    assert xyzpy.save_df(fake, 'x.pkl', engine='pickle', protocol=4) is None
    xyzpy.save_df(fake, 'x.csv', engine='csv')
    xyzpy.save_df(fake, 'x.csv', engine='csv', index=True, sep=';')
    xyzpy.save_df(fake, 'x.csv', engine='csv', key='unused', index=None)
    xyzpy.save_df(fake, 'x.h5', engine='hdf')
    xyzpy.save_df(fake, 'x.h5', engine='hdf', key='tbl', mode='a')
    xyzpy.save_df(fake, 'x.json', engine='json', key='unused')
    assert fake.calls == [
        ('to_pickle', ('x.pkl',), {}),
        ('to_pickle', ('x.pkl',), {'protocol': 4}),
        ('to_csv', ('x.csv',), {'index': False}),
        ('to_csv', ('x.csv',), {'index': True, 'sep': ';'}),
        ('to_csv', ('x.csv',), {'index': None}),
        ('to_hdf', ('x.h5',), {'key': 'df'}),
        ('to_hdf', ('x.h5',), {'key': 'tbl', 'mode': 'a'}),
        ('to_json', ('x.json',), {}),
    ], fake.calls
    for bad in ('nonexistent', None, 3):
        try:
            xyzpy.save_df(fake, 'x', engine=bad)
        except AttributeError as e:
            assert 'to_{}'.format(bad) in str(e)
        else:
            raise AssertionError('expected AttributeError')
        try:
            xyzpy.load_df('x', engine=bad)
        except AttributeError as e:
            assert 'read_{}'.format(bad) in str(e)
        else:
            raise AssertionError('expected AttributeError')
    assert len(fake.calls) == 8

    # real files: pickle, csv (no index column), csv with options, json
    pkl = os.path.join(tmp, 'rw.pkl')
    xyzpy.save_df(df, pkl)
    same_table(xyzpy.load_df(pkl), df)
    same_table(xyzpy.load_df(pkl, engine='pickle', key='whatever'), df)

    csv = os.path.join(tmp, 'rw.csv')
    xyzpy.save_df(df, csv, engine='csv')
    with open(csv) as f:
        lines = f.read().splitlines()
    assert lines[0] == 'a,b,p,s' and lines[1] == '1,10,10,21.5', lines
    assert len(lines) == 4
    same_table(xyzpy.load_df(csv, engine='csv'), df)

    xyzpy.save_df(df, csv, engine='csv', index=True)
    with open(csv) as f:
        assert f.readline().strip() == ',a,b,p,s'

    xyzpy.save_df(df, csv, engine='csv', sep=';')
    with open(csv) as f:
        assert f.readline().strip() == 'a;b;p;s'
    # options given to load_df are not handed on to the reader
    loaded = xyzpy.load_df(csv, engine='csv', sep=';')
    assert list(loaded.columns) == ['a;b;p;s'] and len(loaded) == 3

    js = os.path.join(tmp, 'rw.json')
    xyzpy.save_df(df, js, engine='json')
    same_table(xyzpy.load_df(js, engine='json'), df)

    # a missing file is the reader's own error
    try:
        xyzpy.load_df(os.path.join(tmp, 'missing.csv'), engine='csv')
    except FileNotFoundError:
        pass
    else:
        raise AssertionError('expected FileNotFoundError')
    for f in (pkl, csv, js):
        os.remove(f)


def run_rows():
    """results_to_df: one row per run, built from (and in) its settings."""
    settings = [{'a': 1, 'b': 10, 'res': 'R'}, {'a': 2, 'b': 20, 'res': 'R'}]
    df = results_to_df([(21, 10), (42, 40)], settings, attrs={'tag': 7},
                       resources={'res': 'R', 'other': None},
                       var_names=('s', 'p'))
    assert list(df.columns) == ['a', 'b', 'tag', 's', 'p']
    assert df.values.tolist() == [[1, 10, 7, 21, 10], [2, 20, 7, 42, 40]]
    # the rows are the settings dicts themselves, completed in place
    assert settings[0] == {'a': 1, 'b': 10, 'tag': 7, 's': 21, 'p': 10}
    assert list(settings[1]) == ['a', 'b', 'tag', 's', 'p']

    # a single output is the result itself, even if iterable
    settings = [{'a': 1}, {'a': 2}]
    df = results_to_df([(1, 2, 3), 'xy'], settings, attrs=None,
                       resources={}, var_names=('out',))
    assert list(df.columns) == ['a', 'out']
    assert df['out'][0] == (1, 2, 3) and df['out'][1] == 'xy'
    df = results_to_df([5], [{'a': 1}], attrs={}, resources={},
                       var_names='out')
    # (an unparsed string name is paired off letter by letter)
    assert df.values.tolist() == [[1, 5]] and list(df.columns) == ['a', 'o']

    # several outputs but a non-iterable result: goes to the first name only
    df = results_to_df([5, (6, 7)], [{'a': 1}, {'a': 2}], attrs=None,
                       resources={}, var_names=('s', 'p'))
    assert list(df.columns) == ['a', 's', 'p']
    assert df['s'].tolist() == [5, 6]
    assert np.isnan(df['p'][0]) and df['p'][1] == 7
    # fewer / more results than names are paired off by zip
    df = results_to_df([(1,), (2, 3, 4)], [{'a': 1}, {'a': 2}], attrs=None,
                       resources={}, var_names=('s', 'p'))
    assert df['s'].tolist() == [1, 2] and df['p'][1] == 3
    assert np.isnan(df['p'][0])
    # an output may overwrite a setting or attr of the same name
    df = results_to_df([(9, 8)], [{'s': 1, 'b': 2}], attrs={'p': 0},
                       resources={}, var_names=('s', 'p'))
    assert list(df.columns) == ['s', 'b', 'p']
    assert df.values.tolist() == [[9, 2, 8]]
    # no rows, or more settings than results
    assert len(results_to_df([], [], None, {}, ('s',))) == 0
    extra = [{'a': 1}, {'a': 2, 'r': 0}]
    assert len(results_to_df([3], extra, None, {'r': 0}, ('s',))) == 1
    assert extra[1] == {'a': 2, 'r': 0}

    # via the runner: resources are not recorded, constants and attrs are
    def g(a, b, c, r):
        return a + b + c + len(r)

    runner = xyzpy.Runner(g, var_names='out', constants={'c': 100},
                          resources={'r': 'xx'}, attrs={'note': 'hi'})
    df = runner.run_cases([(1, 10), (2, 20)], fn_args=('a', 'b'),
                          to_df=True, verbosity=0)
    assert sorted(df.columns) == ['a', 'b', 'c', 'note', 'out']
    assert df['out'].tolist() == [113, 124]
    assert df['note'].tolist() == ['hi', 'hi']


def sown_sampler(tmp, fname, name, n, batchsize, engine='pickle',
                 constants=None, grow='all'):
    path = os.path.join(tmp, fname)
    s = xyzpy.Sampler(make_runner(), data_name=path, default_combos=COMBOS,
                      engine=engine)
    crop = s.Crop(name=name, parent_dir=tmp, batchsize=batchsize)
    crop.sow_samples(n, constants=constants, verbosity=0)
    if grow == 'all':
        crop.grow_missing(verbosity=0)
    else:
        crop.grow(grow, verbosity=0)
    return s, crop, path


def run_reap_samples(tmp, engine, fname):
    loc = lambda name: os.path.join(tmp, '.xyz-' + name)
    tmpname = 'tmp-' + fname

    # default: sync, then delete the crop
    s, crop, path = sown_sampler(tmp, fname, 'c1', 5, 2, engine)
    with Trace() as tr:
        df = crop.reap()
    assert tr.events == [('save', tmpname, 5), ('replace', tmpname, fname),
                         ('rmtree', '.xyz-c1')], tr.events
    assert not os.path.exists(loc('c1'))
    assert df is s.last_df and len(s.full_df) == 5
    check_rows(s.full_df)
    previous = s.full_df.copy(deep=True)

    # clean_up=False keeps the crop; a fresh sampler continues the file
    s, crop, path = sown_sampler(tmp, fname, 'c2', 3, 3, engine,
                                 constants={'c': 2})
    with Trace() as tr:
        df = crop.reap(clean_up=False)
    assert tr.events == [('load', fname), ('save', tmpname, 8),
                         ('replace', tmpname, fname)], tr.events
    assert os.path.isdir(loc('c2'))
    assert len(s.full_df) == 8 and list(s.full_df.index) == list(range(8))
    check_rows(df, c=2)
    same_table(s.full_df.iloc[:5][list(previous.columns)], previous)
    same_table(xyzpy.load_df(path, engine=engine), s.full_df)
    previous = s.full_df.copy(deep=True)
    # ... and can be reaped again, explicitly cleaning up this time
    s = xyzpy.Sampler(make_runner(), data_name=path, engine=engine)
    with Trace() as tr:
        df = crop.reap_samples(s, clean_up=True)
    assert tr.events == [('load', fname), ('save', tmpname, 11),
                         ('replace', tmpname, fname),
                         ('rmtree', '.xyz-c2')], tr.events
    assert len(s.full_df) == 11
    same_table(s.full_df.iloc[:8], previous)
    same_table(s.full_df.iloc[8:].reset_index(drop=True),
               previous.iloc[5:].reset_index(drop=True))
    previous = s.full_df.copy(deep=True)

    # allow_incomplete: not cleaned up by default, missing rows are nan
    s, crop, path = sown_sampler(tmp, fname, 'c3', 4, 1, engine,
                                 grow=(1, 3))
    with Trace() as tr:
        df = crop.reap(allow_incomplete=True)
    assert tr.events == [('load', fname), ('save', tmpname, 15),
                         ('replace', tmpname, fname)], tr.events
    assert os.path.isdir(loc('c3'))
    assert len(df) == 4 and len(s.full_df) == 15
    missing = np.isnan(np.asarray(df['s'], dtype=float))
    assert missing.tolist() == [False, True, False, True]
    check_rows(df[~missing])
    assert np.isnan(np.asarray(df['p'], dtype=float)).tolist() \
        == missing.tolist()
    for col, allowed in COMBOS.items():
        assert all(v in allowed for v in df[col])
    same_table(s.full_df.iloc[:11], previous)
    same_table(xyzpy.load_df(path, engine=engine), s.full_df)
    previous = s.full_df.copy(deep=True)
    # allow_incomplete with clean_up=True, and no sync: table untouched
    s = xyzpy.Sampler(make_runner(), data_name=path, engine=engine)
    with Trace() as tr:
        df = crop.reap_samples(s, sync=False, allow_incomplete=True,
                               clean_up=True)
    assert tr.events == [('rmtree', '.xyz-c3')], tr.events
    assert s._full_df is None and s.last_df is None and len(df) == 4
    same_table(xyzpy.load_df(path, engine=engine), previous)

    # sync=False, default clean up: crop deleted, table untouched
    s, crop, path = sown_sampler(tmp, fname, 'c4', 2, 5, engine)
    with Trace() as tr:
        df = crop.reap(sync=False)
    assert tr.events == [('rmtree', '.xyz-c4')], tr.events
    assert len(df) == 2 and s._full_df is None
    check_rows(df)
    same_table(xyzpy.load_df(path, engine=engine), previous)

    # a falsy (not None) clean_up is not replaced by the default
    s, crop, path = sown_sampler(tmp, fname, 'c5', 2, 1, engine)
    with Trace() as tr:
        crop.reap(sync=False, clean_up=0)
    assert tr.events == [] and os.path.isdir(loc('c5'))

    # a failing sync leaves the crop, the table and the sampler's table
    s.engine = 'nonexistent_engine'
    s._full_df = None
    try:
        crop.reap()
    except AttributeError:
        pass
    else:
        raise AssertionError('expected AttributeError')
    assert os.path.isdir(loc('c5')) and s._full_df is None
    same_table(xyzpy.load_df(path, engine=engine), previous)
    s.engine = engine
    crop.reap()
    assert not os.path.exists(loc('c5')) and len(s.full_df) == 17
    same_table(s.full_df.iloc[:15], previous)
    same_table(xyzpy.load_df(path, engine=engine), s.full_df)

    # not ready and not allowed to be incomplete: error before anything
    s, crop, path = sown_sampler(tmp, fname, 'c6', 3, 1, engine, grow=(2,))
    with Trace() as tr:
        try:
            crop.reap()
        except xyzpy.gen.farming.XYZError:
            pass
        else:
            raise AssertionError('expected XYZError')
    assert tr.events == [] and os.path.isdir(loc('c6'))
    crop.delete_all()

    # no sampler at all
    try:
        crop.reap_samples(None)
    except ValueError as e:
        assert str(e) == "Cannot reap samples without a 'Sampler'."
    else:
        raise AssertionError('expected ValueError')
    os.remove(path)
    assert os.listdir(tmp) == [], os.listdir(tmp)


def run_reap_harvest(tmp):
    """The harvester's reap shares the end-of-reap clean-up."""
    def h(a, b):
        return a + b

    path = os.path.join(tmp, 'harvest.h5')
    for i, (kws, kept) in enumerate([
        ({}, False), ({'clean_up': False}, True), ({'clean_up': True}, False),
        ({'sync': False}, False),
    ]):
        runner = xyzpy.Runner(h, var_names='out')
        harv = xyzpy.Harvester(runner, data_name=path)
        crop = harv.Crop(name='h{}'.format(i), parent_dir=tmp, batchsize=2)
        crop.sow_combos({'a': [i], 'b': [1, 2, 3]}, verbosity=0)
        crop.grow_missing(verbosity=0)
        with Trace() as tr:
            ds = crop.reap(**kws)
        assert ds['out'].sel(a=i).values.tolist() == [i + 1, i + 2, i + 3]
        rm = [e for e in tr.events if e[0] == 'rmtree']
        assert rm == ([] if kept else [('rmtree', '.xyz-h{}'.format(i))])
        assert os.path.isdir(crop.location) == kept
        if kept:
            crop.delete_all()
    full = xyzpy.load_ds(path)
    assert sorted(full['a'].values.tolist()) == [0, 1, 2]
    full.close()
    try:
        crop.reap_harvest(None)
    except ValueError as e:
        assert str(e) == "Cannot reap and harvest if no Harvester is set."
    else:
        raise AssertionError('expected ValueError')
    os.remove(path)


def run_sample_combos(tmp, engine, fname):
    """Plain sample_combos runs with fresh samplers, through save/load."""
    path = os.path.join(tmp, fname)
    total, previous = 0, None
    for n, constants in [(3, None), (1, {'c': 5}), (4, None)]:
        s = xyzpy.Sampler(make_runner(constants), data_name=path,
                          default_combos=COMBOS, engine=engine)
        last = s.sample_combos(n, verbosity=0)
        total += n
        check_rows(last, c=(constants or {}).get('c', 0))
        full = s.full_df
        assert len(last) == n and len(full) == total
        assert list(full.index) == list(range(total))
        if previous is not None:
            same_table(full.iloc[:len(previous)][list(previous.columns)],
                       previous)
        same_table(xyzpy.load_df(path, engine=engine), full)
        if engine == 'csv':
            with open(path) as f:
                header = f.readline().strip()
            assert header == ','.join(full.columns), header
        previous = full.copy(deep=True)
    os.remove(path)
    assert os.listdir(tmp) == []


def main():
    np.random.seed(4321)
    tmp = tempfile.mkdtemp(prefix='xyz-c15-demo-')
    try:
        run_reader_writer(tmp)
        run_rows()
        for engine, fname in [('pickle', 'samples.pkl'),
                              ('csv', 'samples.csv')]:
            run_sample_combos(tmp, engine, fname)
            run_reap_samples(tmp, engine, fname)
        run_reap_harvest(tmp)
    finally:
        shutil.rmtree(tmp, ignore_errors=True)
    print('PASS')


if __name__ == '__main__':
    main()
