"""Demo for C01 twin 1: strategy selection / shuffling in ``combo_runner_core``.

Run as ``cd <worktree> && /venv/bin/python /path/to/demo.py``.
Checks that a grid sweep evaluates every combination exactly once and puts
each result in its own slot, whatever execution strategy is chosen.
"""
import os
import sys

sys.path.insert(0, os.getcwd())

import itertools
import multiprocessing
import multiprocessing.pool
import random
import shutil
import tempfile
import threading
from concurrent.futures import ThreadPoolExecutor, ProcessPoolExecutor

import numpy as np

import xyzpy
from xyzpy.gen.combo_runner import combo_runner_core

assert os.path.dirname(os.path.dirname(os.path.abspath(xyzpy.__file__))) == \
    os.getcwd(), xyzpy.__file__


# --------------------------------------------------------------------------- #
#                         functions that get swept over                       #
# --------------------------------------------------------------------------- #

def tag(**kws):
    """Return a value that identifies precisely the call made."""
    return repr(sorted(kws.items()))


def fn_scalar(a, b=None, c=None, d=None, e=None, k1=None, k2=None):
    return tag(a=a, b=b, c=c, d=d, e=e, k1=k1, k2=k2)


def fn_tuple(a, b=None, c=None, d=None, e=None, k1=None, k2=None):
    t = tag(a=a, b=b, c=c, d=d, e=e, k1=k1, k2=k2)
    return t, len(t), "second:" + t


def fn_array(a, b=None, c=None, d=None, e=None, k1=None, k2=None):
    t = tag(a=a, b=b, c=c, d=d, e=e, k1=k1, k2=k2)
    return np.array([len(t), sum(map(ord, t)), 3])


def fn_touch(a, b, folder):
    """Leave a trace on disk of every call (works across processes)."""
    name = os.path.join(folder, "call-{}-{}-{}".format(a, b, os.urandom(4).hex()))
    with open(name, "w") as f:
        f.write("x")
    return (a, b)


FNS = {"scalar": fn_scalar, "tuple": fn_tuple, "array": fn_array}


def same(x, y):
    if isinstance(x, np.ndarray) or isinstance(y, np.ndarray):
        return (
            isinstance(x, np.ndarray) and isinstance(y, np.ndarray) and
            x.shape == y.shape and x.dtype == y.dtype and bool(np.all(x == y))
        )
    if isinstance(x, tuple) or isinstance(y, tuple):
        return (
            type(x) is type(y) and len(x) == len(y) and
            all(same(p, q) for p, q in zip(x, y))
        )
    return type(x) is type(y) and x == y


# --------------------------------------------------------------------------- #
#                    the independent statement of the property                #
# --------------------------------------------------------------------------- #

def expected_nested(fn, names, values, constants, pick=None):
    def rec(i, chosen):
        if i == len(names):
            r = fn(**dict(zip(names, chosen)), **constants)
            return r if pick is None else r[pick]
        return tuple(rec(i + 1, chosen + (v,)) for v in values[i])
    return rec(0, ())


def expected_flat(fn, names, values, constants, pick=None):
    out = []
    for chosen in itertools.product(*values):
        r = fn(**dict(zip(names, chosen)), **constants)
        out.append(r if pick is None else r[pick])
    return tuple(out)


def check_outputs(got, fn, nout, names, values, constants, split, flat, what):
    exp = expected_flat if flat else expected_nested
    if split:
        assert isinstance(got, tuple) and len(got) == nout, what
        for i in range(nout):
            assert same(got[i], exp(fn, names, values, constants, pick=i)), \
                (what, i)
    else:
        assert same(got, exp(fn, names, values, constants)), what


# --------------------------------------------------------------------------- #
#                       executors of several different kinds                  #
# --------------------------------------------------------------------------- #

class LazyFuture:

    def __init__(self, log, i, fn, kws, use_get):
        self.log, self.i, self.fn, self.kws = log, i, fn, kws
        self.done = False
        if use_get:
            self.get = self._value
        else:
            self.result = self._value

    def compute(self):
        if not self.done:
            self.value = self.fn(**self.kws)
            self.done = True

    def _value(self):
        self.log.append(("result", self.i))
        self.owner.finish_some(self)
        return self.value


class _LoggingExecutor:
    """Logs the order of everything asked of it, and completes its jobs in an
    arbitrary (seeded) order.
    """

    use_get = False

    def __init__(self, completion_seed):
        self.log = []
        self.pending = []
        self.completed = []
        self.rng = random.Random(completion_seed)

    def _make(self, fn, kws):
        fut = LazyFuture(self.log, len(self.pending), fn, kws, self.use_get)
        fut.owner = self
        self.pending.append(fut)
        self.log.append(("submit", dict(kws)))
        return fut

    def finish_some(self, needed):
        # complete the not-yet-done jobs in a random order until the one
        # that is waited on is available
        todo = [f for f in self.pending if not f.done]
        self.rng.shuffle(todo)
        for f in todo:
            f.compute()
            self.completed.append(f.i)
            if needed.done:
                break


class OrderedExecutor(_LoggingExecutor):
    """``concurrent.futures`` style: ``submit`` and ``future.result``."""

    def submit(self, fn, *args, **kws):
        assert not args
        return self._make(fn, kws)


class ApplyAsyncExecutor(_LoggingExecutor):
    """Only has ``apply_async(fn, *args, **kws)`` (ipyparallel view style),
    and its futures only have ``get``.
    """

    use_get = True

    def apply_async(self, fn, *args, **kws):
        assert not args
        return self._make(fn, kws)


class NotAnExecutor:
    pass


# --------------------------------------------------------------------------- #
#                                   checks                                    #
# --------------------------------------------------------------------------- #

GRIDS = [
    # (combos spelling, names, values)
    ({"a": [1, 2, 3]}, ("a",), ([1, 2, 3],)),
    (("a", [2.5, -1.0]), ("a",), ([2.5, -1.0],)),
    ([("a", ["x", "yy"]), ("b", [3, 1, 2])], ("a", "b"), (["x", "yy"], [3, 1, 2])),
    ({"b": (7,), "a": (1.5, "s", 3)}, ("b", "a"), ([7], [1.5, "s", 3])),
    (
        {"a": [4, 1], "b": ["q"], "c": [0.5, 0.25, 0.125, 8.0]},
        ("a", "b", "c"),
        ([4, 1], ["q"], [0.5, 0.25, 0.125, 8.0]),
    ),
    (
        (("e", [1, 2]), ("d", ["u", "v"]), ("c", [9]), ("b", [0.1, 0.2]),
         ("a", [3, 2, 1])),
        ("e", "d", "c", "b", "a"),
        ([1, 2], ["u", "v"], [9], [0.1, 0.2], [3, 2, 1]),
    ),
]

CONSTANTS = [None, {}, {"k1": 10}, {"k1": "z", "k2": 2.5}, (("k2", 5),)]


def reference_permutation(n, shuffle):
    random.seed(int(shuffle))
    order = list(range(n))
    # shuffling an enumerated list consumes the generator in the same way
    random.shuffle(order)
    after = random.random()
    return order, after


def check_sequential_and_shuffled():
    n = 0
    for (combos, names, values), constants in itertools.product(GRIDS, CONSTANTS):
        cdict = dict(constants) if constants else {}
        for kind, fn in FNS.items():
            nout = 3 if kind != "scalar" else 1
            for shuffle, split, flat in itertools.product(
                [False, True, 1, 7, 12345], [False, True], [False, True]
            ):
                if split and kind == "scalar":
                    continue
                calls = []

                def recording(**kws):
                    calls.append(kws)
                    return fn(**kws)

                random.seed(99)
                got = xyzpy.combo_runner(
                    recording, combos, constants=constants, split=split,
                    flat=flat, shuffle=shuffle, verbosity=0,
                )
                what = (combos, constants, kind, shuffle, split, flat)
                check_outputs(got, fn, nout, names, values, cdict, split,
                              flat, what)

                # exactly once per combination, constants added, nothing else
                want = [
                    {**dict(zip(names, chosen)), **cdict}
                    for chosen in itertools.product(*values)
                ]
                assert len(calls) == len(want), what
                if shuffle:
                    # the global generator is left in the documented state
                    observed = random.random()
                    order, after = reference_permutation(len(want), shuffle)
                    assert calls == [want[i] for i in order], what
                    assert observed == after, what
                else:
                    assert calls == want, what
                n += 1
    return n


def check_custom_executors():
    n = 0
    for (combos, names, values), constants in itertools.product(
        GRIDS[2:], CONSTANTS[2:4]
    ):
        cdict = dict(constants)
        want = [
            {**dict(zip(names, chosen)), **cdict}
            for chosen in itertools.product(*values)
        ]
        for cls, shuffle, split, flat, cseed in itertools.product(
            [OrderedExecutor, ApplyAsyncExecutor], [False, True, 3],
            [False, True], [False, True], [0, 1, 2],
        ):
            ex = cls(cseed)
            got = xyzpy.combo_runner(
                fn_tuple, combos, constants=constants, executor=ex,
                split=split, flat=flat, shuffle=shuffle, verbosity=0,
                # these must be ignored when an executor is supplied
                parallel=True, num_workers=3,
            )
            what = (cls.__name__, combos, constants, shuffle, split, flat)
            check_outputs(got, fn_tuple, 3, names, values, cdict, split, flat,
                          what)
            if shuffle:
                order, _ = reference_permutation(len(want), shuffle)
            else:
                order = list(range(len(want)))
            # everything is submitted, in order, before any result is asked
            # for, and results are then collected in the same order
            assert ex.log == (
                [("submit", want[i]) for i in order] +
                [("result", j) for j in range(len(want))]
            ), what
            assert sorted(ex.completed) == list(range(len(want))), what
            n += 1
    return n


def check_real_pools(tmp):
    combos = {"a": [3, 1, 2], "b": ["p", "q"]}
    names, values = ("a", "b"), ([3, 1, 2], ["p", "q"])
    constants = {"k1": 1.5}
    n = 0

    def run(label, **opts):
        nonlocal n
        for fn_kind, shuffle, split, flat in [
            ("tuple", False, False, False),
            ("tuple", 4, True, False),
            ("array", True, False, True),
            ("scalar", 2, False, False),
            ("tuple", False, True, True),
        ]:
            fn = FNS[fn_kind]
            got = xyzpy.combo_runner(
                fn, combos, constants=constants, split=split, flat=flat,
                shuffle=shuffle, verbosity=0, **opts
            )
            check_outputs(got, fn, 3, names, values, constants, split, flat,
                          (label, fn_kind, shuffle, split, flat))
            n += 1

        # count the calls through their traces on disk
        folder = tempfile.mkdtemp(dir=tmp)
        got = xyzpy.combo_runner(
            fn_touch, {"a": [1, 2, 3, 4], "b": [5, 6, 7]},
            constants={"folder": folder}, shuffle=9, verbosity=0, **opts
        )
        assert got == tuple(
            tuple((a, b) for b in [5, 6, 7]) for a in [1, 2, 3, 4]
        ), label
        traces = sorted(x.rsplit("-", 1)[0] for x in os.listdir(folder))
        assert traces == sorted(
            "call-{}-{}".format(a, b) for a in [1, 2, 3, 4] for b in [5, 6, 7]
        ), (label, traces)
        n += 1

    run("sequential")
    run("parallel=True", parallel=True)
    run("parallel=2", parallel=2)
    run("num_workers=2", num_workers=2)
    run("parallel=True,num_workers=3", parallel=True, num_workers=3)
    run("parallel=False,num_workers=1", parallel=False, num_workers=1)
    with ThreadPoolExecutor(3) as ex:
        run("ThreadPoolExecutor", executor=ex)
    with ProcessPoolExecutor(2) as ex:
        run("ProcessPoolExecutor", executor=ex)
    with multiprocessing.Pool(2) as ex:
        run("multiprocessing.Pool", executor=ex)
    with multiprocessing.pool.ThreadPool(3) as ex:
        run("multiprocessing.pool.ThreadPool", executor=ex, parallel=True)
    return n


def check_worker_count_resolution():
    """``parallel=<int>`` is the number of workers only when ``num_workers``
    is not given, and ``parallel=True`` never is."""
    import xyzpy.gen.combo_runner as mod

    seen = []
    real = mod.get_reusable_executor

    pools = []

    def spy(max_workers=None, *args, **kwargs):
        seen.append(max_workers)
        pools.append(ThreadPoolExecutor(2))
        return pools[-1]

    mod.get_reusable_executor = spy
    try:
        for opts, expect in [
            (dict(parallel=True), None),
            (dict(parallel=3), 3),
            (dict(parallel=3, num_workers=2), 2),
            (dict(parallel=True, num_workers=2), 2),
            (dict(num_workers=4), 4),
            (dict(parallel=False, num_workers=4), 4),
            (dict(parallel=1), 1),
        ]:
            got = xyzpy.combo_runner(
                fn_scalar, {"a": [1, 2]}, verbosity=0, **opts
            )
            assert got == (fn_scalar(a=1), fn_scalar(a=2))
            assert seen.pop() == expect, (opts, expect)
        # nothing parallel -> the pool is never asked for
        for opts in [dict(), dict(parallel=False), dict(parallel=0),
                     dict(parallel=0, num_workers=0), dict(num_workers=None)]:
            xyzpy.combo_runner(fn_scalar, {"a": [1, 2]}, verbosity=0, **opts)
            assert seen == [], opts
        # a supplied executor wins over everything
        with ThreadPoolExecutor(1) as ex:
            xyzpy.combo_runner(fn_scalar, {"a": [1, 2]}, verbosity=0,
                               executor=ex, parallel=5, num_workers=6)
        assert seen == []
    finally:
        mod.get_reusable_executor = real
        for pool in pools:
            pool.shutdown()
    return 13


def check_errors_and_edges():
    n = 0
    # an executor without submit / apply_async
    for shuffle in [False, 2]:
        try:
            xyzpy.combo_runner(fn_scalar, {"a": [1, 2]}, shuffle=shuffle,
                               executor=NotAnExecutor(), verbosity=0)
        except TypeError as e:
            assert "does not have a ``submit``" in str(e)
        else:
            raise AssertionError("no TypeError")
        n += 1

    # an exception in the function propagates, after the earlier calls only
    for opts in [dict(), dict(shuffle=5)]:
        calls = []

        def failing(a, b):
            calls.append((a, b))
            if (a, b) == (2, "y"):
                raise KeyError("boom")
            return a

        try:
            xyzpy.combo_runner(failing, {"a": [1, 2, 3], "b": ["x", "y"]},
                               verbosity=0, **opts)
        except KeyError as e:
            assert e.args == ("boom",)
        else:
            raise AssertionError("no KeyError")
        full = list(itertools.product([1, 2, 3], ["x", "y"]))
        if opts:
            order, _ = reference_permutation(6, 5)
            full = [full[i] for i in order]
        assert calls == full[:full.index((2, "y")) + 1], (opts, calls)
        n += 1

    # no combos at all: one call with just the constants
    calls = []

    def const_only(**kws):
        calls.append(kws)
        return 42

    for shuffle in [False, True, 3]:
        del calls[:]
        assert xyzpy.combo_runner(const_only, None, constants={"k1": 1},
                                  shuffle=shuffle, verbosity=0) == 42
        assert calls == [{"k1": 1}]
        assert xyzpy.combo_runner(const_only, (), constants={"k1": 1},
                                  shuffle=shuffle, flat=True,
                                  verbosity=0) == (42,)
        n += 1

    # an empty grid: fine in order, but nothing to shuffle
    assert xyzpy.combo_runner(const_only, {"a": []}, verbosity=0) == ()
    assert xyzpy.combo_runner(const_only, {"a": []}, flat=True,
                              verbosity=0) == ()
    try:
        xyzpy.combo_runner(const_only, {"a": []}, shuffle=True, verbosity=0)
    except ValueError as e:
        assert "not enough values to unpack" in str(e), e
    else:
        raise AssertionError("no ValueError")
    n += 1

    # info is filled in by the core runner
    for shuffle in [False, 11]:
        info = {}
        res = combo_runner_core(
            fn_scalar, (("a", [1, 2]), ("b", ["x"])), {"k1": 0}, flat=True,
            shuffle=shuffle, verbosity=0, info=info,
        )
        assert info == {"settings": [
            {"a": 1, "b": "x", "k1": 0}, {"a": 2, "b": "x", "k1": 0},
        ]}
        assert type(info["settings"]) is list
        assert res == (fn_scalar(a=1, b="x", k1=0), fn_scalar(a=2, b="x", k1=0))
        info = {}
        res = combo_runner_core(
            fn_scalar, (("a", [1, 2]), ("b", ["x"])), {"k1": 0},
            shuffle=shuffle, verbosity=0, info=info,
        )
        assert info == {"fn_args": ("a", "b"),
                        "all_combo_values": ([1, 2], ["x"])}
        n += 1

    # cases crossed with combos, shuffled and through a pool
    with ThreadPoolExecutor(2) as ex:
        for opts in [dict(), dict(shuffle=3), dict(executor=ex, shuffle=True)]:
            got = xyzpy.combo_runner(
                fn_scalar, {"c": [5, 6]},
                cases=[{"a": 2, "b": "u"}, {"a": 1, "b": "v"}],
                constants={"k2": 0}, verbosity=0, **opts
            )
            # (a missing string result is represented by None)
            nan = None

            def cell(a, b):
                if (a, b) in [(2, "u"), (1, "v")]:
                    return tuple(fn_scalar(a=a, b=b, c=c, k2=0) for c in [5, 6])
                return (nan, nan)

            exp = tuple(tuple(cell(a, b) for b in ["u", "v"]) for a in [1, 2])
            assert repr(got) == repr(exp), (opts, got)
            n += 1

    # the dataset front-end goes through the same code
    for opts in [dict(), dict(shuffle=2), dict(parallel=2, shuffle=True)]:
        ds = xyzpy.combo_runner_to_ds(
            fn_tuple, {"a": [3, 1, 2], "b": ["p", "q"]},
            var_names=["t", "n", "s"], constants={"k1": 1}, verbosity=0,
            **opts
        )
        for a in [3, 1, 2]:
            for b in ["p", "q"]:
                t, ln, s = fn_tuple(a=a, b=b, k1=1)
                sel = ds.sel(a=a, b=b)
                assert sel["t"].item() == t and sel["n"].item() == ln
                assert sel["s"].item() == s
        assert list(ds["a"].values) == [3, 1, 2]
        n += 1
    return n


def main():
    tmp = tempfile.mkdtemp(prefix="c01-t1-demo-")
    try:
        counts = [
            check_sequential_and_shuffled(),
            check_custom_executors(),
            check_real_pools(tmp),
            check_worker_count_resolution(),
            check_errors_and_edges(),
        ]
    finally:
        shutil.rmtree(tmp, ignore_errors=True)
    print("checked", counts)
    print("PASS")


if __name__ == "__main__":
    main()
