"""Demo for C08 twin 1: the progress queries of ``Crop``.

Exercises ``Crop.calc_progress``, ``is_ready_to_reap``, ``missing_results``,
``num_sown_batches``, ``num_results`` and ``check_bad`` against a simple model
of which batches really finished, over random operation sequences, plus a
number of hand written edge cases.

Run as ``cd <worktree> && /venv/bin/python /path/to/demo.py``.
"""

import sys
import os

sys.path.insert(0, os.getcwd())

import io
import glob
import math
import pickle
import random
import shutil
import tempfile
import contextlib

import xyzpy
from xyzpy.gen import cropping
from xyzpy.gen.cropping import Crop, XYZError, BTCH_NM, RSLT_NM

assert os.path.dirname(os.path.dirname(os.path.abspath(xyzpy.__file__))) == (
    os.path.abspath(os.getcwd())
), xyzpy.__file__


class Boom(Exception):
    pass


def good_fn(a):
    return 10 * a + 1


def make_failing_fn(bad):
    bad = frozenset(bad)

    def failing_fn(a):
        if a in bad:
            raise Boom(a)
        return 10 * a + 1

    return failing_fn


def quiet(f, *args, **kwargs):
    """Call, returning (result, stdout) with stderr swallowed."""
    out, err = io.StringIO(), io.StringIO()
    with contextlib.redirect_stdout(out), contextlib.redirect_stderr(err):
        res = f(*args, **kwargs)
    return res, out.getvalue()


def listing(crop, sub):
    return sorted(os.listdir(os.path.join(crop.location, sub)))


class Model:
    """What is really true: the cases of each batch and which have results."""

    def __init__(self, parent, n, batchsize):
        self.parent = parent
        self.n = n
        self.batchsize = batchsize
        self.nb = math.ceil(n / batchsize)
        self.sown = False
        # batch id -> expected result tuple, or the string 'corrupt' /
        # 'short' for deliberately damaged result files
        self.results = {}
        self.crop = self.new_crop()

    def new_crop(self, with_fn=True):
        if with_fn:
            return Crop(
                fn=good_fn,
                name="demo",
                parent_dir=self.parent,
                batchsize=self.batchsize,
            )
        return Crop(name="demo", parent_dir=self.parent)

    def batch_cases(self, i):
        lo = (i - 1) * self.batchsize
        return list(range(lo, min(lo + self.batchsize, self.n)))

    def expected(self, i):
        return tuple(10 * a + 1 for a in self.batch_cases(i))

    # ------------------------------------------------------------------ #

    def check(self):
        crop = self.crop
        if not self.sown:
            assert not crop.is_prepared()
            assert crop.num_sown_batches == -1
            assert crop.num_results == -1
            assert crop.is_ready_to_reap() is False
            assert crop._num_sown_batches == -1 and crop._num_results == -1
            assert "Not yet sown" in str(crop)
            return

        good = {
            i for i, r in self.results.items() if not isinstance(r, str)
        }
        present = set(self.results)
        missing = tuple(i for i in range(1, self.nb + 1) if i not in present)

        # the reported progress
        assert crop.is_prepared()
        assert crop.num_sown_batches == self.nb
        assert crop.num_results == len(present)
        assert crop.missing_results() == missing, (
            crop.missing_results(),
            missing,
        )
        ready = crop.is_ready_to_reap()
        assert ready is (len(missing) == 0), (ready, missing)
        crop.calc_progress()
        assert crop._num_sown_batches == self.nb
        assert crop._num_results == len(present)
        assert crop.num_batches == self.nb
        assert crop.batchsize == self.batchsize
        s = str(crop)
        assert "{} / {} batches of size {} completed".format(
            len(present), self.nb, self.batchsize
        ) in s, s

        # what is true on disk
        assert listing(crop, "batches") == sorted(
            BTCH_NM.format(i) for i in range(1, self.nb + 1)
        )
        assert listing(crop, "results") == sorted(
            RSLT_NM.format(i) for i in present
        ), (listing(crop, "results"), present)
        for i in range(1, self.nb + 1):
            with open(
                os.path.join(crop.location, "batches", BTCH_NM.format(i)), "rb"
            ) as f:
                assert pickle.load(f) == [
                    {"a": a} for a in self.batch_cases(i)
                ]
        for i in good:
            with open(
                os.path.join(crop.location, "results", RSLT_NM.format(i)), "rb"
            ) as f:
                assert pickle.load(f) == self.results[i]
        # nothing else left behind
        assert sorted(os.listdir(crop.location)) == [
            "batches",
            "results",
            "xyz-function.clpkl",
            "xyz-settings.jbdmp",
        ]

    # ------------------------------------------------------------------ #

    def op_sow(self, rng):
        # first sow, or re-sow with the same shape: results are kept
        quiet(self.crop.sow_combos, {"a": range(self.n)}, verbosity=0)
        self.sown = True

    def op_reload(self, rng):
        self.crop = self.new_crop(with_fn=rng.random() < 0.5 or not self.sown)

    def op_grow_one(self, rng):
        if not self.sown:
            return
        i = rng.randint(1, self.nb)
        quiet(self.crop.grow, i)
        self.results[i] = self.expected(i)

    def op_grow_subset(self, rng):
        if not self.sown:
            return
        ids = [i for i in range(1, self.nb + 1) if rng.random() < 0.5]
        rng.shuffle(ids)
        quiet(self.crop.grow, tuple(ids))
        for i in ids:
            self.results[i] = self.expected(i)

    def op_grow_missing(self, rng):
        if not self.sown:
            return
        before = self.crop.missing_results()
        mtimes = {
            f: os.stat(f).st_mtime_ns
            for f in glob.glob(os.path.join(self.crop.location, "results", "*"))
        }
        quiet(self.crop.grow_missing)
        for i in before:
            self.results[i] = self.expected(i)
        # exactly the missing ones were grown: the others are untouched
        for f, t in mtimes.items():
            assert os.stat(f).st_mtime_ns == t
        assert self.crop.missing_results() == ()
        assert self.crop.is_ready_to_reap() is True

    def op_grow_failing(self, rng):
        if not self.sown:
            return
        bad = {a for a in range(self.n) if rng.random() < 0.3}
        fn = make_failing_fn(bad)
        ids = [i for i in range(1, self.nb + 1) if rng.random() < 0.6]
        for i in ids:
            fails = any(a in bad for a in self.batch_cases(i))
            try:
                quiet(cropping.grow, i, crop=self.crop, fn=fn, verbosity=0)
            except Boom as e:
                assert fails
                assert e.args[0] == min(
                    a for a in self.batch_cases(i) if a in bad
                )
                # a failed grow records nothing (and clobbers nothing)
            else:
                assert not fails
                self.results[i] = self.expected(i)

    def op_delete(self, rng):
        if not self.results:
            return
        i = rng.choice(sorted(self.results))
        os.remove(os.path.join(self.crop.location, "results", RSLT_NM.format(i)))
        del self.results[i]

    def op_damage(self, rng):
        if not self.results:
            return
        i = rng.choice(sorted(self.results))
        fname = os.path.join(self.crop.location, "results", RSLT_NM.format(i))
        if rng.random() < 0.5:
            with open(fname, "wb") as f:
                f.write(b"\x80\x04not a pickle")
            self.results[i] = "corrupt"
        else:
            with open(fname, "wb") as f:
                pickle.dump(self.expected(i) + (0,), f)
            self.results[i] = "short"

    def op_check_bad(self, rng):
        if not self.sown:
            return
        delete_bad = rng.random() < 0.6
        bad_model = {i for i, r in self.results.items() if isinstance(r, str)}
        bad, out = quiet(self.crop.check_bad, delete_bad=delete_bad)
        assert isinstance(bad, tuple)
        assert all(isinstance(b, str) for b in bad)
        assert sorted(int(b) for b in bad) == sorted(bad_model), (
            bad,
            bad_model,
        )
        lines = out.splitlines()
        assert len(lines) == len(bad)
        for b, line in zip(bad, lines):
            fname = os.path.join(
                self.crop.location, "results", RSLT_NM.format(b)
            )
            head = "result {} is bad".format(fname)
            head += " - deleting it." if delete_bad else "."
            assert line.startswith(head), (line, head)
            rest = line[len(head):]
            if self.results[int(b)] == "corrupt":
                assert rest.startswith(" Error was: "), line
            else:
                assert rest == "", line
        if delete_bad:
            for i in bad_model:
                del self.results[i]

    def op_query(self, rng):
        self.check()


OPS = [
    "sow",
    "sow",
    "reload",
    "grow_one",
    "grow_one",
    "grow_subset",
    "grow_missing",
    "grow_failing",
    "delete",
    "damage",
    "check_bad",
    "query",
]


def random_sequences(num, seed):
    rng = random.Random(seed)
    for k in range(num):
        parent = tempfile.mkdtemp(prefix="c08t1-")
        try:
            nb = 1 + k % 8
            batchsize = rng.choice([1, 2, 3])
            n = nb * batchsize - rng.randrange(batchsize)
            m = Model(parent, n, batchsize)
            assert m.nb == nb
            m.check()
            if rng.random() < 0.85:
                m.op_sow(rng)
                m.check()
            for _ in range(12):
                op = rng.choice(OPS)
                getattr(m, "op_" + op)(rng)
                m.check()
        finally:
            shutil.rmtree(parent, ignore_errors=True)


def edge_cases():
    parent = tempfile.mkdtemp(prefix="c08t1-")
    try:
        # unprepared crop without any batch information
        crop = Crop(name="nothing", parent_dir=parent)
        assert crop.num_results == -1 and crop.num_sown_batches == -1
        assert crop.is_ready_to_reap() is False
        try:
            crop.missing_results()
        except TypeError:
            pass
        else:
            raise AssertionError("expected TypeError")
        # ... check_bad on it just finds nothing
        assert quiet(crop.check_bad) == ((), "")
        assert not os.path.exists(crop.location)

        # stale in-memory progress is always refreshed from disk
        crop = Crop(fn=good_fn, name="edge", parent_dir=parent, num_batches=3)
        quiet(crop.sow_combos, {"a": range(7)}, verbosity=0)
        other = Crop(name="edge", parent_dir=parent)
        assert (other.num_batches, other.batchsize) == (3, 2)
        assert other._batch_remainder == 1
        assert crop.missing_results() == (1, 2, 3)
        assert crop.is_ready_to_reap() is False
        quiet(other.grow, (3, 1))
        assert crop.missing_results() == (2,)
        assert crop.num_results == 2
        assert crop.is_ready_to_reap() is False
        quiet(other.grow_missing)
        assert crop.is_ready_to_reap() is True
        assert crop.missing_results() == ()
        with open(
            os.path.join(crop.location, "results", RSLT_NM.format(1)), "rb"
        ) as f:
            assert pickle.load(f) == (1, 11, 21)

        # results present with a batch file removed: ready means *counts*
        # agree, missing_results goes by the result files
        os.remove(os.path.join(crop.location, "batches", BTCH_NM.format(2)))
        assert crop.num_sown_batches == 2
        assert crop.num_results == 3
        assert crop.is_ready_to_reap() is False
        assert crop.missing_results() == ()
        # and check_bad needs the batch file of every result
        try:
            quiet(crop.check_bad)
        except FileNotFoundError:
            pass
        else:
            raise AssertionError("expected FileNotFoundError")
        os.remove(os.path.join(crop.location, "results", RSLT_NM.format(2)))
        assert crop.is_ready_to_reap() is True
        assert crop.missing_results() == (2,)
        assert quiet(crop.check_bad) == ((), "")

        # settings removed: no longer prepared, progress is -1 again
        os.remove(os.path.join(crop.location, "xyz-settings.jbdmp"))
        assert crop.num_results == -1 and crop.num_sown_batches == -1
        assert crop.is_ready_to_reap() is False
        # `missing_results` then goes by the remembered number of batches
        assert crop.missing_results() == (2,)
        try:
            crop.load_info()
        except XYZError:
            pass
        else:
            raise AssertionError("expected XYZError")

        # a crop whose function can't be found can't report progress
        crop = Crop(fn=good_fn, name="nofn", parent_dir=parent, batchsize=2)
        quiet(crop.sow_combos, {"a": range(4)}, verbosity=0)
        os.remove(os.path.join(crop.location, "xyz-function.clpkl"))
        assert crop.num_results == 0  # has its function in memory
        try:
            Crop(name="nofn", parent_dir=parent)
        except FileNotFoundError:
            pass
        else:
            raise AssertionError("expected FileNotFoundError")
        blank = Crop(name="nofn", parent_dir=parent, autoload=False)
        for q in (
            blank.calc_progress,
            blank.is_ready_to_reap,
            blank.missing_results,
            lambda: blank.num_results,
            lambda: blank.num_sown_batches,
        ):
            try:
                q()
            except FileNotFoundError:
                pass
            else:
                raise AssertionError("expected FileNotFoundError")

        # check_bad with a two digit batch number, both kinds of damage,
        # reporting only
        crop = Crop(fn=good_fn, name="many", parent_dir=parent, batchsize=1)
        quiet(crop.sow_combos, {"a": range(12)}, verbosity=0)
        quiet(crop.grow_missing)
        assert crop.is_ready_to_reap() is True
        f12 = os.path.join(crop.location, "results", RSLT_NM.format(12))
        f3 = os.path.join(crop.location, "results", RSLT_NM.format(3))
        with open(f12, "wb") as f:
            pickle.dump((1, 2), f)
        with open(f3, "wb") as f:
            f.write(b"junk")
        bad, out = quiet(crop.check_bad, delete_bad=False)
        assert sorted(bad) == ["12", "3"], bad
        assert "result {} is bad.\n".format(f12) in out, out
        assert "result {} is bad. Error was: ".format(f3) in out, out
        assert crop.num_results == 12 and crop.is_ready_to_reap() is True
        bad, out = quiet(crop.check_bad)
        assert sorted(bad) == ["12", "3"], bad
        assert "result {} is bad - deleting it.\n".format(f12) in out, out
        assert "result {} is bad - deleting it. Error was: ".format(f3) in out
        assert crop.num_results == 10
        assert crop.missing_results() == (3, 12)
        assert crop.is_ready_to_reap() is False
        assert quiet(crop.check_bad) == ((), "")
        quiet(crop.grow_missing)
        assert crop.is_ready_to_reap() is True
        assert quiet(crop.check_bad) == ((), "")
    finally:
        shutil.rmtree(parent, ignore_errors=True)


def main():
    edge_cases()
    random_sequences(96, seed=8)
    print("PASS")


if __name__ == "__main__":
    main()
