"""Demo for property C11: concurrent growers and a waiting reaper agree.

Run as ``cd <worktree> && /venv/bin/python /path/to/demo.py``.  Exits 0 and
prints PASS when every check holds.
"""
import sys
import os

sys.path.insert(0, os.getcwd())

import io
import glob
import math
import time
import shutil
import pickle
import tempfile
import threading
import contextlib
import multiprocessing

import numpy as np

import xyzpy
from xyzpy.gen import cropping
from xyzpy.gen.cropping import Crop, Reaper, XYZError, grow
from xyzpy.gen.combo_runner import combo_runner

assert os.path.dirname(os.path.dirname(os.path.abspath(xyzpy.__file__))) == (
    os.path.abspath(os.getcwd())
), xyzpy.__file__

CHECKS = [0]


def check(cond, msg=""):
    CHECKS[0] += 1
    if not cond:
        raise AssertionError(msg)


def raises(exc, fn, *args, **kwargs):
    try:
        fn(*args, **kwargs)
    except exc as e:
        CHECKS[0] += 1
        return e
    raise AssertionError("{} not raised".format(exc))


# ------------------------------ the functions ------------------------------ #


def plain(a, b):
    return 10.0 * a + b


GATES = {}


class Gate(object):
    """Lets the main thread hold a grower in the middle of its write."""

    def __init__(self):
        self.started = threading.Event()
        self.release = threading.Event()


class SlowFloat(float):
    """A float that pickles as a plain float, but whose pickling can be held
    up by a gate - i.e. the file it is written to stays partially written.
    """

    def __reduce__(self):
        # NB: looked up through ``sys.modules`` - cloudpickle stores this
        # class by value and on loading re-binds its methods to a *copy* of
        # the module globals
        gates = sys.modules["__main__"].GATES
        gate = gates.get((threading.get_ident(), float(self)))
        if gate is not None:
            gate.started.set()
            if not gate.release.wait(60):
                raise RuntimeError("gate never released")
        return (float, (float(self),))


def slow(a, b):
    return SlowFloat(10.0 * a + b)


def quiet(_f, *args, **kwargs):
    """Call and capture what is printed (only ever used in the main thread,
    progress bars on stderr are silenced globally in ``main``)."""
    out = io.StringIO()
    with contextlib.redirect_stdout(out):
        res = _f(*args, **kwargs)
    return res, out.getvalue()


COMBOS = {"a": [1, 2, 3], "b": [1, 2]}
EXPECTED = combo_runner(plain, COMBOS, verbosity=0)
check(EXPECTED == ((11.0, 12.0), (21.0, 22.0), (31.0, 32.0)))


def listing(crop, sub):
    return sorted(os.listdir(os.path.join(crop.location, sub)))


def result_names(ns):
    return ["xyz-result-{}.jbdmp".format(i) for i in ns]


def new_crop(tmp, name, fn=slow, **kwargs):
    crop = Crop(fn=fn, name=name, parent_dir=tmp, **kwargs)
    return crop


# ------------------------- bookkeeping, no growers ------------------------- #


def part_bookkeeping(tmp):
    crop = new_crop(tmp, "book[1]*", fn=plain)
    # nothing on disk yet
    check(not crop.is_prepared())
    crop.calc_progress()
    check((crop._num_sown_batches, crop._num_results) == (-1, -1))
    check(crop.num_results == -1 and crop.num_sown_batches == -1)
    check(not crop.is_ready_to_reap())
    check("Not yet sown" in str(crop))
    raises(XYZError, crop.reap)
    raises(XYZError, crop.load_info)

    crop.sow_combos(COMBOS, batchsize=2, verbosity=0)
    check(crop.is_prepared())
    check(listing(crop, "batches") == [
        "xyz-batch-1.jbdmp", "xyz-batch-2.jbdmp", "xyz-batch-3.jbdmp"])
    check(listing(crop, "results") == [])
    check(crop.num_sown_batches == 3 and crop.num_results == 0)
    check(crop.missing_results() == (1, 2, 3))
    check(not crop.is_ready_to_reap())
    e = raises(XYZError, crop.reap)
    check("not ready to reap" in str(e))
    e = raises(XYZError, lambda: crop.all_nan_result)
    check("at least one finished result" in str(e))
    e = raises(XYZError, crop.reap, allow_incomplete=True)
    check("at least one finished result" in str(e))
    check("0 / 3 batches of size 2 completed" in str(crop))
    check(crop.check_bad() == ())

    # files which only look a bit like results are never counted
    rdir = os.path.join(crop.location, "results")
    for nm in ["xyz-result-2.jbdmp.123-abc.tmp", "xyz-result-.jbdmp.tmp",
               "other.txt"]:
        with open(os.path.join(rdir, nm), "wb") as f:
            f.write(b"\x80")
    check(crop.num_results == 0)
    check(crop.missing_results() == (1, 2, 3))
    check(not crop.is_ready_to_reap())
    raises(XYZError, lambda: crop.all_nan_result)
    check(crop.check_bad() == ())
    for nm in os.listdir(rdir):
        os.remove(os.path.join(rdir, nm))

    quiet(crop.grow, 2)
    check(listing(crop, "results") == result_names([2]))
    check(crop.num_results == 1 and crop.num_sown_batches == 3)
    check(crop.missing_results() == (1, 3))
    check(not crop.is_ready_to_reap())
    check("1 / 3 batches of size 2 completed" in str(crop))
    raises(XYZError, crop.reap)
    nan = crop.all_nan_result
    check(isinstance(nan, float) and math.isnan(nan))
    check(crop.all_nan_result is nan)
    res = crop.reap(allow_incomplete=True)
    check(os.path.isdir(crop.location))
    flat = [x for row in res for x in row]
    check(flat[2:4] == [21.0, 22.0])
    check(all(x is nan for x in flat[:2] + flat[4:]))

    # a second crop object pointing at the same place agrees
    other = Crop(name="book[1]*", parent_dir=tmp)
    check(other.num_results == 1 and other.missing_results() == (1, 3))
    check(other.batchsize == 2 and other.num_batches == 3)

    # a directory in place of a result: counted as existing, never loadable
    os.mkdir(os.path.join(rdir, "xyz-result-1.jbdmp"))
    check(crop.num_results == 2)
    check(crop.missing_results() == (1, 3))
    e = raises(ValueError, crop.reap, wait=True, clean_up=False)
    check("is not a file" in str(e))
    os.rmdir(os.path.join(rdir, "xyz-result-1.jbdmp"))

    # an empty result is refused
    cropping.write_to_disk((), os.path.join(rdir, "xyz-result-1.jbdmp"))
    e = raises(ValueError, crop.reap, wait=True, clean_up=False)
    check("contains no data" in str(e))
    e = raises(ValueError, crop.reap, allow_incomplete=True)
    check("contains no data" in str(e))
    bad, out = quiet(crop.check_bad, delete_bad=False)
    check(bad == ("1",) and "is bad." in out and "deleting" not in out)
    check(listing(crop, "results") == result_names([1, 2]))
    _, out = quiet(crop.check_bad)
    check("deleting it" in out)
    check(listing(crop, "results") == result_names([2]))

    quiet(crop.grow_missing)
    check(listing(crop, "results") == result_names([1, 2, 3]))
    check(crop.is_ready_to_reap())
    check(crop.missing_results() == ())
    check("3 / 3 batches of size 2 completed" in str(crop))
    check("100.0%" in str(crop))
    res = crop.reap(clean_up=False)
    check(res == EXPECTED)
    res = crop.reap(wait=True)
    check(res == EXPECTED)
    check(not os.path.exists(crop.location))
    check("already reaped" in str(crop))
    crop.calc_progress()
    check((crop._num_sown_batches, crop._num_results) == (-1, -1))


# ------------------------ the free function ``grow`` ----------------------- #


def part_grow_function(tmp):
    crop = new_crop(tmp, "free", fn=plain)
    crop.sow_combos(COMBOS, num_batches=3, verbosity=0)

    # outside of a crop folder, without a crop
    e = raises(XYZError, grow, 1)
    check("should be run in" in str(e))

    # inside of the crop folder, without a crop
    cwd = os.getcwd()
    os.chdir(crop.location)
    try:
        _, out = quiet(grow, 1, verbosity=1)
    finally:
        os.chdir(cwd)
    check("loaded batch 1 of free." in out)
    check("success - batch 1 completed." in out)
    check(listing(crop, "results") == result_names([1]))

    _, out = quiet(grow, 2, crop=crop, verbosity=2, debugging=False)
    check("loaded batch 2 of free." in out)
    _, out = quiet(grow, 2, crop=crop, verbosity=0)
    check(out == "")
    check(listing(crop, "results") == result_names([1, 2]))

    # ranks other than the first never write
    for var, rank, written in [
        ("OMPI_COMM_WORLD_RANK", "1", False),
        ("PMI_RANK", "2", False),
        ("PMI_RANK", "0", True),
    ]:
        os.environ[var] = rank
        try:
            _, out = quiet(grow, 3, crop=crop, verbosity=1)
            check("detected mpi rank {}.".format(rank) in out)
            check("success - batch 3 completed." in out)
            check((result_names([3])[0] in listing(crop, "results"))
                  == written)
            if written:
                os.remove(os.path.join(crop.location, "results",
                                       result_names([3])[0]))
            _, out = quiet(grow, 3, crop=crop, verbosity=1, check_mpi=False)
            check("detected mpi" not in out)
            check(result_names([3])[0] in listing(crop, "results"))
            os.remove(os.path.join(crop.location, "results",
                                   result_names([3])[0]))
        finally:
            del os.environ[var]
    os.environ["OMPI_COMM_WORLD_RANK"] = "0"
    os.environ["PMI_RANK"] = "5"
    try:
        _, out = quiet(grow, 3, crop=crop, verbosity=1)
        check("detected mpi rank 0." in out)
    finally:
        del os.environ["OMPI_COMM_WORLD_RANK"]
        del os.environ["PMI_RANK"]
    check(listing(crop, "results") == result_names([1, 2, 3]))

    # growing with a pool of workers gives the very same file
    fl2 = os.path.join(crop.location, "results", result_names([2])[0])
    with open(fl2, "rb") as f:
        sequential = f.read()
    os.remove(fl2)
    _, out = quiet(grow, 2, crop=crop, num_workers=2, verbosity=1)
    check("success - batch 2 completed." in out)
    with open(fl2, "rb") as f:
        check(f.read() == sequential)
    check(listing(crop, "results") == result_names([1, 2, 3]))

    # explicitly supplied function is used instead of the one on disk
    quiet(grow, 3, crop=crop, fn=lambda a, b: -1.0, verbosity=0)
    check(cropping.read_from_disk(
        os.path.join(crop.location, "results", result_names([3])[0])
    ) == (-1.0, -1.0))
    quiet(grow, 3, crop=crop, verbosity=0)

    # an empty batch is refused, nothing is written for it
    cropping.write_to_disk(
        [], os.path.join(crop.location, "batches", "xyz-batch-4.jbdmp"))
    e = raises(ValueError, lambda: quiet(grow, 4, crop=crop))
    check("loading of batch xyz-batch-4.jbdmp for the crop at" in str(e))
    check(listing(crop, "results") == result_names([1, 2, 3]))
    os.remove(os.path.join(crop.location, "batches", "xyz-batch-4.jbdmp"))
    # a missing batch too
    raises(FileNotFoundError, lambda: quiet(grow, 7, crop=crop))
    check(listing(crop, "results") == result_names([1, 2, 3]))

    # a failing function leaves no trace
    def boom(a, b):
        raise RuntimeError("boom")
    raises(RuntimeError, lambda: quiet(grow, 1, crop=crop, fn=boom))
    check(listing(crop, "results") == result_names([1, 2, 3]))

    # exact content of the files, no temporaries left behind
    for i, row in enumerate(EXPECTED):
        fl = os.path.join(crop.location, "results", result_names([i + 1])[0])
        with open(fl, "rb") as f:
            check(f.read() == pickle.dumps(tuple(row)))
    check(crop.reap(wait=True) == EXPECTED)

    # the Reaper itself: lazily loading, complaining about left-overs
    crop = new_crop(tmp, "reaper", fn=plain)
    crop.sow_combos(COMBOS, batchsize=4, verbosity=0)
    check(crop.num_sown_batches == 2)
    quiet(crop.grow, (1, 2))
    with Reaper(crop, num_batches=2, wait=True) as r:
        got = [r(x=1) for _ in range(6)]
    check(got == [11.0, 12.0, 21.0, 22.0, 31.0, 32.0])
    with Reaper(crop, num_batches=2) as r:
        got = [r() for _ in range(6)]
    check(got == [11.0, 12.0, 21.0, 22.0, 31.0, 32.0])

    def partial_reap():
        with Reaper(crop, num_batches=2) as r:
            r()
    raises(XYZError, partial_reap)
    os.remove(os.path.join(crop.location, "results", result_names([1])[0]))
    with Reaper(crop, num_batches=2, default_result=None) as r:
        got = [r() for _ in range(6)]
    check(got == [None] * 4 + [31.0, 32.0])
    with Reaper(crop, num_batches=2) as r:
        raises(FileNotFoundError, r)
        raises(StopIteration, r)
    crop.delete_all()


# ------------- growers held in the middle of writing a result -------------- #


def in_thread(fn, *args, **kwargs):
    box = {}

    def target():
        try:
            box["res"] = fn(*args, **kwargs)
        except BaseException as e:  # noqa
            box["err"] = e

    t = threading.Thread(target=target, daemon=True)
    t.box = box
    t.start()
    return t


def gated_grower(crop, batch, value, **opts):
    """Start growing ``batch`` and hold it while it writes ``value``."""
    gate = Gate()
    ready = threading.Event()

    def target():
        GATES[(threading.get_ident(), value)] = gate
        ready.set()
        # (the function stored on disk is a by-value copy which would not
        # see the gates of this module, so the original is handed over)
        grow(batch, crop=crop, fn=slow, verbosity=0, **opts)

    t = in_thread(target)
    check(ready.wait(30))
    if not gate.started.wait(30):
        raise AssertionError(
            "grower never started writing: {}".format(t.box))
    t.gate = gate
    return t


def finish(t):
    if hasattr(t, "gate"):
        t.gate.release.set()
    t.join(60)
    check(not t.is_alive())
    if "err" in t.box:
        raise t.box["err"]
    return t.box["res"]


def part_held_writers(tmp, num_batches, wait_farmer):
    name = "held-{}-{}".format(num_batches, wait_farmer)
    if wait_farmer:
        runner = xyzpy.Runner(slow, var_names=["out"])
        crop = runner.Crop(name=name, parent_dir=tmp)
        expected_ds = xyzpy.Runner(plain, var_names=["out"]).run_combos(
            COMBOS, verbosity=0)
    else:
        crop = new_crop(tmp, name)
    crop.sow_combos(COMBOS, num_batches=num_batches, verbosity=0)
    bsz = 6 // num_batches
    flat = [x for row in EXPECTED for x in row]
    first_of = {i + 1: flat[i * bsz] for i in range(num_batches)}
    last_of = {i + 1: flat[i * bsz + bsz - 1] for i in range(num_batches)}

    reaper = in_thread(crop.reap, wait=True)
    poll_crop = Crop(name=name, parent_dir=tmp)

    done = []
    for b in range(1, num_batches + 1):
        # hold the writer of batch ``b`` part way through its file: for odd
        # batches on the first item, for even ones on the last
        value = first_of[b] if b % 2 else last_of[b]
        t = gated_grower(crop, b, value)
        names = listing(crop, "results")
        tmps = [n for n in names if n.endswith(".tmp")]
        check(len(tmps) == 1, names)
        check(tmps[0].startswith(
            "xyz-result-{}.jbdmp.{}-".format(b, os.getpid())))
        check([n for n in names if not n.endswith(".tmp")]
              == result_names(done))
        for c in (crop, poll_crop):
            check(c.num_results == len(done))
            check(c.num_sown_batches == num_batches)
            check(c.missing_results()
                  == tuple(range(b, num_batches + 1)))
            check(not c.is_ready_to_reap())
            check("{} / {} batches".format(len(done), num_batches)
                  in str(c))
            check(c.check_bad() == ())
            raises(XYZError, c.reap_combos)
        check(listing(crop, "results") == names)
        check(reaper.is_alive())
        if done:
            part = poll_crop.reap_combos(allow_incomplete=True)
            pflat = [x for row in part for x in row]
            n = len(done) * bsz
            check(pflat[:n] == flat[:n])
            check(all(isinstance(x, float) and math.isnan(x)
                      for x in pflat[n:]))
        else:
            raises(XYZError, poll_crop.reap_combos, allow_incomplete=True)
        # the same batch grown again, to completion, meanwhile
        if b == 2:
            quiet(crop.grow, b)
            check(poll_crop.num_results == len(done) + 1)
            check(b not in poll_crop.missing_results())
            check(cropping.read_from_disk(os.path.join(
                crop.location, "results", result_names([b])[0]))
                == tuple(flat[(b - 1) * bsz:b * bsz]))
        if b == num_batches and b != 2:
            time.sleep(0.5)
            check(reaper.is_alive())
        if b == num_batches and b == 2:
            # the reaper finishes (and clears the crop) under the held writer
            res = finish(reaper)
            check(not os.path.exists(crop.location))
            raises(FileNotFoundError, finish, t)
        else:
            finish(t)
            done.append(b)
            check(poll_crop.num_results == len(done)
                  or not os.path.exists(crop.location))
    if reaper.is_alive() or "res" in reaper.box:
        res = finish(reaper)
    if wait_farmer:
        check(res.identical(expected_ds), res)
    else:
        check(res == EXPECTED, res)
        check(all(type(x) is float for row in res for x in row))
    check(not os.path.exists(crop.location))


def part_same_batch_twice(tmp):
    crop = new_crop(tmp, "twice")
    crop.sow_combos(COMBOS, num_batches=1, verbosity=0)
    flat = tuple(x for row in EXPECTED for x in row)
    fl = os.path.join(crop.location, "results", result_names([1])[0])

    t1 = gated_grower(crop, 1, flat[0])
    t2 = gated_grower(crop, 1, flat[3])
    names = listing(crop, "results")
    check(len(names) == 2 and all(n.endswith(".tmp") for n in names))
    check(len(set(names)) == 2)
    check(crop.num_results == 0 and crop.missing_results() == (1,))
    reaper = in_thread(crop.reap, wait=True, clean_up=False)
    time.sleep(0.5)
    check(reaper.is_alive())
    finish(t2)
    check(finish(reaper) == EXPECTED)
    check(crop.num_results == 1 and crop.is_ready_to_reap())
    check(len(listing(crop, "results")) == 2)
    with open(fl, "rb") as f:
        before = f.read()
    finish(t1)
    with open(fl, "rb") as f:
        check(f.read() == before)
    check(pickle.loads(before) == flat)
    check(listing(crop, "results") == result_names([1]))
    check(crop.reap() == EXPECTED)
    check(not os.path.exists(crop.location))


# ----------------------- free running real processes ----------------------- #


def _proc_grow(parent, name, batches, delay):
    sys.stdout = open(os.devnull, "w")
    sys.stderr = open(os.devnull, "w")
    crop = Crop(name=name, parent_dir=parent)
    for b in batches:
        time.sleep(delay)
        grow(b, crop=crop, verbosity=0)


def part_processes(tmp, num_batches, assignment, seed):
    ctx = multiprocessing.get_context("fork")
    name = "procs-{}-{}".format(num_batches, seed)
    combos = {"a": list(range(1, 7)), "b": list(range(20))}
    expected = combo_runner(plain, combos, verbosity=0)
    crop = new_crop(tmp, name, fn=plain)
    crop.sow_combos(combos, num_batches=num_batches, verbosity=0)
    sizes = {}
    for b in range(1, num_batches + 1):
        sizes[b] = len(cropping.read_from_disk(os.path.join(
            crop.location, "batches", "xyz-batch-{}.jbdmp".format(b))))

    reaper = in_thread(crop.reap, wait=True, clean_up=False)
    rng = np.random.RandomState(seed)
    procs = [
        ctx.Process(target=_proc_grow,
                    args=(tmp, name, bs, float(rng.uniform(0, 0.02))))
        for bs in assignment
    ]
    for p in procs:
        p.start()

    poll_crop = Crop(name=name, parent_dir=tmp)
    last = 0
    rpat = os.path.join(glob.escape(crop.location), "results", "*.jbdmp")
    while True:
        alive = any(p.is_alive() for p in procs)
        visible = glob.glob(rpat)
        n = poll_crop.num_results
        check(last <= n <= num_batches)
        check(n >= len(visible))
        last = n
        missing = poll_crop.missing_results()
        for fl in visible:
            b = int(os.path.basename(fl)[len("xyz-result-"):-len(".jbdmp")])
            check(b not in missing)
            check(len(cropping.read_from_disk(fl)) == sizes[b])
        if poll_crop.is_ready_to_reap():
            check(poll_crop.num_results == num_batches)
        if not alive:
            break
    for p in procs:
        p.join()
        check(p.exitcode == 0)
    check(finish(reaper) == expected)
    check(poll_crop.num_results == num_batches)
    check(poll_crop.missing_results() == ())
    check(listing(crop, "results")
          == sorted(result_names(range(1, num_batches + 1))))
    check(crop.check_bad() == ())
    check(crop.reap() == expected)
    check(not os.path.exists(crop.location))


def main():
    tmp = tempfile.mkdtemp(prefix="xyz-c11-demo-")
    real_stderr = sys.stderr
    sys.stderr = open(os.devnull, "w")
    try:
        part_bookkeeping(tmp)
        part_grow_function(tmp)
        for num_batches in (1, 2, 3):
            part_held_writers(tmp, num_batches, False)
        part_held_writers(tmp, 3, True)
        part_same_batch_twice(tmp)
        part_processes(tmp, 1, [[1], [1]], 0)
        part_processes(tmp, 2, [[1, 2], [2, 1]], 1)
        part_processes(tmp, 3, [[1], [2], [3]], 2)
        part_processes(tmp, 3, [[1, 2, 3], [3, 2, 1], [2, 3, 1]], 3)
        check(os.listdir(tmp) == [], os.listdir(tmp))
    finally:
        sys.stderr.close()
        sys.stderr = real_stderr
        shutil.rmtree(tmp, ignore_errors=True)
    print("PASS ({} checks)".format(CHECKS[0]))


if __name__ == "__main__":
    main()
