"""Demo for the C08 twin t7 (settings sync, Sower batch sizes, grow helpers).

Run as:  cd <worktree> && /venv/bin/python /path/to/demo.py

Drives crops of 1..8 batches through random sequences of sow / re-sow /
grow / grow subset / grow_missing / failing grow / delete result /
check_bad / reload / query, and after every step compares everything the
crop reports against a model and against the files really on disk.
"""
import os
import sys

sys.path.insert(0, os.getcwd())

import glob
import pickle
import random
import shutil
import tempfile

import xyzpy
from xyzpy.gen import cropping
from xyzpy.gen.farming import XYZError

assert os.path.dirname(os.path.abspath(xyzpy.__file__)).startswith(
    os.getcwd()
), xyzpy.__file__


class Boom(Exception):
    pass


def make_fn(version, bad=()):
    bad = tuple(bad)

    def fn(a):
        if a in bad:
            raise Boom(a)
        return (version, a, a * a)

    return fn


def listing(crop, sub):
    return sorted(os.listdir(os.path.join(crop.location, sub)))


def chunks(n_batches, batchsize, remainder, n):
    """Settings (values of ``a``) expected in every batch."""
    out, start = {}, 0
    for i in range(1, n_batches + 1):
        size = batchsize + (1 if (i - 1) < remainder else 0)
        out[i] = list(range(start, min(start + size, n)))
        start += size
    assert start >= n
    return {i: v for i, v in out.items() if v}


class Model:
    """What must be true on disk."""

    def __init__(self):
        self.batches = {}  # id -> list of a
        self.results = {}  # id -> expected tuple of results (or 'BAD')


def check_state(crop, model, where):
    nb = len(model.batches)
    want_batches = sorted("xyz-batch-{}.jbdmp".format(i) for i in model.batches)
    want_results = sorted("xyz-result-{}.jbdmp".format(i) for i in model.results)
    assert listing(crop, "batches") == want_batches, (where, listing(crop, "batches"))
    assert listing(crop, "results") == want_results, (where, listing(crop, "results"))
    # no temporary files, nothing else in the crop directory
    assert sorted(os.listdir(crop.location)) == sorted(
        ["batches", "results", "xyz-settings.jbdmp", "xyz-function.clpkl"]
    ), (where, os.listdir(crop.location))

    for i, a_s in model.batches.items():
        with open(os.path.join(crop.location, "batches", "xyz-batch-{}.jbdmp".format(i)), "rb") as f:
            assert pickle.load(f) == [{"a": a} for a in a_s], (where, i)
    for i, res in model.results.items():
        if isinstance(res, tuple):
            with open(os.path.join(crop.location, "results", "xyz-result-{}.jbdmp".format(i)), "rb") as f:
                got = pickle.load(f)
            assert got == res and isinstance(got, tuple), (where, i, got, res)

    missing = tuple(i for i in range(1, nb + 1) if i not in model.results)
    assert crop.num_sown_batches == nb, (where, crop.num_sown_batches, nb)
    assert crop.num_results == len(model.results), where
    assert crop._num_sown_batches == nb and crop._num_results == len(model.results)
    got_missing = crop.missing_results()
    assert got_missing == missing and isinstance(got_missing, tuple), (where, got_missing, missing)
    ready = crop.is_ready_to_reap()
    assert ready is (len(missing) == 0 and nb > 0), (where, ready, missing)
    assert crop.is_prepared() is True
    assert crop.num_batches == nb, (where, crop.num_batches, nb)

    text = str(crop)
    assert "{} / {} batches of size {} completed".format(
        len(model.results), nb, crop.batchsize
    ) in text, (where, text)
    pct = 100 * len(model.results) / nb
    assert ": {:.1f}%".format(pct) in text, (where, text)
    assert "[" + "#" * int(pct * 20 / 100) + " " * (20 - int(pct * 20 / 100)) + "]" in text


def sow(crop, model, n, version, keep_results, **opts):
    crop.fn = make_fn(version)
    crop.sow_combos({"a": list(range(n))}, verbosity=0, **opts)
    model.batches = chunks(crop.num_batches, crop.batchsize, crop._batch_remainder, n)
    assert len(model.batches) == crop.num_batches
    if not keep_results:
        model.results = {}


def expected_result(model, i, version):
    return tuple((version, a, a * a) for a in model.batches[i])


def run_sequence(rng, tmp, seq_no):
    n_batches = rng.randint(1, 8)
    per = rng.randint(1, 3)
    n = n_batches * per - (rng.randint(0, per - 1) if n_batches > 1 else 0)
    n = max(n, n_batches)
    name = "seq{}".format(seq_no)
    version = 0
    model = Model()

    crop = xyzpy.Crop(name=name, parent_dir=tmp, fn=make_fn(version))
    # before any sow nothing is reported
    assert crop.is_prepared() is False
    assert crop.num_sown_batches == -1 and crop.num_results == -1
    assert crop.is_ready_to_reap() is False
    assert "Not yet sown" in str(crop)
    try:
        crop.missing_results()
    except TypeError:
        pass
    else:
        raise AssertionError("missing_results of an unsown crop")

    if rng.random() < 0.5:
        sow(crop, model, n, version, False, num_batches=n_batches)
    else:
        sow(crop, model, n, version, False, batchsize=per)
    check_state(crop, model, (seq_no, "sow"))
    nb = len(model.batches)

    ops = ["resow", "grow", "subset", "grow_missing", "fail", "delete",
           "check_bad", "reload", "query", "corrupt"]
    for step in range(rng.randint(4, 12)):
        op = rng.choice(ops)
        where = (seq_no, step, op)
        if op == "resow":
            version += 1
            sow(crop, model, n, version, True)
            assert len(model.batches) == nb
        elif op == "grow":
            i = rng.randint(1, nb)
            if rng.random() < 0.5:
                crop.grow(i)
            else:
                cropping.grow(i, crop=crop, verbosity=0)
            model.results[i] = expected_result(model, i, version)
        elif op == "subset":
            ids = rng.sample(range(1, nb + 1), rng.randint(0, nb))
            crop.grow(tuple(ids))
            for i in ids:
                model.results[i] = expected_result(model, i, version)
        elif op == "grow_missing":
            before = dict(model.results)
            stamps = {
                f: os.stat(os.path.join(crop.location, "results", f)).st_mtime_ns
                for f in listing(crop, "results")
            }
            crop.grow_missing()
            for i in range(1, nb + 1):
                if i not in before:
                    model.results[i] = expected_result(model, i, version)
            # results that existed were not rewritten
            for f, t in stamps.items():
                assert os.stat(os.path.join(crop.location, "results", f)).st_mtime_ns == t, where
            check_state(crop, model, where)
            assert crop.is_ready_to_reap() is True and crop.missing_results() == ()
        elif op == "fail":
            ids = rng.sample(range(1, nb + 1), rng.randint(1, nb))
            k = rng.randrange(len(ids))
            bad_a = rng.choice(model.batches[ids[k]])
            for i in ids[k:]:
                # the failing batch and everything after it: keep what is there
                pass
            stamps = {
                f: os.stat(os.path.join(crop.location, "results", f)).st_mtime_ns
                for f in listing(crop, "results")
            }
            failing = make_fn(version, bad=(bad_a,))
            try:
                if rng.random() < 0.5:
                    old = crop._fn
                    crop._fn = failing
                    try:
                        xyzpy.gen.cropping.combo_runner_core(
                            cropping.grow,
                            combos=(("batch_number", tuple(ids)),),
                            constants={"verbosity": 0, "crop": crop, "fn": failing},
                        )
                    finally:
                        crop._fn = old
                else:
                    for i in ids:
                        cropping.grow(i, crop=crop, fn=failing, verbosity=0)
            except Boom as e:
                assert e.args == (bad_a,)
            else:
                raise AssertionError("failing function did not raise")
            for i in ids[:k]:
                model.results[i] = expected_result(model, i, version)
            # failing batch: untouched
            f = "xyz-result-{}.jbdmp".format(ids[k])
            if f in stamps and ids[k] not in ids[:k]:
                assert os.stat(os.path.join(crop.location, "results", f)).st_mtime_ns == stamps[f]
        elif op == "delete":
            if model.results:
                i = rng.choice(sorted(model.results))
                os.remove(os.path.join(crop.location, "results", "xyz-result-{}.jbdmp".format(i)))
                del model.results[i]
        elif op == "corrupt":
            # a result of the wrong length, or one that cannot be loaded
            if model.results:
                i = rng.choice(sorted(model.results))
                fname = os.path.join(crop.location, "results", "xyz-result-{}.jbdmp".format(i))
                if rng.random() < 0.5:
                    with open(fname, "wb") as f:
                        pickle.dump(expected_result(model, i, version) + ("extra",), f)
                else:
                    with open(fname, "wb") as f:
                        f.write(b"not a pickle")
                model.results[i] = "BAD"
        elif op == "check_bad":
            delete_bad = rng.random() < 0.6
            bad_model = sorted(str(i) for i, r in model.results.items() if r == "BAD")
            import io
            import contextlib
            buf = io.StringIO()
            with contextlib.redirect_stdout(buf):
                bad = crop.check_bad(delete_bad=delete_bad)
            assert isinstance(bad, tuple) and sorted(bad) == bad_model, (where, bad, bad_model)
            lines = buf.getvalue().splitlines()
            assert len(lines) == len(bad_model), (where, lines)
            for line, i in zip(lines, bad):
                fname = os.path.join(crop.location, "results", "xyz-result-{}.jbdmp".format(i))
                start = "result {} is bad".format(fname) + (" - deleting it." if delete_bad else ".")
                assert line.startswith(start), (where, line)
                assert line == start or line.startswith(start + " Error was: "), (where, line)
            if delete_bad:
                for i in bad:
                    del model.results[int(i)]
        elif op == "reload":
            crop = xyzpy.Crop(name=name, parent_dir=tmp)
            assert crop.num_batches == nb
            assert crop.fn(2)[1:] == (2, 4)
        elif op == "query":
            pass
        check_state(crop, model, where)

    # finish: clear bad ones, grow the rest, everything is there
    import io
    import contextlib
    with contextlib.redirect_stdout(io.StringIO()):
        bad = crop.check_bad()
    for i in bad:
        del model.results[int(i)]
    check_state(crop, model, (seq_no, "final check_bad"))
    crop.grow_missing()
    for i in range(1, nb + 1):
        model.results.setdefault(i, expected_result(model, i, version))
    check_state(crop, model, (seq_no, "final"))
    assert crop.is_ready_to_reap() is True
    with contextlib.redirect_stdout(io.StringIO()):
        assert crop.check_bad() == ()
    crop.delete_all()
    assert not os.path.exists(crop.location)
    assert crop.num_sown_batches == -1 and crop.is_ready_to_reap() is False


def special_cases(tmp):
    import io
    import contextlib

    def batch_file(crop, i):
        return os.path.join(crop.location, "batches", "xyz-batch-{}.jbdmp".format(i))

    def result_file(crop, i):
        return os.path.join(crop.location, "results", "xyz-result-{}.jbdmp".format(i))

    def load(fname):
        with open(fname, "rb") as f:
            return pickle.load(f)

    # ---- how the Sower distributes cases over batches ----
    for n in range(1, 14):
        for opts in [{"num_batches": k} for k in range(1, 9)] + [
            {"batchsize": k} for k in range(1, 5)
        ]:
            crop = xyzpy.Crop(name="lay", parent_dir=tmp, fn=make_fn(0), **opts)
            crop.sow_combos({"a": list(range(n))}, verbosity=0)
            if "num_batches" in opts:
                nb = min(n, opts["num_batches"])
                bsz, rem = divmod(n, nb)
            else:
                bsz, rem = opts["batchsize"], 0
                nb = -(-n // bsz)
            assert (crop.num_batches, crop.batchsize, crop._batch_remainder) == (nb, bsz, rem)
            assert listing(crop, "batches") == sorted(
                "xyz-batch-{}.jbdmp".format(i) for i in range(1, nb + 1)
            ), (n, opts, listing(crop, "batches"))
            got = [load(batch_file(crop, i)) for i in range(1, nb + 1)]
            sizes = [len(g) for g in got]
            if "num_batches" in opts:
                assert sizes == [bsz + 1] * rem + [bsz] * (nb - rem), (n, opts, sizes)
            else:
                assert sizes[:-1] == [bsz] * (nb - 1) and 1 <= sizes[-1] <= bsz
            assert [c for g in got for c in g] == [{"a": a} for a in range(n)]
            assert crop.num_sown_batches == nb and crop.missing_results() == tuple(range(1, nb + 1))
            # the settings on disk carry the layout; a new handle picks it up
            info = crop.load_info()
            assert list(info) == ["combos", "cases", "fn_args", "constants", "batchsize",
                                  "num_batches", "_batch_remainder", "shuffle", "farmer"]
            assert (info["num_batches"], info["batchsize"], info["_batch_remainder"]) == (nb, bsz, rem)
            assert info["farmer"] is None and info["shuffle"] is False
            assert len(info["combos"]) == 1 and info["combos"][0][0] == "a"
            assert list(info["combos"][0][1]) == list(range(n))
            other = xyzpy.Crop(name="lay", parent_dir=tmp)
            assert (other.num_batches, other.batchsize, other._batch_remainder) == (nb, bsz, rem)
            assert other.farmer is None and other.fn(3) == (0, 3, 9)
            crop.delete_all()

    # ---- the Sower used by hand ----
    crop = xyzpy.Crop(name="hand", parent_dir=tmp, fn=make_fn(0), num_batches=3)
    crop.choose_batch_settings(combos=[("a", tuple(range(7)))])
    assert (crop.batchsize, crop.num_batches, crop._batch_remainder) == (2, 3, 1)
    crop.prepare(combos=[("a", tuple(range(7)))])
    with cropping.Sower(crop) as sower:
        pass
    assert listing(crop, "batches") == []  # nothing sown, nothing written
    sower = cropping.Sower(crop)
    with sower as s:
        assert s is sower
        for a in range(4):
            s(a=a)
            assert s._counter == len(s._batch_cases)
        assert (s._batch_counter, s._counter) == (1, 1)
        assert listing(crop, "batches") == ["xyz-batch-1.jbdmp"]
    # the overfill is written on exit
    assert listing(crop, "batches") == ["xyz-batch-1.jbdmp", "xyz-batch-2.jbdmp"]
    assert load(batch_file(crop, 1)) == [{"a": 0}, {"a": 1}, {"a": 2}]
    assert load(batch_file(crop, 2)) == [{"a": 3}]
    assert (sower._batch_counter, sower._counter, sower._batch_cases) == (2, 0, [])
    sower.__exit__(None, None, None)
    assert listing(crop, "batches") == ["xyz-batch-1.jbdmp", "xyz-batch-2.jbdmp"]
    assert crop.num_sown_batches == 2 and crop.num_batches == 3
    assert crop.missing_results() == (1, 2, 3)
    # a Sower on a crop whose layout was never chosen
    bare = xyzpy.Crop(name="bare", parent_dir=tmp, fn=make_fn(0), autoload=False)
    try:
        cropping.Sower(bare)(a=1)
    except TypeError:
        pass
    else:
        raise AssertionError("Sower without a batch layout")
    crop.delete_all()

    # ---- load_info / _sync_info_from_disk ----
    crop = xyzpy.Crop(name="nothing", parent_dir=tmp, fn=make_fn(0))
    for call in (crop.load_info, crop._sync_info_from_disk):
        try:
            call()
        except XYZError as e:
            assert str(e) == "Settings can't be found at {}.".format(
                os.path.join(crop.location, "xyz-settings.jbdmp")
            ), str(e)
        else:
            raise AssertionError("load_info without settings")

    runner = xyzpy.Runner(make_fn(7), var_names=["v", "same", "sq"])
    crop = runner.Crop(name="run", parent_dir=tmp, batchsize=2)
    crop.sow_combos({"a": [1, 2, 3, 4, 5]}, verbosity=0)
    assert runner.fn is not None  # only the copy on disk lost its function
    info = crop.load_info()
    assert isinstance(info["farmer"], bytes)
    # a handle with its own farmer keeps it, unless told otherwise
    mine = xyzpy.Runner(make_fn(8), var_names=["v", "same", "sq"])
    other = mine.Crop(name="run", parent_dir=tmp)
    assert other.farmer is mine and other.num_batches == 3
    other._sync_info_from_disk()
    assert other.farmer is mine
    other._sync_info_from_disk(only_missing=True)
    assert other.farmer is mine
    other._sync_info_from_disk(only_missing=False)
    assert other.farmer is not mine and isinstance(other.farmer, xyzpy.Runner)
    assert other.farmer.fn is None and other.fn is mine.fn
    # a handle without farmer gets the stored one, with the stored function
    plain = xyzpy.Crop(name="run", parent_dir=tmp)
    assert isinstance(plain.farmer, xyzpy.Runner) and plain.farmer is not runner
    assert plain.farmer.fn is plain.fn and plain.fn(2) == (7, 2, 4)
    assert tuple(plain.farmer._var_names) == ("v", "same", "sq")
    first = plain.farmer
    plain._sync_info_from_disk()
    assert plain.farmer is first
    # changed layout on disk is picked up by every query
    stored = crop.load_info()
    stored["batchsize"], stored["num_batches"], stored["_batch_remainder"] = 5, 1, 0
    cropping.write_to_disk(stored, os.path.join(crop.location, "xyz-settings.jbdmp"))
    assert plain.missing_results() == (1,)
    assert (plain.batchsize, plain.num_batches, plain._batch_remainder) == (5, 1, 0)
    assert plain.num_sown_batches == 3
    crop.delete_all()

    # ---- grow(): which crop, which rank ----
    crop = xyzpy.Crop(name="g", parent_dir=tmp, fn=make_fn(1), batchsize=2)
    crop.sow_combos({"a": [0, 1, 2, 3, 4, 5, 6]}, verbosity=0)
    assert crop.num_batches == 4
    saved_env = {k: os.environ.pop(k, None) for k in ("OMPI_COMM_WORLD_RANK", "PMI_RANK")}
    cwd = os.getcwd()

    def run_grow(*args, **kwargs):
        out, err = io.StringIO(), io.StringIO()
        with contextlib.redirect_stdout(out), contextlib.redirect_stderr(err):
            cropping.grow(*args, **kwargs)
        return out.getvalue()

    try:
        # no crop given: only from inside a crop folder
        os.chdir(tmp)
        try:
            cropping.grow(1)
        except XYZError as e:
            assert str(e).startswith("`grow` should be run in a ")
            assert '"{crop_parent}/.xyz-{crop_name}" folder' in str(e)
        else:
            raise AssertionError("grow outside a crop")
        assert listing(crop, "results") == []
        os.chdir(crop.location)
        out = run_grow(2, verbosity=1)
        assert out == ("xyzpy: loaded batch 2 of g.\n"
                       "xyzpy: success - batch 2 completed.\n"), out
        os.chdir(cwd)
        assert listing(crop, "results") == ["xyz-result-2.jbdmp"]
        assert load(result_file(crop, 2)) == ((1, 2, 4), (1, 3, 9))
        assert crop.missing_results() == (1, 3, 4)

        # not rank 0: runs the function, writes nothing
        calls = []

        def counting(a):
            calls.append(a)
            return (1, a, a * a)

        for env in ({"OMPI_COMM_WORLD_RANK": "1"}, {"PMI_RANK": "3"},
                    {"OMPI_COMM_WORLD_RANK": "2", "PMI_RANK": "0"}):
            os.environ.update(env)
            del calls[:]
            out = run_grow(1, crop=crop, fn=counting, verbosity=1)
            rank = env.get("OMPI_COMM_WORLD_RANK", env.get("PMI_RANK"))
            assert out == ("xyzpy: loaded batch 1 of g.\n"
                           "xyzpy: detected mpi rank {}.\n"
                           "xyzpy: success - batch 1 completed.\n".format(rank)), out
            assert calls == [0, 1]
            assert listing(crop, "results") == ["xyz-result-2.jbdmp"]
            assert crop.missing_results() == (1, 3, 4) and crop.num_results == 1
            # silent
            assert run_grow(1, crop=crop, verbosity=0) == ""
            assert listing(crop, "results") == ["xyz-result-2.jbdmp"]
            # the Crop method goes the same way
            with contextlib.redirect_stderr(io.StringIO()):
                crop.grow(1)
                crop.grow_missing()
            assert crop.missing_results() == (1, 3, 4)
            for k in env:
                del os.environ[k]

        # rank 0, either variable; OMPI is looked at first
        for i, env in ((1, {"OMPI_COMM_WORLD_RANK": "0"}), (3, {"PMI_RANK": "0"}),
                       (4, {"OMPI_COMM_WORLD_RANK": "0", "PMI_RANK": "5"})):
            os.environ.update(env)
            out = run_grow(i, crop=crop, verbosity=1)
            assert out == ("xyzpy: loaded batch {0} of g.\n"
                           "xyzpy: detected mpi rank 0.\n"
                           "xyzpy: success - batch {0} completed.\n".format(i)), out
            assert os.path.isfile(result_file(crop, i))
            for k in env:
                del os.environ[k]
        assert crop.is_ready_to_reap() and crop.missing_results() == ()
        assert load(result_file(crop, 4)) == ((1, 6, 36),)

        # check_mpi=False ignores the environment
        os.remove(result_file(crop, 3))
        os.environ["OMPI_COMM_WORLD_RANK"] = "4"
        os.environ["PMI_RANK"] = "4"
        out = run_grow(3, crop=crop, check_mpi=False, verbosity=1)
        assert "detected mpi" not in out
        assert load(result_file(crop, 3)) == ((1, 4, 16), (1, 5, 25))
        # a rank that is not a number
        os.environ["OMPI_COMM_WORLD_RANK"] = "x"
        os.remove(result_file(crop, 3))
        try:
            cropping.grow(3, crop=crop, verbosity=0)
        except ValueError:
            pass
        else:
            raise AssertionError("bad rank")
        assert not os.path.exists(result_file(crop, 3))
        del os.environ["OMPI_COMM_WORLD_RANK"]
        del os.environ["PMI_RANK"]

        # failing function, from inside the folder and by handle
        os.chdir(crop.location)
        for kwargs in ({}, {"crop": crop}):
            try:
                cropping.grow(3, fn=make_fn(1, bad=(5,)), verbosity=0, **kwargs)
            except Boom as e:
                assert e.args == (5,)
            else:
                raise AssertionError("no Boom")
            assert not os.path.exists(result_file(crop, 3))
            assert crop.missing_results() == (3,) and not crop.is_ready_to_reap()

        # an empty batch
        cropping.write_to_disk([], batch_file(crop, 3))
        try:
            cropping.grow(3, crop=crop, verbosity=0)
        except ValueError as e:
            assert str(e) == ("Something has gone wrong with the loading of batch "
                              "xyz-batch-3.jbdmp for the crop at {}.".format(crop.location)), str(e)
        else:
            raise AssertionError("empty batch")
        try:
            cropping.grow(3, verbosity=0)
        except AttributeError:
            pass
        else:
            raise AssertionError("empty batch, no handle")
        assert not os.path.exists(result_file(crop, 3))
        # a batch that was never sown
        try:
            cropping.grow(9, verbosity=0)
        except FileNotFoundError as e:
            assert e.filename.endswith(os.path.join("batches", "xyz-batch-9.jbdmp"))
        else:
            raise AssertionError("unsown batch")
        os.chdir(cwd)
        cropping.write_to_disk([{"a": 4}, {"a": 5}], batch_file(crop, 3))
        with contextlib.redirect_stderr(io.StringIO()):
            crop.grow_missing()
        assert crop.is_ready_to_reap() and crop.missing_results() == ()
        assert sorted(os.listdir(crop.location)) == sorted(
            ["batches", "results", "xyz-settings.jbdmp", "xyz-function.clpkl"])
    finally:
        os.chdir(cwd)
        for k, v in saved_env.items():
            os.environ.pop(k, None)
            if v is not None:
                os.environ[k] = v
    crop.delete_all()


def main():
    tmp = tempfile.mkdtemp(prefix="c08-t7-")
    try:
        rng = random.Random(8007)
        for seq_no in range(30):
            run_sequence(rng, tmp, seq_no)
        special_cases(tmp)
        leftovers = glob.glob(os.path.join(tmp, "**", "*.tmp"), recursive=True)
        assert not leftovers, leftovers
    finally:
        shutil.rmtree(tmp, ignore_errors=True)
    print("PASS")


if __name__ == "__main__":
    main()
