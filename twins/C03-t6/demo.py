"""Demo for twin t6: the helpers that turn raw sweep results into labelled
Dataset / DataFrame form (``results_to_df``, ``multi_concat``,
``nan_like_result`` and the constants bookkeeping of ``results_to_ds``).

Run as ``cd <worktree> && python /path/to/demo.py``.
"""
import os
import sys

sys.path.insert(0, os.getcwd())

import itertools
import shutil
import tempfile
import warnings
from concurrent.futures import ThreadPoolExecutor

import numpy as np
import pandas as pd
import xarray as xr

import xyzpy
from xyzpy.gen import combo_runner as cr

assert os.path.dirname(os.path.abspath(xyzpy.__file__)).startswith(
    os.getcwd()), xyzpy.__file__

CHECKS = [0]


def ok(cond, msg=""):
    CHECKS[0] += 1
    if not cond:
        raise AssertionError(msg)


def same(a, b):
    if isinstance(a, float) and isinstance(b, float):
        return (a == b) or (np.isnan(a) and np.isnan(b))
    return a == b


# --------------------------------------------------------------------------- #
# functions swept over                                                        #
# --------------------------------------------------------------------------- #

def f_scalar(a, b, k=0, big=None):
    return 100 * a + b + k + (0 if big is None else len(big))


def f_three(a, b, k=0, big=None):
    return a + b + k, a - b, 'lab%d_%d' % (a, b)


def f_arr(a, b, t, k=0, big=None):
    t = np.asarray(t)
    return a * t + b + k, float(a * b)


def f_arr2(a, b):
    return np.arange(6).reshape(2, 3) * a + b, [a + b, a - b]


def f_seq_single(a, b):
    # one output that happens to be iterable
    return (a, b)


def f_dataset(a, b, k=0):
    return xr.Dataset(
        coords={'t': [10, 20, 30]},
        data_vars={'u': ('t', a * np.array([1.0, 2.0, 3.0]) + b + k),
                   'v': ((), float(a - b))})


def f_dataarray(a, b):
    return xr.DataArray(a * np.array([1.0, 2.0]) + b, dims=['w'],
                        coords={'w': [0.5, 1.5]}, name='z')


def f_dict(a, b):
    return {'p': a + b, 'q': ('t', np.array([a, b, a * b], dtype=float))}


# --------------------------------------------------------------------------- #
# execution options                                                           #
# --------------------------------------------------------------------------- #

POOL = ThreadPoolExecutor(2)

EXEC_OPTS = [
    dict(),
    dict(shuffle=True),
    dict(shuffle=7),
    dict(executor=POOL),
    dict(executor=POOL, shuffle=3),
]

COMBOS = [
    {'a': [3, 1, 2], 'b': [20, 10]},
    [('b', [7, 5]), ('a', [1, 4, 2])],
    ('a', [5, 2]),
]
CASES = [
    [{'a': 3, 'b': 10}, {'a': 1, 'b': 30}, {'a': 2, 'b': 10}],
    [{'a': 2, 'b': 2}],
]


def grid_points(combos):
    combos = dict(combos) if not isinstance(combos, tuple) else dict([combos])
    keys = list(combos)
    for vals in itertools.product(*combos.values()):
        yield dict(zip(keys, vals))


# --------------------------------------------------------------------------- #
# 1. DataFrame form                                                           #
# --------------------------------------------------------------------------- #

def check_df():
    big = list(range(4))
    for opts in EXEC_OPTS:
        # --- grids, 1 var + constants + resources + attrs
        for combos in COMBOS[:2]:
            df = xyzpy.combo_runner_to_df(
                f_scalar, combos, 'out', constants={'k': 5},
                resources={'big': big}, attrs={'note': 'hello', 'n': 2},
                verbosity=0, **opts)
            ok(isinstance(df, pd.DataFrame))
            pts = list(grid_points(combos))
            ok(len(df) == len(pts))
            ok('big' not in df.columns, "resource recorded")
            ok(list(df.columns) == list(pts[0]) + ['k', 'note', 'n', 'out'],
               list(df.columns))
            for i, pt in enumerate(pts):
                row = df.iloc[i]
                ok(all(row[k] == v for k, v in pt.items()))
                ok(row['k'] == 5 and row['note'] == 'hello' and row['n'] == 2)
                ok(row['out'] == f_scalar(**pt, k=5, big=big), (opts, pt))

        # --- grids, 3 vars
        df = xyzpy.combo_runner_to_df(
            f_three, COMBOS[0], ['s', 'd', 'lab'], constants={'k': 1},
            verbosity=0, **opts)
        pts = list(grid_points(COMBOS[0]))
        ok(len(df) == len(pts))
        ok(list(df.columns) == ['a', 'b', 'k', 's', 'd', 'lab'])
        for i, pt in enumerate(pts):
            row = df.iloc[i]
            exp = f_three(**pt, k=1)
            ok((row['a'], row['b']) == (pt['a'], pt['b']))
            ok((row['s'], row['d'], row['lab']) == exp, (opts, pt))

        # --- single output variable that is itself a sequence
        df = xyzpy.combo_runner_to_df(
            f_seq_single, COMBOS[0], ('pair',), verbosity=0, **opts)
        for i, pt in enumerate(grid_points(COMBOS[0])):
            ok(df.iloc[i]['pair'] == (pt['a'], pt['b']))

        # --- several names but a scalar result: falls back on the result
        df = xyzpy.combo_runner_to_df(
            f_scalar, COMBOS[2], ['x', 'y'], constants={'b': 1},
            verbosity=0, **opts)
        ok(list(df.columns) == ['a', 'b', 'x'], list(df.columns))
        for i, pt in enumerate(grid_points(COMBOS[2])):
            ok(df.iloc[i]['a'] == pt['a'])
            ok(df.iloc[i]['x'] == f_scalar(b=1, **pt))

        # --- cases (+ sub-combos)
        for cases in CASES:
            df = xyzpy.case_runner_to_df(
                f_three, None, cases, ['s', 'd', 'lab'], verbosity=0, **opts)
            ok(len(df) == len(cases))
            for i, c in enumerate(cases):
                row = df.iloc[i]
                ok((row['a'], row['b']) == (c['a'], c['b']))
                ok((row['s'], row['d'], row['lab']) == f_three(**c))

        df = xyzpy.case_runner_to_df(
            f_scalar, ('a',), [(4,), (2,), (9,)], 'out',
            combos={'b': [2, 1]}, constants={'k': 3},
            resources={'big': big}, verbosity=0, **opts)
        exp = [(a, b) for a in (4, 2, 9) for b in (2, 1)]
        ok(len(df) == 6 and 'big' not in df.columns)
        for i, (a, b) in enumerate(exp):
            row = df.iloc[i]
            ok((row['a'], row['b'], row['k']) == (a, b, 3))
            ok(row['out'] == f_scalar(a, b, k=3, big=big))

    # the helper directly: rows are the settings, updated in place
    settings = [{'a': 1, 'r': 'x'}, {'a': 2, 'r': 'x'}]
    df = cr.results_to_df([(10, 11), (20, 21)], settings, attrs={'z': 0},
                          resources={'r': 'x', 'absent': 1},
                          var_names=('u', 'v'))
    ok(settings == [{'a': 1, 'z': 0, 'u': 10, 'v': 11},
                    {'a': 2, 'z': 0, 'u': 20, 'v': 21}], settings)
    ok(list(df.columns) == ['a', 'z', 'u', 'v'] and len(df) == 2)
    df = cr.results_to_df([5, 6], [{'a': 1}, {'a': 2}], attrs=None,
                          resources={}, var_names=('u', 'v'))
    ok(list(df.columns) == ['a', 'u'] and list(df['u']) == [5, 6])
    df = cr.results_to_df([], [], attrs=None, resources={}, var_names=('u',))
    ok(len(df) == 0)

    # options that a dataframe cannot take
    for kws in [dict(var_names=None),
                dict(var_names='o', var_dims={'o': ('t',)}),
                dict(var_names='o', var_coords={'t': [1]})]:
        try:
            xyzpy.combo_runner_to_df(f_scalar, COMBOS[0], verbosity=0, **kws)
        except ValueError:
            ok(True)
        else:
            ok(False, "expected ValueError")


# --------------------------------------------------------------------------- #
# 2. Dataset form: constants, attrs, resources                                #
# --------------------------------------------------------------------------- #

def check_ds_constants():
    big = list(range(3))
    tvals = [0.0, 0.5, 2.0]
    for opts in EXEC_OPTS:
        ds = xyzpy.combo_runner_to_ds(
            f_arr, COMBOS[0], ['x', 'y'], var_dims={'x': 't'},
            constants={'t': tvals, 'k': 2}, resources={'big': big},
            attrs={'made_by': 'demo'}, verbosity=0, **opts)
        ok(ds['x'].dims == ('a', 'b', 't') and ds['y'].dims == ('a', 'b'))
        ok(list(ds['a'].values) == [3, 1, 2])
        ok(list(ds['b'].values) == [20, 10])
        ok(list(ds['t'].values) == tvals, "constant naming a dim -> coord")
        ok(ds.attrs == {'made_by': 'demo', 'k': 2}, ds.attrs)
        ok('big' not in ds.attrs and 'big' not in ds.coords
           and 'big' not in ds.data_vars)
        ok('t' not in ds.attrs)
        for pt in grid_points(COMBOS[0]):
            ex, ey = f_arr(**pt, t=tvals, k=2)
            got = ds.sel(**pt)
            ok(np.array_equal(got['x'].values, ex), (opts, pt))
            ok(got['y'].item() == ey)

        # same internal dimension through var_coords; constant only an attr
        ds2 = xyzpy.combo_runner_to_ds(
            lambda a, b, k: f_arr(a, b, tvals, k), COMBOS[1], ('x', 'y'),
            var_dims=(['t'], []), var_coords={'t': tvals},
            constants={'k': 2}, verbosity=0, **opts)
        ok(ds2['x'].dims == ('b', 'a', 't'))
        ok(list(ds2['b'].values) == [7, 5] and list(ds2['a'].values) ==
           [1, 4, 2])
        ok(ds2.attrs == {'k': 2})
        for pt in grid_points(COMBOS[1]):
            ex, ey = f_arr(**pt, t=tvals, k=2)
            ok(np.array_equal(ds2.sel(**pt)['x'].values, ex))
            ok(ds2.sel(**pt)['y'].item() == ey)

        # 2-dimensional and 1-dimensional outputs, no coordinates given
        ds3 = xyzpy.combo_runner_to_ds(
            f_arr2, COMBOS[0], ['m', 'l'],
            var_dims={'m': ['r', 'c'], 'l': 'pm'}, verbosity=0, **opts)
        ok(ds3['m'].dims == ('a', 'b', 'r', 'c'))
        ok(ds3['l'].dims == ('a', 'b', 'pm'))
        for pt in grid_points(COMBOS[0]):
            em, el = f_arr2(**pt)
            ok(np.array_equal(ds3['m'].sel(**pt).values, em))
            ok(list(ds3['l'].sel(**pt).values) == el)

    # no attrs at all + constants -> only constants in attrs
    ds = xyzpy.combo_runner_to_ds(f_scalar, COMBOS[2], 'o',
                                  constants={'b': 1, 'k': 0}, verbosity=0)
    ok(ds.attrs == {'b': 1, 'k': 0})
    ok(ds['o'].dims == ('a',) and list(ds['a'].values) == [5, 2])
    # helper directly
    res = ((1.0, 2.0), (3.0, 4.0))
    ds = cr.results_to_ds(res, (('a', [1, 2]), ('b', [5, 6])), ('o',),
                          {'o': ()}, {}, constants=None, attrs={'w': 1})
    ok(ds.attrs == {'w': 1} and ds['o'].sel(a=2, b=5).item() == 3.0)
    ds = cr.results_to_ds(res, (('a', [1, 2]), ('b', [5, 6])), ('o',),
                          {'o': ()}, {}, constants={}, attrs=None)
    ok(ds.attrs == {})
    try:
        cr.results_to_ds((res, res, res), (('a', [1, 2]), ('b', [5, 6])),
                         ('o', 'p'), {'o': (), 'p': ()}, {})
    except ValueError as e:
        ok('Wrong number of results' in str(e))
    else:
        ok(False)


# --------------------------------------------------------------------------- #
# 3. var_names=None: concatenation of labelled objects                        #
# --------------------------------------------------------------------------- #

def check_xobj():
    for opts in EXEC_OPTS:
        for combos in COMBOS[:2]:
            order = tuple(dict(combos))
            ds = xyzpy.combo_runner_to_ds(
                f_dataset, combos, None, constants={'k': 1},
                attrs={'src': 'ds'}, verbosity=0, **opts)
            ok(ds['u'].dims == order + ('t',), ds['u'].dims)
            ok(ds['v'].dims == order)
            ok(ds.attrs == {'src': 'ds', 'k': 1})
            for name, vals in dict(combos).items():
                ok(list(ds[name].values) == list(vals))
            for pt in grid_points(combos):
                exp = f_dataset(**pt, k=1)
                got = ds.sel(**pt)
                ok(np.array_equal(got['u'].values, exp['u'].values))
                ok(got['v'].item() == exp['v'].item())

            da = xyzpy.combo_runner_to_ds(f_dataarray, combos, None,
                                          verbosity=0, **opts)
            ok(isinstance(da, xr.DataArray) and da.dims == order + ('w',))
            for pt in grid_points(combos):
                ok(np.array_equal(da.sel(**pt).values,
                                  f_dataarray(**pt).values))

            dd = xyzpy.combo_runner_to_ds(f_dict, combos, None,
                                          verbosity=0, **opts)
            ok(dd['p'].dims == order and dd['q'].dims == order + ('t',))
            for pt in grid_points(combos):
                exp = f_dict(**pt)
                ok(dd['p'].sel(**pt).item() == exp['p'])
                ok(np.array_equal(dd['q'].sel(**pt).values, exp['q'][1]))

        # single swept argument
        ds = xyzpy.combo_runner_to_ds(
            lambda a: f_dataset(a, 1), COMBOS[2], None, verbosity=0, **opts)
        ok(ds['u'].dims == ('a', 't') and list(ds['a'].values) == [5, 2])
        ok(np.array_equal(ds['u'].sel(a=2).values,
                          f_dataset(2, 1)['u'].values))

        # cases with labelled outputs -> missing points are nan
        cases = CASES[0]
        ds = xyzpy.case_runner_to_ds(f_dataset, None, cases, None,
                                     verbosity=0, **opts)
        ok(list(ds['a'].values) == [1, 2, 3])
        ok(list(ds['b'].values) == [10, 30])
        done = {(c['a'], c['b']) for c in cases}
        for a in (1, 2, 3):
            for b in (10, 30):
                got = ds.sel(a=a, b=b)
                if (a, b) in done:
                    ok(np.array_equal(got['u'].values,
                                      f_dataset(a, b)['u'].values))
                    ok(got['v'].item() == float(a - b))
                else:
                    ok(bool(got['u'].isnull().all()))
                    ok(bool(got['v'].isnull()))

    # helper directly
    objs = [[{'p': 1.0}, {'p': 2.0}], [{'p': 3.0}, {'p': 4.0}]]
    out = cr.multi_concat(objs, ('x', 'y'))
    ok(out['p'].dims == ('x', 'y'))
    ok(out['p'].values.tolist() == [[1.0, 2.0], [3.0, 4.0]])
    out = cr.multi_concat(objs[0], ['x'])
    ok(out['p'].dims == ('x',) and out['p'].values.tolist() == [1.0, 2.0])
    for bad in [lambda: cr.multi_concat([], ('x',)),
                lambda: cr.multi_concat(5, ('x',))]:
        try:
            bad()
        except (ValueError, TypeError):
            ok(True)
        else:
            ok(False)


# --------------------------------------------------------------------------- #
# 4. placeholders for cases that were not run                                 #
# --------------------------------------------------------------------------- #

def check_nan_like():
    r = cr.nan_like_result((True, [[10, 20, 30], [40, 50, 60]], -42.0, 'hi'))
    ok(isinstance(r, tuple) and len(r) == 4)
    ok(r[0].shape == () and np.isnan(r[0]))
    ok(r[1].shape == (2, 3) and np.isnan(r[1]).all())
    ok(r[2].shape == () and np.isnan(r[2]))
    ok(r[3] is None)
    ok(cr.nan_like_result('text') is None)
    ok(cr.nan_like_result(True) is None)
    ok(np.isnan(cr.nan_like_result(3.5)))
    ok(np.isnan(cr.nan_like_result(None)))
    ok(cr.nan_like_result(()) == ())
    r = cr.nan_like_result(np.arange(3))
    ok(isinstance(r, tuple) and len(r) == 3 and all(np.isnan(x) for x in r))
    r = cr.nan_like_result({'p': 1, 'q': ('t', [1, 2])})
    ok(isinstance(r, xr.Dataset) and bool(r['q'].isnull().all()))
    r = cr.nan_like_result(f_dataarray(1, 2))
    ok(isinstance(r, xr.DataArray) and r.dtype == float
       and bool(r.isnull().all()))
    try:
        cr.nan_like_result(([],))
    except IndexError:
        ok(True)
    else:
        ok(False)

    for opts in EXEC_OPTS:
        # several outputs incl. a string one and an array one
        cases = CASES[0]
        ds = xyzpy.case_runner_to_ds(
            f_three, None, cases, ['s', 'd', 'lab'], verbosity=0, **opts)
        ok(list(ds['a'].values) == [1, 2, 3])
        ok(list(ds['b'].values) == [10, 30])
        done = {(c['a'], c['b']) for c in cases}
        for a in (1, 2, 3):
            for b in (10, 30):
                got = ds.sel(a=a, b=b)
                if (a, b) in done:
                    es, ed, el = f_three(a, b)
                    ok(got['s'].item() == es and got['d'].item() == ed)
                    ok(got['lab'].item() == el)
                else:
                    ok(np.isnan(got['s'].item()))
                    ok(np.isnan(got['d'].item()))
                    ok(pd.isnull(got['lab'].item()), repr(got['lab'].item()))

        tvals = [1.0, 2.0]
        ds = xyzpy.case_runner_to_ds(
            f_arr, ('a', 'b'), [(1, 2), (3, 4)], ['x', 'y'],
            var_dims={'x': 't'}, constants={'t': tvals}, verbosity=0, **opts)
        ok(ds['x'].dims == ('a', 'b', 't'))
        ok(list(ds['t'].values) == tvals)
        for a in (1, 3):
            for b in (2, 4):
                got = ds.sel(a=a, b=b)
                if (a, b) in {(1, 2), (3, 4)}:
                    ex, ey = f_arr(a, b, tvals)
                    ok(np.array_equal(got['x'].values, ex))
                    ok(got['y'].item() == ey)
                else:
                    ok(bool(got['x'].isnull().all()))
                    ok(np.isnan(got['y'].item()))

        # cases and sub-combos, single scalar output
        ds = xyzpy.case_runner_to_ds(
            f_scalar, ('a',), [4, 2], 'o', combos={'b': [2, 1]},
            constants={'k': 1}, verbosity=0, **opts)
        ok(ds['o'].dims == ('a', 'b'))
        ok(list(ds['a'].values) == [2, 4] and list(ds['b'].values) == [2, 1])
        for a in (2, 4):
            for b in (1, 2):
                ok(ds['o'].sel(a=a, b=b).item() == f_scalar(a, b, k=1))


# --------------------------------------------------------------------------- #
# 5. Runner / label / harvester on disk                                       #
# --------------------------------------------------------------------------- #

def check_runner(tmp):
    tvals = [0.0, 1.0]
    r = xyzpy.Runner(f_arr, ['x', 'y'], var_dims={'x': ['t']},
                     constants={'t': tvals}, resources={'big': [1]},
                     attrs={'who': 'me'})
    ds = r.run_combos(COMBOS[0], constants={'k': 4}, verbosity=0)
    ok(ds.attrs == {'who': 'me', 'k': 4} and list(ds['t'].values) == tvals)
    for pt in grid_points(COMBOS[0]):
        ex, ey = f_arr(**pt, t=tvals, k=4, big=[1])
        ok(np.array_equal(ds['x'].sel(**pt).values, ex))
    ds = r.run_cases([(1, 2), (2, 1)], verbosity=0, shuffle=True)
    ok(np.array_equal(ds['x'].sel(a=2, b=1).values, f_arr(2, 1, tvals)[0]))
    ok(bool(ds['x'].sel(a=1, b=1).isnull().all()))
    df = r.run_combos(COMBOS[2], constants={'b': 1}, verbosity=0) \
        .to_dataframe()
    ok(len(df) == 4)

    @xyzpy.label(var_names=['s', 'd', 'lab'],
                 harvester=os.path.join(tmp, 'h.h5'))
    def lab(a, b):
        return f_three(a, b)

    lab.harvest_combos({'a': [1, 2], 'b': [3]}, verbosity=0)
    lab.harvest_cases([{'a': 5, 'b': 4}], verbosity=0)
    full = lab.full_ds
    ok(full['s'].sel(a=5, b=4).item() == 9)
    ok(full['lab'].sel(a=2, b=3).item() == 'lab2_3')
    ok(np.isnan(full['s'].sel(a=5, b=3).item()))
    full.close()


def main():
    tmp = tempfile.mkdtemp(prefix='c03_t6_')
    try:
        with warnings.catch_warnings():
            warnings.simplefilter('ignore')
            check_df()
            check_ds_constants()
            check_xobj()
            check_nan_like()
            check_runner(tmp)
    finally:
        POOL.shutdown()
        shutil.rmtree(tmp, ignore_errors=True)
    print('checks:', CHECKS[0])
    print('PASS')


if __name__ == '__main__':
    main()
