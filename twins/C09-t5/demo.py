"""Demo / check for property C09 (partial reaps), aimed at the ``Crop.reap*``
methods of ``xyzpy/gen/cropping.py``: the check that a crop may be reaped, the
choice of stand-in for missing results, and the (default) decision whether to
delete the crop afterwards - for raw / Dataset / DataFrame / Runner /
Harvester / Sampler reaps.

Run as:  cd <worktree> && /venv/bin/python /path/to/demo.py
Prints PASS and exits 0 if everything behaves as the property says.
"""

import os
import sys

sys.path.insert(0, os.getcwd())

import itertools
import pickle
import shutil
import tempfile
import threading
import time
import traceback

import numpy as np
import xarray as xr

import xyzpy
from xyzpy import Crop, Runner, Harvester, Sampler, combo_runner_to_ds
from xyzpy.gen import cropping
from xyzpy.utils import XYZError

assert os.path.dirname(os.path.abspath(xyzpy.__file__)) == os.path.join(
    os.path.abspath(os.getcwd()), "xyzpy"
), xyzpy.__file__


# ------------------------------ functions --------------------------------- #


def f_scalar(a, b):
    return 10 * a + b


def f_float(a, b):
    return a / 4 + b


def f_array(a, b):
    return np.arange(3) * a + b


def f_bool(a, b):
    return (a + b) % 2 == 0


def f_str(a, b):
    return "{}-{}".format(a, b)


def f_multi(a, b):
    return a + b, np.arange(2.0) * a - b


def f_ds(a, b):
    return xr.Dataset({"x": ("t", np.arange(3) * a + b)})


NAN0 = np.broadcast_to(np.nan, ())

# fn -> (placeholder in a raw reap, var_names, var_dims, DataFrame possible)
FNS = {
    f_scalar: (np.nan, "x", None, True),
    f_float: (np.nan, "x", None, True),
    f_array: ((NAN0, NAN0, NAN0), "x", {"x": ["t"]}, False),
    f_bool: (None, "x", None, True),
    f_str: (None, "x", None, True),
    f_multi: (
        (NAN0, np.broadcast_to(np.nan, (2,))),
        ["s", "v"],
        {"v": ["t"]},
        False,
    ),
    f_ds: (
        xr.Dataset({"x": ("t", np.full(3, np.nan))}),
        None,
        None,
        False,
    ),
}

A = [1, 2]
B = [10, 20, 30]
COMBOS = (("a", A), ("b", B))
B7 = [10, 20, 30, 40, 50, 60, 70]

NCHECKS = [0]


def check(cond, msg="check failed"):
    NCHECKS[0] += 1
    if not cond:
        raise AssertionError(msg)


# ------------------------------- helpers ---------------------------------- #


def same(x, y):
    """Deep, type-strict, nan-aware equality."""
    if isinstance(x, xr.Dataset) or isinstance(y, xr.Dataset):
        return (
            isinstance(x, xr.Dataset)
            and isinstance(y, xr.Dataset)
            and x.identical(y)
            and all(x[k].dtype == y[k].dtype for k in x.data_vars)
        )
    if isinstance(x, (tuple, list)) or isinstance(y, (tuple, list)):
        return (
            type(x) is type(y)
            and len(x) == len(y)
            and all(same(p, q) for p, q in zip(x, y))
        )
    if x is None or y is None:
        return x is None and y is None
    if isinstance(x, str) or isinstance(y, str):
        return type(x) is type(y) and x == y
    xa, ya = np.asarray(x), np.asarray(y)
    if isinstance(x, np.ndarray) != isinstance(y, np.ndarray):
        return False
    if not isinstance(x, np.ndarray) and type(x) is not type(y):
        return False
    return (
        xa.shape == ya.shape
        and xa.dtype == ya.dtype
        and bool(np.array_equal(xa, ya, equal_nan=xa.dtype.kind == "f"))
    )


def snapshot(location):
    """Every file under the crop directory with its exact contents."""
    snap = {}
    for root, dirs, files in os.walk(location):
        for d in dirs:
            snap[os.path.relpath(os.path.join(root, d), location) + "/"] = None
        for f in files:
            p = os.path.join(root, f)
            with open(p, "rb") as fh:
                snap[os.path.relpath(p, location)] = fh.read()
    return snap


def batch_of_each_setting(crop):
    """Map (a, b) -> batch number, read off the sown batch files."""
    where = {}
    for i in range(1, crop.num_batches + 1):
        fname = os.path.join(
            crop.location, "batches", "xyz-batch-{}.jbdmp".format(i)
        )
        with open(fname, "rb") as fh:
            for kws in pickle.load(fh):
                where[kws["a"], kws["b"]] = i
    return where


def subsets(n, proper=True):
    ids = range(1, n + 1)
    for k in range(1, n if proper else n + 1):
        yield from itertools.combinations(ids, k)


def expected_raw(fn, where, finished, bs=B):
    missing = FNS[fn][0]
    return tuple(
        tuple(fn(a, b) if where[a, b] in finished else missing for b in bs)
        for a in A
    )


def check_ds(ds, fn, where, finished, bs=B):
    ds_full = combo_runner_to_ds(
        fn, (("a", A), ("b", bs)), FNS[fn][1], var_dims=FNS[fn][2],
        verbosity=0,
    )
    check(set(ds.data_vars) == set(ds_full.data_vars))
    check(list(ds["a"].values) == A and list(ds["b"].values) == bs)
    for a in A:
        for b in bs:
            got = ds.sel(a=a, b=b)
            exp = ds_full.sel(a=a, b=b)
            for v in ds_full.data_vars:
                if where[a, b] in finished:
                    check(
                        np.array_equal(got[v].values, exp[v].values),
                        "wrong finished value in dataset",
                    )
                else:
                    check(
                        bool(got[v].isnull().all()),
                        "unfinished position not missing in dataset",
                    )
    return ds_full


def check_df(df, fn, where, finished, bs=B):
    check(list(df.columns) == ["a", "b", "x"])
    check(len(df) == len(A) * len(bs))
    rows = {(r.a, r.b): r.x for r in df.itertuples()}
    check(sorted(rows) == sorted(itertools.product(A, bs)))
    for (a, b), x in rows.items():
        if where[a, b] in finished:
            check(x == fn(a, b), "wrong finished value in dataframe")
        else:
            check(
                x is None or (isinstance(x, float) and np.isnan(x)),
                "unfinished position not missing in dataframe",
            )


def new_crop(fn, tdir, bs=B, shuffle=False, **kws):
    crop = Crop(fn=fn, parent_dir=tdir, **kws)
    crop.sow_combos((("a", A), ("b", bs)), shuffle=shuffle, verbosity=0)
    return crop


def grow(crop, ids):
    for i in ids:
        crop.grow(i, verbosity=0)


# -------------------------------- checks ---------------------------------- #

NOT_READY = (
    "This crop is not ready to reap yet - results are missing. You can reap "
    "only finished batches by setting ``allow_incomplete=True``, but be "
    "aware this will represent all missing batches with ``np.nan`` and thus "
    "might effect data-types."
)
NO_REFERENCE = (
    "To infer an all-nan result requires at least one finished result."
)


def raises(exc_type, msg, fn, *args, **kwargs):
    try:
        fn(*args, **kwargs)
    except exc_type as e:
        check(type(e) is exc_type, "wrong exception type {}".format(type(e)))
        if msg is not None:
            check(str(e) == msg, "wrong message: {}".format(e))
    else:
        check(False, "no {} raised".format(exc_type.__name__))


def partial_reaps_exhaustive():
    """All non-empty proper subsets of finished batches, several ways of
    dividing the settings into batches (with / without remainder), shuffled
    or not, raw / Dataset / DataFrame.
    """
    configs = [
        (B, dict(batchsize=1)),  # 6 batches
        (B, dict(batchsize=4)),  # 2 batches, remainder
        (B, dict(num_batches=4)),  # 4 batches, sizes 2, 2, 1, 1
        (B7, dict(num_batches=7)),  # 7 batches of 2
        (B7, dict(batchsize=3)),  # 5 batches, last one short
    ]
    for (bs, kws), shuffle in itertools.product(configs, [False, True]):
        full = tuple(tuple(f_scalar(a, b) for b in bs) for a in A)
        with tempfile.TemporaryDirectory() as tdir:
            probe = new_crop(f_scalar, tdir, bs, shuffle, **kws)
            nb = probe.num_batches
            probe.delete_all()
        all_subsets = list(subsets(nb))
        if nb == 7 and shuffle:
            all_subsets = all_subsets[::3]
        for finished in all_subsets:
            with tempfile.TemporaryDirectory() as tdir:
                crop = new_crop(f_scalar, tdir, bs, shuffle, **kws)
                where = batch_of_each_setting(crop)
                grow(crop, finished)
                before = snapshot(crop.location)

                # refused without allow_incomplete, nothing touched
                raises(XYZError, NOT_READY, crop.reap_combos)
                raises(XYZError, NOT_READY, crop.reap_combos, clean_up=True)
                raises(XYZError, NOT_READY, crop.reap_combos_to_ds, "x")
                raises(XYZError, NOT_READY, crop.reap)
                check(snapshot(crop.location) == before)

                # raw
                got = crop.reap_combos(allow_incomplete=True)
                check(
                    same(got, expected_raw(f_scalar, where, finished, bs)),
                    "raw partial reap wrong: {} {} {}".format(
                        kws, shuffle, finished
                    ),
                )
                check(snapshot(crop.location) == before)

                # Dataset
                ds = crop.reap_combos_to_ds(
                    var_names="x", allow_incomplete=True
                )
                ds_full = check_ds(ds, f_scalar, where, finished, bs)
                check(snapshot(crop.location) == before)

                # DataFrame
                df = crop.reap_combos_to_ds(
                    var_names="x", allow_incomplete=True, to_df=True
                )
                check_df(df, f_scalar, where, finished, bs)
                check(snapshot(crop.location) == before)

                # growing continues, a later full reap is exact
                crop.grow_missing(verbosity=0)
                ds2 = crop.reap_combos_to_ds(
                    var_names="x", allow_incomplete=True
                )
                check(ds2.identical(ds_full))
                check(os.path.isdir(crop.location))
                check(same(crop.reap_combos(), full))
                check(not os.path.exists(crop.location))


def partial_reaps_result_kinds():
    """scalar / array / bool / str / multi-output / Dataset results."""
    for fn, (missing, var_names, var_dims, df_ok) in FNS.items():
        full = tuple(tuple(fn(a, b) for b in B) for a in A)
        for kws, shuffle in [
            (dict(batchsize=1), False),
            (dict(batchsize=4), True),
            (dict(num_batches=4), 7),
        ]:
            with tempfile.TemporaryDirectory() as tdir:
                probe = new_crop(fn, tdir, B, shuffle, **kws)
                nb = probe.num_batches
            for finished in list(subsets(nb))[::4]:
                with tempfile.TemporaryDirectory() as tdir:
                    crop = new_crop(fn, tdir, B, shuffle, **kws)
                    where = batch_of_each_setting(crop)
                    grow(crop, finished)
                    before = snapshot(crop.location)

                    # the stand-in itself
                    check(same(crop.all_nan_result, missing))

                    got = crop.reap(allow_incomplete=True)
                    check(
                        same(got, expected_raw(fn, where, finished)),
                        "raw partial reap wrong for {}".format(fn.__name__),
                    )
                    check(snapshot(crop.location) == before)

                    ds = crop.reap_combos_to_ds(
                        var_names=var_names,
                        var_dims=var_dims,
                        allow_incomplete=True,
                    )
                    ds_full = check_ds(ds, fn, where, finished)
                    check(snapshot(crop.location) == before)

                    if df_ok:
                        df = crop.reap_combos_to_ds(
                            var_names=var_names,
                            allow_incomplete=True,
                            to_df=True,
                        )
                        check_df(df, fn, where, finished)
                        check(snapshot(crop.location) == before)

                    crop.grow_missing(verbosity=0)
                    ds2 = crop.reap_combos_to_ds(
                        var_names=var_names,
                        var_dims=var_dims,
                        allow_incomplete=True,
                    )
                    check(ds2.identical(ds_full))
                    check(same(crop.reap(), full))
                    check(not os.path.exists(crop.location))


def make_crop(kind, tdir):
    """A crop of 3 batches of 2, and how to reap it in the given way."""
    if kind in ("raw", "ds", "df"):
        crop = Crop(fn=f_scalar, parent_dir=tdir, batchsize=2)
        farmer = None
    else:
        runner = Runner(f_scalar, var_names="x")
        if kind in ("runner", "runner_df"):
            farmer = runner
        elif kind == "harvester":
            farmer = Harvester(runner, os.path.join(tdir, "data.h5"))
        elif kind == "sampler":
            farmer = Sampler(runner, os.path.join(tdir, "data.pkl"))
        crop = farmer.Crop(name="f", parent_dir=tdir, batchsize=2)

    if kind == "sampler":
        np.random.seed(7)
        crop.sow_samples(6, combos={"a": A, "b": B}, verbosity=0)
    else:
        crop.sow_combos(COMBOS, verbosity=0)
    check(crop.num_batches == 3)

    def reap(**opts):
        if kind == "raw":
            return crop.reap_combos(**opts)
        if kind == "ds":
            return crop.reap_combos_to_ds(var_names=["x"], **opts)
        if kind == "df":
            return crop.reap_combos_to_ds(var_names=["x"], to_df=True, **opts)
        if kind == "runner_df":
            return crop.reap_runner(farmer, to_df=True, **opts)
        return crop.reap(**opts)

    return crop, farmer, reap


def layout_of(kind, crop):
    """Which batch every result belongs to - read off the batch files, so do
    this before the crop might be deleted.
    """
    if kind != "sampler":
        return batch_of_each_setting(crop)
    # one row per sample, in the order sown
    rows = []
    for i in range(1, 4):
        fname = os.path.join(
            crop.location, "batches", "xyz-batch-{}.jbdmp".format(i)
        )
        with open(fname, "rb") as fh:
            rows.extend((kws["a"], kws["b"], i) for kws in pickle.load(fh))
    return rows


def check_result(kind, layout, farmer, got, finished):
    """Exact where finished, missing elsewhere - for every kind of reap."""
    if kind == "sampler":
        check(len(got) == len(layout) == 6)
        check(list(got.columns) == ["a", "b", "x"])
        for r, (a, b, i) in zip(got.itertuples(), layout):
            check((r.a, r.b) == (a, b))
            if i in finished:
                check(r.x == f_scalar(a, b))
            else:
                check(np.isnan(r.x))
        check(farmer.last_df is got)
    elif kind == "raw":
        check(same(got, expected_raw(f_scalar, layout, finished)))
    elif kind in ("df", "runner_df"):
        check_df(got, f_scalar, layout, finished)
        if kind == "runner_df":
            check(farmer._last_df is got)
    else:
        check(isinstance(got, xr.Dataset))
        check_ds(got, f_scalar, layout, finished)
        if kind in ("runner", "harvester"):
            check(farmer.last_ds is got)


KINDS = ("raw", "ds", "df", "runner", "runner_df", "harvester", "sampler")


def clean_up_matrix():
    """When is the crop deleted, when is it refused, for every kind of reap,
    complete or not, and every ``clean_up`` / ``allow_incomplete`` choice.
    """
    all_three = (1, 2, 3)
    for kind, finished, allow, clean_up in itertools.product(
        KINDS,
        [(2,), (1, 3), all_three],
        [False, True],
        [None, False, True, 0, 1],
    ):
        with tempfile.TemporaryDirectory() as tdir:
            crop, farmer, reap = make_crop(kind, tdir)
            layout = layout_of(kind, crop)
            grow(crop, finished)
            before = snapshot(crop.location)
            check(os.listdir(tdir) == [os.path.basename(crop.location)])

            opts = dict(allow_incomplete=allow)
            if clean_up is not None:
                opts["clean_up"] = clean_up

            if finished != all_three and not allow:
                # refused, with nothing touched at all
                raises(XYZError, NOT_READY, reap, **opts)
                check(snapshot(crop.location) == before)
                check(os.listdir(tdir) == [os.path.basename(crop.location)])
                if farmer is not None:
                    check(getattr(farmer, "last_ds", None) is None)
                    check(getattr(farmer, "_last_df", None) is None)
                continue

            got = reap(**opts)
            check_result(kind, layout, farmer, got, finished)

            deleted = bool(clean_up) if clean_up is not None else (not allow)
            if deleted:
                check(not os.path.exists(crop.location), "crop not deleted")
            else:
                check(snapshot(crop.location) == before, "crop touched")

            # synced to disk?
            if kind == "harvester":
                check(os.path.isfile(farmer.data_name))
                on_disk = xyzpy.load_ds(farmer.data_name)
                check(on_disk["x"].equals(got["x"]))
                on_disk.close()
            if kind == "sampler":
                check(os.path.isfile(farmer.data_name))
                on_disk = xyzpy.load_df(farmer.data_name)
                check(on_disk.equals(got))
                os.remove(farmer.data_name)
                farmer._full_df = None

            # carry on growing, then the full reap is exact
            if not deleted:
                crop.grow_missing(verbosity=0)
                check(crop.missing_results() == ())
                full = reap()
                check_result(kind, layout, farmer, full, all_three)
                check(not os.path.exists(crop.location))
                if kind == "harvester":
                    check_ds(farmer.full_ds, f_scalar, layout, all_three)
                if kind == "sampler":
                    check(farmer.full_df.equals(full))


def deferred_clean_up():
    """Harvester / Sampler reaps only delete after a successful sync."""
    for kind, allow in itertools.product(["harvester", "sampler"], [0, 1]):
        with tempfile.TemporaryDirectory() as tdir:
            crop, farmer, reap = make_crop(kind, tdir)
            grow(crop, (1, 2, 3))
            before = snapshot(crop.location)

            class Boom(Exception):
                pass

            def boom(*args, **kwargs):
                raise Boom("sync failed")

            if kind == "harvester":
                farmer.add_ds = boom
            else:
                farmer.add_df = boom

            raises(Boom, "sync failed", reap, clean_up=True,
                   allow_incomplete=bool(allow))
            check(snapshot(crop.location) == before)
            raises(Boom, "sync failed", reap, allow_incomplete=bool(allow))
            check(snapshot(crop.location) == before)

            # without syncing nothing is added, the crop is still deleted
            # exactly when asked / by default
            if kind == "harvester":
                got = crop.reap_harvest(
                    farmer, sync=False, allow_incomplete=bool(allow)
                )
                check(isinstance(got, xr.Dataset))
            else:
                got = crop.reap_samples(
                    farmer, sync=False, allow_incomplete=bool(allow)
                )
                check(len(got) == 6)
            check(os.path.exists(crop.location) == bool(allow))
            check(not os.path.exists(farmer.data_name))

    with tempfile.TemporaryDirectory() as tdir:
        crop = new_crop(f_scalar, tdir, batchsize=2)
        grow(crop, [1])
        before = snapshot(crop.location)
        raises(
            ValueError,
            "Cannot reap and harvest if no Harvester is set.",
            crop.reap_harvest, None, allow_incomplete=True,
        )
        raises(
            ValueError,
            "Cannot reap samples without a 'Sampler'.",
            crop.reap_samples, None, allow_incomplete=True,
        )
        check(snapshot(crop.location) == before)


def harvester_accumulates():
    """Partial reaps into a Harvester, carrying on growing in between."""
    with tempfile.TemporaryDirectory() as tdir:
        crop, harvester, reap = make_crop("harvester", tdir)
        where = batch_of_each_setting(crop)
        done = ()
        for i in (3, 1, 2):
            grow(crop, [i])
            done += (i,)
            if len(done) < 3:
                raises(XYZError, NOT_READY, reap)
            ds = reap(allow_incomplete=True)
            check(os.path.isdir(crop.location))
            check_ds(ds, f_scalar, where, done)
            check_ds(harvester.full_ds, f_scalar, where, done)
        # a crop made afresh, loading the harvester from disk
        fresh = Crop(name="f", parent_dir=tdir)
        check(fresh.farmer is not None and fresh.farmer is not harvester)
        ds = fresh.reap()
        check_ds(ds, f_scalar, where, done)
        check(not os.path.exists(crop.location))
        check(ds["x"].dtype.kind == "i")


def order_of_checks():
    """Which complaint comes first when several things are wrong."""
    with tempfile.TemporaryDirectory() as tdir:
        crop = new_crop(f_scalar, tdir, batchsize=2)
        settings = os.path.join(crop.location, "xyz-settings.jbdmp")
        no_settings = "Settings can't be found at {}.".format(settings)
        before = snapshot(crop.location)

        # no results at all
        for reap in (crop.reap, crop.reap_combos,
                     lambda **kw: crop.reap_combos_to_ds("x", **kw)):
            raises(XYZError, NOT_READY, reap)
            raises(XYZError, NOT_READY, reap, clean_up=True)
            raises(XYZError, NO_REFERENCE, reap, allow_incomplete=True)
            raises(XYZError, NO_REFERENCE, reap, allow_incomplete=True,
                   clean_up=True)
            raises(XYZError, NO_REFERENCE, reap, allow_incomplete=True,
                   wait=True)
        check(snapshot(crop.location) == before)

        # ... and no settings file either
        hidden = settings + ".hidden"
        os.rename(settings, hidden)
        for reap in (crop.reap, crop.reap_combos,
                     lambda **kw: crop.reap_combos_to_ds("x", **kw)):
            raises(XYZError, NOT_READY, reap)
            raises(XYZError, NO_REFERENCE, reap, allow_incomplete=True)
            raises(XYZError, no_settings, reap, wait=True)
        os.rename(hidden, settings)

        # one result, no settings
        grow(crop, [2])
        os.rename(settings, hidden)
        for reap in (crop.reap, crop.reap_combos,
                     lambda **kw: crop.reap_combos_to_ds("x", **kw)):
            raises(XYZError, NOT_READY, reap)
            raises(XYZError, no_settings, reap, allow_incomplete=True)
            raises(XYZError, no_settings, reap, allow_incomplete=True,
                   clean_up=True)
        # the settings are looked for before the constants are parsed
        raises(XYZError, no_settings, crop.reap_combos_to_ds, "x",
               constants=3, allow_incomplete=True)
        os.rename(hidden, settings)
        raises(TypeError, None, crop.reap_combos_to_ds, "x",
               constants=3, allow_incomplete=True)
        raises(XYZError, NOT_READY, crop.reap_combos_to_ds, "x", constants=3)
        check(os.path.isdir(crop.location))

        # the stand-in is worked out once, and kept
        nan = crop.all_nan_result
        check(isinstance(nan, float) and np.isnan(nan))
        got = crop.reap(allow_incomplete=True)
        check(all(x is nan for row in got for x in row if x != x))
        check(crop.all_nan_result is nan)


def waiting():
    """``wait=True`` blocks for the unfinished batches instead."""
    full = tuple(tuple(f_scalar(a, b) for b in B) for a in A)

    for allow, clean_up in itertools.product([False, True], [None, 0, 1]):
        with tempfile.TemporaryDirectory() as tdir:
            crop = new_crop(f_scalar, tdir, batchsize=2)
            grow(crop, [2])

            def later():
                time.sleep(0.4)
                xyzpy.Crop(name=crop.name, parent_dir=tdir).grow(
                    3, verbosity=0
                )
                time.sleep(0.2)
                xyzpy.Crop(name=crop.name, parent_dir=tdir).grow(
                    1, verbosity=0
                )

            t = threading.Thread(target=later)
            t0 = time.time()
            t.start()
            try:
                got = crop.reap(
                    wait=True, allow_incomplete=allow, clean_up=clean_up
                )
            finally:
                t.join()
            check(time.time() - t0 >= 0.5, "did not wait")
            # waited for the real values, no stand-ins
            check(same(got, full), "waited reap wrong")
            deleted = bool(clean_up) if clean_up is not None else (not allow)
            check(os.path.exists(crop.location) != deleted)


def main():
    partial_reaps_exhaustive()
    partial_reaps_result_kinds()
    clean_up_matrix()
    deferred_clean_up()
    harvester_accumulates()
    order_of_checks()
    waiting()


if __name__ == "__main__":
    # progress bars go to stderr - keep the output readable
    real_stderr = sys.stderr
    sys.stderr = open(os.devnull, "w")
    try:
        main()
    except BaseException:
        sys.stderr = real_stderr
        traceback.print_exc(file=sys.stdout)
        print("FAIL")
        sys.exit(1)
    sys.stderr = real_stderr
    print("PASS ({} checks)".format(NCHECKS[0]))
