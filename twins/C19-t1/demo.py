"""C19 demo 1: RunningCovarianceMatrix (and the RunningCovariance objects it
drives) must reproduce the whole-sample count / means / covariance matrix,
however the data are fed (one at a time, in chunks, permuted).

Run as:  cd <worktree> && /venv/bin/python /path/to/demo.py
"""
import os
import sys

sys.path.insert(0, os.getcwd())

import itertools

import numpy as np
import xyzpy as xyz

assert os.path.dirname(os.path.abspath(xyz.__file__)) == os.path.join(
    os.getcwd(), "xyzpy"
), xyz.__file__

EPS = np.finfo(float).eps
NCHECK = 0


def check(cond, msg):
    global NCHECK
    NCHECK += 1
    if not cond:
        print("FAIL:", msg)
        sys.exit(1)


# ---- verbatim reference copy of the pair-wise recurrence (bitwise oracle) --


class RefCov:
    def __init__(self):
        self.count = 0
        self.xmean = 0.0
        self.ymean = 0.0
        self.C = 0.0

    def update(self, x, y):
        self.count += 1
        dx = x - self.xmean
        dy = y - self.ymean
        self.xmean += dx / self.count
        self.ymean += dy / self.count
        self.C += dx * (y - self.ymean)


def ref_matrices(series):
    n = len(series)
    rcs = {}
    for i in range(n):
        for j in range(i, n):
            rcs[i, j] = rc = RefCov()
            for x, y in zip(series[i], series[j]):
                rc.update(x, y)
    pop = np.empty((n, n))
    smp = np.empty((n, n))
    for i in range(n):
        for j in range(n):
            rc = rcs[min(i, j), max(i, j)]
            pop[i, j] = rc.C / rc.count
            smp[i, j] = rc.C / (rc.count - 1) if rc.count > 1 else np.nan
    return pop, smp, [rcs[i, i].xmean for i in range(n)]


def make_series(rng, k, n, offset, spread):
    """k correlated series of length n, around ``offset`` with ``spread``."""
    base = rng.standard_normal(n)
    out = []
    for m in range(k):
        rho = rng.uniform(-1, 1)
        z = rho * base + (1 - rho**2) ** 0.5 * rng.standard_normal(n)
        out.append((offset * (1 + 0.1 * m) + spread * z).tolist())
    return out


def chunkings(n, rng):
    yield [n]
    yield [1] * n
    if n > 3:
        cuts = sorted(set(rng.integers(1, n, size=3).tolist()))
        edges = [0] + cuts + [n]
        yield [b - a for a, b in zip(edges, edges[1:])]


def feed(rcm, series, chunks, mode):
    pos = 0
    for c in chunks:
        part = [s[pos : pos + c] for s in series]
        pos += c
        if mode == "it":
            rcm.update_from_it(*part)
        elif mode == "gen":
            # one-shot iterators can't be used for off-diagonals, use tuples
            rcm.update_from_it(*(tuple(p) for p in part))
        else:
            for row in zip(*part):
                rcm.update(*row)


def close_to_numpy(rcm, series):
    a = np.array(series, dtype=float)
    k, n = a.shape
    scale = np.abs(a).max(axis=1)
    dev = a - a.mean(axis=1, keepdims=True)
    std = np.sqrt((dev**2).mean(axis=1))
    # error unit for entry (i, j): rounding at the data scale times spread
    unit = EPS * (
        np.outer(scale, np.maximum(std, EPS * scale))
        + np.outer(np.maximum(std, EPS * scale), scale)
    )
    want = dev @ dev.T / n
    got = rcm.covar_matrix
    check(got.shape == (k, k), "shape")
    check(np.all(np.abs(got - want) <= 64 * unit), f"covar_matrix\n{got}\n{want}")
    check(np.array_equal(got, got.T), "covar_matrix symmetric")
    if n > 1:
        want_s = np.cov(a, bias=False).reshape(k, k)
        got_s = rcm.sample_covar_matrix
        check(
            np.all(np.abs(got_s - want_s) <= 64 * unit * n / (n - 1)),
            f"sample_covar_matrix\n{got_s}\n{want_s}",
        )
        check(np.array_equal(got_s, got_s.T), "sample_covar_matrix symmetric")
    for i in range(k):
        check(
            abs(rcm.rcs[i, i].xmean - a[i].mean()) <= 64 * EPS * scale[i],
            "mean",
        )
        check(rcm.rcs[i, i].xmean == rcm.rcs[i, i].ymean, "x/y mean")


def main():
    rng = np.random.default_rng(19)

    # structure of a fresh object
    for k in (1, 2, 3, 4):
        rcm = xyz.RunningCovarianceMatrix(n=k)
        check(rcm.n == k, "n")
        check(
            list(rcm.rcs)
            == [(i, j) for i in range(k) for j in range(i, k)],
            "keys / order of rcs",
        )
        check(
            all(type(v) is xyz.RunningCovariance for v in rcm.rcs.values()),
            "rcs values",
        )
        check(len({id(v) for v in rcm.rcs.values()}) == k * (k + 1) // 2, "distinct")
        check(rcm.count == 0, "count 0")
        try:
            rcm.covar_matrix
        except ZeroDivisionError:
            pass
        else:
            check(False, "covar_matrix on empty should raise ZeroDivisionError")
        # 0.0 / (0 - 1) for every entry
        empty = rcm.sample_covar_matrix
        check(empty.shape == (k, k) and not empty.any(), "empty sample covar")
        check(np.signbit(empty).all(), "empty sample covar is -0.0")
    check(xyz.RunningCovarianceMatrix().n == 2, "default n")

    # one sample: covar is 0, sample covar undefined
    rcm = xyz.RunningCovarianceMatrix(3)
    rcm.update(1.0, 2.0, 3.0)
    check(rcm.count == 1, "count 1")
    check(np.array_equal(rcm.covar_matrix, np.zeros((3, 3))), "single covar")
    try:
        rcm.sample_covar_matrix
    except ZeroDivisionError:
        pass
    else:
        check(False, "sample covar of one sample should raise")

    # the main sweep
    for k in (2, 3, 4):
        for n in (2, 3, 7, 60, 500):
            for offset, spread in [
                (0.0, 1.0),
                (1e9, 1e-3),
                (-1e9, 1.0),
                (1e6, 1e3),
                (3.0, 1e-3),
            ]:
                series = make_series(rng, k, n, offset, spread)
                ref_pop, ref_smp, ref_means = ref_matrices(series)
                first = None
                for chunks in chunkings(n, rng):
                    for mode in ("it", "gen", "single"):
                        rcm = xyz.RunningCovarianceMatrix(n=k)
                        feed(rcm, series, chunks, mode)
                        check(rcm.count == n, "count")
                        check(
                            all(rc.count == n for rc in rcm.rcs.values()),
                            "all pair counts",
                        )
                        close_to_numpy(rcm, series)
                        # chunking must not matter at all (same recurrence)
                        got = (
                            rcm.covar_matrix.tobytes(),
                            rcm.sample_covar_matrix.tobytes(),
                        )
                        if first is None:
                            first = got
                        check(got == first, "chunking changes bits")
                        check(
                            got == (ref_pop.tobytes(), ref_smp.tobytes()),
                            "differs from reference recurrence",
                        )
                        check(
                            [rcm.rcs[i, i].xmean for i in range(k)]
                            == ref_means,
                            "means differ from reference recurrence",
                        )
                        m1 = rcm.covar_matrix
                        m2 = rcm.covar_matrix
                        check(m1 is not m2 and np.array_equal(m1, m2), "fresh")
                        check(m1.dtype == np.float64, "dtype")
                # permutation of the samples: same stats up to rounding
                perm = rng.permutation(n)
                pseries = [[s[p] for p in perm] for s in series]
                rcm = xyz.RunningCovarianceMatrix(n=k)
                rcm.update_from_it(*pseries)
                close_to_numpy(rcm, series)
                # permutation of the series: permuted matrix
                sperm = rng.permutation(k)
                rcm2 = xyz.RunningCovarianceMatrix(n=k)
                rcm2.update_from_it(*[series[p] for p in sperm])
                close_to_numpy(rcm2, [series[p] for p in sperm])

    # perfectly correlated example from the docstring
    rcm = xyz.RunningCovarianceMatrix()
    rcm.update_from_it((1, 3, 2), (2, 6, 4))
    want = np.cov([[1, 3, 2], [2, 6, 4]], bias=True)
    check(np.allclose(rcm.covar_matrix, want, rtol=1e-14, atol=0), "doc ex")
    check(
        np.allclose(rcm.sample_covar_matrix, want * 3 / 2, rtol=1e-14, atol=0),
        "doc ex sample",
    )
    # integer input and mixed update / update_from_it
    rcm.update(5, 1)
    rcm.update_from_it([0, 0], [7, -7])
    a = np.array([[1, 3, 2, 5, 0, 0], [2, 6, 4, 1, 7, -7]], dtype=float)
    check(rcm.count == 6, "mixed count")
    check(np.allclose(rcm.covar_matrix, np.cov(a, bias=True), rtol=1e-13), "mixed")
    check(np.allclose(rcm.sample_covar_matrix, np.cov(a), rtol=1e-13), "mixed s")

    # extra trailing series beyond n are ignored, too few raise IndexError
    rcm = xyz.RunningCovarianceMatrix(2)
    rcm.update(1.0, 2.0, 99.0)
    rcm.update_from_it([3.0], [5.0], [99.0])
    check(rcm.count == 2, "extra ignored")
    check(np.allclose(rcm.covar_matrix, np.cov([[1, 3], [2, 5]], bias=True)), "extra")
    for call in (lambda r: r.update(1.0), lambda r: r.update_from_it([1.0])):
        r = xyz.RunningCovarianceMatrix(2)
        try:
            call(r)
        except IndexError:
            pass
        else:
            check(False, "too few series should raise IndexError")

    # to_uncertainties uses the same matrices (optional dependency)
    try:
        import uncertainties  # noqa
    except ImportError:
        pass
    else:
        series = make_series(rng, 3, 40, 10.0, 1.0)
        rcm = xyz.RunningCovarianceMatrix(3)
        rcm.update_from_it(*series)
        for bias in (True, False):
            vals = rcm.to_uncertainties(bias=bias)
            cm = np.array(uncertainties.covariance_matrix(vals))
            want = rcm.covar_matrix if bias else rcm.sample_covar_matrix
            check(np.allclose(cm, want, rtol=1e-9), "uncertainties covar")
            check(
                np.allclose(
                    [v.nominal_value for v in vals],
                    np.mean(series, axis=1),
                    rtol=1e-12,
                ),
                "uncertainties means",
            )

    print(f"{NCHECK} checks")
    print("PASS")


if __name__ == "__main__":
    main()
