"""Demo / check for property C13 (missing-data discovery).

Run as ``cd <worktree> && /venv/bin/python /path/to/demo.py``.  Exercises
``is_case_missing``, ``find_missing_cases`` and ``parse_into_cases`` against an
independent numpy oracle, plus the find -> harvest -> find loop.
"""
import os
import sys

sys.path.insert(0, os.getcwd())

import warnings

warnings.simplefilter('ignore')

import io
import itertools
import contextlib
import tempfile
import shutil

import numpy as np
import xarray as xr

import xyzpy
from xyzpy import (
    Runner,
    Harvester,
    find_missing_cases,
    is_case_missing,
    parse_into_cases,
)

assert os.path.abspath(xyzpy.__file__).startswith(os.getcwd()), xyzpy.__file__

NCHECKS = 0


def check(cond, msg=''):
    global NCHECKS
    NCHECKS += 1
    if not cond:
        raise AssertionError(msg)


# --------------------------------------------------------------------------- #
#                                   oracle                                    #
# --------------------------------------------------------------------------- #

def null_mask(values, method):
    values = np.asarray(values)
    if method == 'isnull':
        if values.dtype.kind in 'fc':
            return np.isnan(values)
        if values.dtype.kind == 'O':
            flat = [(v is None) or (isinstance(v, float) and v != v)
                    for v in values.ravel()]
            return np.array(flat, dtype=bool).reshape(values.shape)
        return np.zeros(values.shape, dtype=bool)
    elif method == 'isfinite':
        return ~np.isfinite(values)
    raise ValueError(method)


def oracle_location_missing(ds, setting, method):
    """Independent (pure numpy, positional) re-implementation."""
    variables = ({ds.name: ds} if isinstance(ds, xr.DataArray)
                 else dict(ds.data_vars))
    for da in variables.values():
        ix = []
        for d in da.dims:
            if d in setting:
                coo = list(ds[d].values)
                if setting[d] not in coo:
                    return True
                ix.append(coo.index(setting[d]))
            else:
                ix.append(slice(None))
        if not null_mask(da.values[tuple(ix)], method).all():
            return False
    # also coordinates of the dataset that no variable uses
    for d, v in setting.items():
        if v not in list(ds[d].values):
            return True
    return True


def oracle_find(ds, ignore, method):
    fn_args = tuple(d for d in ds.dims if d not in ignore)
    out = []
    for loc in itertools.product(*(list(ds[d].values) for d in fn_args)):
        if oracle_location_missing(ds, dict(zip(fn_args, loc)), method):
            out.append(loc)
    return fn_args, tuple(out)


# --------------------------------------------------------------------------- #
#                             dataset generation                              #
# --------------------------------------------------------------------------- #

def random_dataset(rng, ndim, nvar, string_coords, with_inf):
    names = ['a', 'b', 'c', 'd'][:ndim]
    coords = {}
    for i, n in enumerate(names):
        size = int(rng.integers(1, 4))
        if string_coords and i % 2 == 0:
            coords[n] = ['s{}'.format(j) for j in range(size)]
        else:
            coords[n] = [10 * (i + 1) + j for j in range(size)]
    coords['t'] = [0.1, 0.2, 0.3]
    ds = xr.Dataset(coords=coords)
    shape = tuple(len(coords[n]) for n in names)

    for k in range(nvar):
        internal = (k % 2 == 1)
        dims = tuple(names) + (('t',) if internal else ())
        shp = shape + ((3,) if internal else ())
        data = rng.normal(size=shp)
        # whole cell nulls, shared between variables with probability
        cell_null = rng.random(shape) < 0.45
        if internal:
            data[cell_null] = np.nan
            # partial-cell nulls
            partial = rng.random(shp) < 0.15
            data[partial] = np.nan
        else:
            data[cell_null] = np.nan
        if with_inf:
            infs = rng.random(shp) < 0.1
            data[infs] = np.inf
        ds['v{}'.format(k)] = (dims, data)
    return ds, names


def shared_null_dataset(rng, ndim, nvar):
    """All variables share the whole-cell null pattern (so many locations are
    really missing), plus some per-variable extras."""
    ds, names = random_dataset(rng, ndim, nvar, False, False)
    shape = tuple(ds.sizes[n] for n in names)
    cell_null = rng.random(shape) < 0.5
    for k in range(nvar):
        v = ds['v{}'.format(k)].values
        v[cell_null] = np.nan
    return ds, names


# --------------------------------------------------------------------------- #
#                                   checks                                    #
# --------------------------------------------------------------------------- #

def check_find_against_oracle():
    rng = np.random.default_rng(1234)
    nreported = 0
    for ndim in (1, 2, 3, 4):
        for nvar in (1, 2, 3):
            for string_coords in (False, True):
                for rep in range(2):
                    if rep == 0:
                        ds, names = random_dataset(
                            rng, ndim, nvar, string_coords, with_inf=True)
                    else:
                        ds, names = shared_null_dataset(rng, ndim, nvar)
                    for method in ('isnull', 'isfinite'):
                        for ignore in ('t', ['t'], {'t'}, ('t',)):
                            args, cases = find_missing_cases(
                                ds, ignore_dims=ignore, method=method)
                            o_args, o_cases = oracle_find(ds, {'t'}, method)
                            check(isinstance(args, tuple))
                            check(isinstance(cases, tuple))
                            check(args == o_args, (args, o_args))
                            check(cases == o_cases, (cases, o_cases))
                            check(len(set(cases)) == len(cases))
                            nreported += len(cases)
                        # every reported -> is_case_missing, unreported -> not
                        rset = set(cases)
                        for loc in itertools.product(
                                *(ds[a].values for a in args)):
                            s = dict(zip(args, loc))
                            check(is_case_missing(ds, s, method=method)
                                  == (loc in rset))
    check(nreported > 100, nreported)


def check_ignore_dims_forms():
    ds = xr.Dataset(coords={'a': [1, 2, 3], 'b': [40, 50],
                            't': [0.1, 0.2, 0.3]})
    ds['x'] = (('a', 'b'), np.array([[0.1, np.nan],
                                     [np.nan, 0.2],
                                     [np.nan, np.nan]]))
    ds['y'] = (('a', 'b', 't'), np.array([[[0.2] * 3, [np.nan] * 3],
                                          [[np.nan] * 3, [0.4] * 3],
                                          [[np.nan] * 3, [np.nan] * 3]]))
    target = ((1, 50), (2, 40), (3, 40), (3, 50))
    for ign in ('t', ['t'], {'t'}, ('t',), frozenset({'t'}), ['t', 'zzz'],
                iter(['t'])):
        args, cases = find_missing_cases(ds, ignore_dims=ign)
        check(args == ('a', 'b'))
        check(cases == target, cases)

    # nothing ignored: None / empty forms all equivalent, 't' becomes an arg
    ref = None
    for ign in (None, (), [], set(), ''):
        args, cases = find_missing_cases(ds, ignore_dims=ign)
        check(set(args) == {'a', 'b', 't'})
        check(args == tuple(ds.dims))
        if ref is None:
            ref = cases
        check(cases == ref)
    # with t a location: (3, *, *) all missing, y's cells give (1,50,*)
    o_args, o_cases = oracle_find(ds, set(), 'isnull')
    check(ref == o_cases)
    check(len(ref) == 12, ref)

    # ignoring a "real" dimension: only locations null across all of it
    args, cases = find_missing_cases(ds, ignore_dims=['t', 'b'])
    check(args == ('a',))
    check(cases == ((3,),), cases)
    args, cases = find_missing_cases(ds, ignore_dims=['t', 'a'])
    check(args == ('b',))
    check(cases == (), cases)
    # everything ignored -> single empty location, not missing here
    args, cases = find_missing_cases(ds, ignore_dims=['t', 'a', 'b'])
    check(args == ())
    check(cases == ())
    # ... but missing if everything null
    ds0 = xr.full_like(ds, np.nan)
    args, cases = find_missing_cases(ds0, ignore_dims=['t', 'a', 'b'])
    check(args == () and cases == ((),), cases)
    args, cases = find_missing_cases(ds0, ignore_dims='t')
    check(cases == tuple(itertools.product([1, 2, 3], [40, 50])))

    # string-valued data & multiple variables (existing test)
    ds2 = ds.drop_vars('y')
    ds2['y'] = (('a', 'b'), np.array([['a', None],
                                      [None, 'b'],
                                      [None, None]]))
    args, cases = find_missing_cases(ds2, ignore_dims='t')
    check(cases == target)
    # partially filled: x null but y not -> not missing
    ds2['y'].values[2, 1] = 'c'
    args, cases = find_missing_cases(ds2, ignore_dims='t')
    check(cases == ((1, 50), (2, 40), (3, 40)), cases)

    # grid order & values are the coordinate values (numpy scalars)
    check(all(isinstance(c, tuple) for c in cases))

    # progress bar switched on: same result, output goes to stderr only
    err, out = io.StringIO(), io.StringIO()
    with contextlib.redirect_stderr(err), contextlib.redirect_stdout(out):
        args_p, cases_p = find_missing_cases(ds, ignore_dims='t',
                                             show_progbar=True)
    check((args_p, cases_p) == (('a', 'b'), target))
    check(out.getvalue() == '')
    check('6it' in err.getvalue(), err.getvalue())
    err = io.StringIO()
    with contextlib.redirect_stderr(err):
        find_missing_cases(ds, ignore_dims='t', show_progbar=False)
    check(err.getvalue() == '')


def check_is_case_missing_edges():
    ds = xr.Dataset(coords={'a': [1, 2, 3], 'b': ['x', 'y'],
                            't': [0.1, 0.2, 0.3]})
    ds['p'] = (('a', 'b'), np.array([[0.1, np.nan],
                                     [np.inf, -np.inf],
                                     [np.nan, np.nan]]))
    ds['q'] = (('a', 'b', 't'), np.full((3, 2, 3), np.nan))
    ds['q'].values[0, 1, 2] = 7.0

    r = is_case_missing(ds, {'a': 1, 'b': 'x'})
    check(r is False, repr(r))
    check(type(is_case_missing(ds, {'a': 3, 'b': 'x'})) is bool)
    # partial cell of q has data
    check(is_case_missing(ds, {'a': 1, 'b': 'y'}) is False)
    check(is_case_missing(ds, {'a': 1, 'b': 'y', 't': 0.1}) is True)
    check(is_case_missing(ds, {'a': 1, 'b': 'y', 't': 0.3}) is False)
    # infinities: present for isnull, missing for isfinite
    check(is_case_missing(ds, {'a': 2, 'b': 'x'}) is False)
    check(is_case_missing(ds, {'a': 2, 'b': 'x'}, method='isnull') is False)
    check(is_case_missing(ds, {'a': 2, 'b': 'x'}, method='isfinite') is True)
    check(is_case_missing(ds, {'a': 2, 'b': 'y'}, 'isfinite') is True)
    check(is_case_missing(ds, {'a': 1, 'b': 'x'}, 'isfinite') is False)
    check(is_case_missing(ds, {'a': 3, 'b': 'y'}, 'isfinite') is True)
    check(is_case_missing(ds, {'a': 3, 'b': 'y'}) is True)
    # partial setting (only some dims)
    check(is_case_missing(ds, {'a': 3}) is True)
    check(is_case_missing(ds, {'a': 2}) is False)
    check(is_case_missing(ds, {'a': 2}, 'isfinite') is True)
    check(is_case_missing(ds, {}) is False)
    # coordinates absent -> missing
    check(is_case_missing(ds, {'a': 4, 'b': 'x'}) is True)
    check(is_case_missing(ds, {'a': 1, 'b': 'zzz'}) is True)
    check(is_case_missing(ds, {'a': 4, 'b': 'x'}, method='isfinite') is True)
    # absent coordinates are detected before the method is looked at
    check(is_case_missing(ds, {'a': 4, 'b': 'x'}, method='bogus') is True)
    # unknown method
    for setting in ({'a': 1, 'b': 'x'}, {'a': 3, 'b': 'y'}, {}):
        try:
            is_case_missing(ds, setting, method='bogus')
        except ValueError as e:
            check(str(e) == 'Unknown method: bogus', str(e))
        else:
            check(False, 'no ValueError')
    try:
        find_missing_cases(ds, ignore_dims='t', method='isnan')
    except ValueError as e:
        check(str(e) == 'Unknown method: isnan', str(e))
    else:
        check(False, 'no ValueError')
    # unknown dimension name in setting: a KeyError from xarray -> missing
    for method in ('isnull', 'isfinite', 'bogus'):
        check(is_case_missing(ds, {'nodim': 1}, method=method) is True)
        check(is_case_missing(ds['p'], {'nodim': 1}, method=method) is True)

    # DataArray input
    da = ds['p']
    check(is_case_missing(da, {'a': 1, 'b': 'y'}) is True)
    check(is_case_missing(da, {'a': 1, 'b': 'x'}) is False)
    check(is_case_missing(da, {'a': 2, 'b': 'y'}) is False)
    check(is_case_missing(da, {'a': 2, 'b': 'y'}, method='isfinite') is True)
    check(is_case_missing(da, {'a': 9, 'b': 'y'}) is True)
    check(is_case_missing(da, {'a': 3}) is True)
    try:
        is_case_missing(da, {'a': 3}, method='nope')
    except ValueError as e:
        check(str(e) == 'Unknown method: nope')
    else:
        check(False)
    dq = ds['q']
    check(is_case_missing(dq, {'a': 1, 'b': 'y'}) is False)
    check(is_case_missing(dq, {'a': 1, 'b': 'x'}) is True)

    # string / object data: isnull works, isfinite is a TypeError
    dso = xr.Dataset(coords={'a': [1, 2]})
    dso['s'] = (('a',), np.array(['w', None], dtype=object))
    check(is_case_missing(dso, {'a': 1}) is False)
    check(is_case_missing(dso, {'a': 2}) is True)
    try:
        is_case_missing(dso, {'a': 2}, method='isfinite')
    except TypeError:
        check(True)
    else:
        check(False, 'expected TypeError')
    # ... but absent coordinates still win
    check(is_case_missing(dso, {'a': 3}, method='isfinite') is True)

    # dataset with no variables: nothing to concatenate -> IndexError
    dse = xr.Dataset(coords={'a': [1, 2]})
    res = []
    for call in (lambda: is_case_missing(dse, {'a': 1}),
                 lambda: is_case_missing(dse, {'a': 1}, method='isfinite'),
                 lambda: find_missing_cases(dse),
                 lambda: parse_into_cases(combos={'a': [1]}, ds=dse)):
        try:
            res.append(call())
        except Exception as e:
            res.append(type(e).__name__)
    check(res == ['IndexError'] * 4, res)
    # ... absent coordinates are still found first
    check(is_case_missing(dse, {'a': 3}) is True)
    return res


def check_parse_into_cases():
    ds = xr.Dataset(coords={'a': [1, 2, 3], 'b': [40, 50]})
    ds['x'] = (('a', 'b'), np.array([[0.1, np.nan],
                                     [np.inf, 0.2],
                                     [np.nan, np.nan]]))

    # no dataset: plain expansion, cases outer / combos inner, in order
    check(parse_into_cases() == [{}])
    check(parse_into_cases(combos={'a': [1, 2]}) == [{'a': 1}, {'a': 2}])
    check(parse_into_cases(cases=[{'a': 1}, {'a': 1}]) == [{'a': 1}, {'a': 1}])
    out = parse_into_cases(combos={'b': [40, 50], 'c': 'pq'},
                           cases=[{'a': 1}, {'a': 2}])
    check(out == [
        {'a': 1, 'b': 40, 'c': 'p'}, {'a': 1, 'b': 40, 'c': 'q'},
        {'a': 1, 'b': 50, 'c': 'p'}, {'a': 1, 'b': 50, 'c': 'q'},
        {'a': 2, 'b': 40, 'c': 'p'}, {'a': 2, 'b': 40, 'c': 'q'},
        {'a': 2, 'b': 50, 'c': 'p'}, {'a': 2, 'b': 50, 'c': 'q'},
    ], out)
    check([list(c) for c in out] == [['a', 'b', 'c']] * 8)
    # combos override case values, key order from the case first
    out = parse_into_cases(combos={'a': [7]}, cases=[{'a': 1, 'b': 2}])
    check(out == [{'a': 7, 'b': 2}] and list(out[0]) == ['a', 'b'])
    check(parse_into_cases(combos={'a': []}, cases=[{'b': 1}]) == [])
    check(parse_into_cases(cases=[]) == [])
    check(parse_into_cases(combos={}, cases=[{'b': 1}]) == [{'b': 1}])
    # cases as a generator, combo values as one-shot iterators
    out = parse_into_cases(combos={'b': iter([40, 50])},
                           cases=({'a': i} for i in (1, 2)))
    check(out == [{'a': 1, 'b': 40}, {'a': 1, 'b': 50}], out)
    # fresh list each time
    r1 = parse_into_cases(combos={'a': [1]})
    r2 = parse_into_cases(combos={'a': [1]})
    check(r1 == r2 and r1 is not r2 and isinstance(r1, list))

    # with a dataset: only missing locations survive
    out = parse_into_cases(combos={'a': [1, 2, 3], 'b': [40, 50]}, ds=ds)
    check(out == [{'a': 1, 'b': 50}, {'a': 3, 'b': 40}, {'a': 3, 'b': 50}])
    out = parse_into_cases(combos={'a': [1, 2, 3], 'b': [40, 50]}, ds=ds,
                           method='isfinite')
    check(out == [{'a': 1, 'b': 50}, {'a': 2, 'b': 40},
                  {'a': 3, 'b': 40}, {'a': 3, 'b': 50}])
    # reversed order and repeated request are kept as asked for
    out = parse_into_cases(combos={'b': [50, 40], 'a': [3, 1, 3]}, ds=ds)
    check(out == [{'b': 50, 'a': 3}, {'b': 50, 'a': 1}, {'b': 50, 'a': 3},
                  {'b': 40, 'a': 3}, {'b': 40, 'a': 3}], out)
    # absent coordinates are missing
    out = parse_into_cases(combos={'a': [2, 4]}, cases=[{'b': 50}, {'b': 60}],
                           ds=ds)
    check(out == [{'b': 50, 'a': 4}, {'b': 60, 'a': 2}, {'b': 60, 'a': 4}],
          out)
    # cases only
    out = parse_into_cases(cases=[{'a': 1, 'b': 40}, {'a': 3, 'b': 40},
                                  {'a': 3}, {'a': 2}, {}], ds=ds)
    check(out == [{'a': 3, 'b': 40}, {'a': 3}], out)
    # DataArray
    out = parse_into_cases(combos={'a': [1, 2, 3]}, cases=[{'b': 40}],
                           ds=ds['x'], method='isfinite')
    check(out == [{'b': 40, 'a': 2}, {'b': 40, 'a': 3}], out)
    # bad method only matters when a dataset is given and coords present
    check(parse_into_cases(combos={'a': [1]}, method='bogus') == [{'a': 1}])
    check(parse_into_cases(combos={'a': [9]}, ds=ds, method='bogus')
          == [{'a': 9}])
    try:
        parse_into_cases(combos={'a': [1]}, ds=ds, method='bogus')
    except ValueError as e:
        check(str(e) == 'Unknown method: bogus')
    else:
        check(False)

    # agreement with find_missing_cases on the full grid
    args, cases = find_missing_cases(ds)
    full = parse_into_cases(combos={k: ds[k].values for k in args}, ds=ds)
    check(full == [dict(zip(args, c)) for c in cases])


def fn_two(a, b, c=0):
    return a + 0.5 * b + c, np.array([a, b, a * b], dtype=float) + c


def fn_one(a, b, c=0):
    return float(a) * 100 + b + c


def check_find_harvest_find():
    tmpdir = tempfile.mkdtemp()
    try:
        for ci, (fn, var_names, var_dims, var_coords, ignore) in enumerate([
            (fn_two, ['sm', 'vec'], {'vec': ['t']}, {'t': [0, 1, 2]}, 't'),
            (fn_one, 'out', None, None, None),
        ]):
            runner = Runner(fn, var_names=var_names, var_dims=var_dims,
                            var_coords=var_coords, constants={'c': 1})
            fl = os.path.join(tmpdir, 'data{}.h5'.format(ci))
            h = Harvester(runner, fl)
            # sparse, "diagonal" start
            h.harvest_cases([(1, 10), (2, 20), (4, 30)], verbosity=0)
            files_before = sorted(os.listdir(tmpdir))
            check('data{}.h5'.format(ci) in files_before)

            args, cases = find_missing_cases(h.full_ds, ignore_dims=ignore)
            check(args == ('a', 'b'), args)
            expected = tuple(
                (a, b) for a in (1, 2, 4) for b in (10, 20, 30)
                if (a, b) not in ((1, 10), (2, 20), (4, 30)))
            check(cases == expected, cases)
            for method in ('isnull', 'isfinite'):
                check(find_missing_cases(h.full_ds, ignore_dims=ignore,
                                         method=method) == (args, expected))

            # only some to start with
            first, rest = cases[:2], cases[2:]
            h.harvest_cases(first, fn_args=args, verbosity=0)
            a2, c2 = find_missing_cases(h.full_ds, ignore_dims=ignore)
            check(a2 == args and c2 == rest, c2)

            # via parse_into_cases asking for a bigger grid
            req = parse_into_cases(
                combos={'a': [1, 2, 3], 'b': [10, 40]}, ds=h.full_ds)
            check(req == [{'a': 1, 'b': 40}, {'a': 2, 'b': 10},
                          {'a': 2, 'b': 40}, {'a': 3, 'b': 10},
                          {'a': 3, 'b': 40}], req)
            h.harvest_cases(req, verbosity=0)
            check(parse_into_cases(combos={'a': [1, 2, 3], 'b': [10, 40]},
                                   ds=h.full_ds) == [])

            # now harvest exactly what is reported missing -> nothing missing
            a3, c3 = find_missing_cases(h.full_ds, ignore_dims=ignore)
            check(len(c3) > 0)
            check(len(set(c3)) == len(c3))
            h.harvest_cases(c3, fn_args=a3, verbosity=0)
            for method in ('isnull', 'isfinite'):
                a4, c4 = find_missing_cases(h.full_ds, ignore_dims=ignore,
                                            method=method)
                check(a4 == args and c4 == (), c4)
            # on-disk dataset agrees
            dsk = xyzpy.load_ds(fl)
            check(find_missing_cases(dsk, ignore_dims=ignore)[1] == ())
            check(dsk.identical(h.full_ds))
            dsk.close()
            # values are right
            full = h.full_ds
            for a in full['a'].values:
                for b in full['b'].values:
                    if fn is fn_one:
                        check(full['out'].sel(a=a, b=b).item()
                              == fn_one(a, b, 1))
                    else:
                        check(full['sm'].sel(a=a, b=b).item()
                              == fn_two(a, b, 1)[0])
        check(sorted(os.listdir(tmpdir)) == ['data0.h5', 'data1.h5'],
              os.listdir(tmpdir))
    finally:
        shutil.rmtree(tmpdir, ignore_errors=True)
    check(not os.path.exists(tmpdir))


def check_laziness_and_errors():
    """The expansion of cases x combos is interleaved with the data checks:
    an error at some location stops consumption of the inputs right there."""
    ds = xr.Dataset(coords={'a': [1, 2, 3], 'b': [40, 50]})
    ds['x'] = (('a', 'b'), np.array([[0.1, np.nan],
                                     [np.inf, 0.2],
                                     [np.nan, np.nan]]))
    consumed = []

    def gen_cases():
        for a in (7, 8, 1, 2, 3):
            consumed.append(a)
            yield {'a': a}

    # coordinates a=7, 8 are absent -> fine even with a bogus method, the
    # first present coordinate a=1 raises
    try:
        parse_into_cases(combos={'b': [40, 50]}, cases=gen_cases(), ds=ds,
                         method='bogus')
    except ValueError as e:
        check(str(e) == 'Unknown method: bogus')
    else:
        check(False)
    check(consumed == [7, 8, 1], consumed)

    # same inputs, fine method: everything consumed, order kept
    del consumed[:]
    out = parse_into_cases(combos={'b': [40, 50]}, cases=gen_cases(), ds=ds)
    check(consumed == [7, 8, 1, 2, 3])
    check(out == [{'a': 7, 'b': 40}, {'a': 7, 'b': 50},
                  {'a': 8, 'b': 40}, {'a': 8, 'b': 50},
                  {'a': 1, 'b': 50}, {'a': 3, 'b': 40}, {'a': 3, 'b': 50}])
    del consumed[:]
    out = parse_into_cases(combos={'b': [40]}, cases=gen_cases())
    check(consumed == [7, 8, 1, 2, 3])
    check(out == [{'a': a, 'b': 40} for a in (7, 8, 1, 2, 3)])

    # combos that is not a mapping fails before any case is consumed
    del consumed[:]
    try:
        parse_into_cases(combos=[('b', [40])], cases=gen_cases(), ds=ds)
    except AttributeError:
        check(True)
    else:
        check(False)
    check(consumed == [])
    # a case that is not a mapping
    try:
        parse_into_cases(combos={'b': [40]}, cases=[(1,)])
    except TypeError:
        check(True)
    else:
        check(False)

    # find_missing_cases with a bogus method: error from the first location,
    # with and without progress bar (which still only talks to stderr)
    for show in (False, True):
        err, out = io.StringIO(), io.StringIO()
        with contextlib.redirect_stderr(err), contextlib.redirect_stdout(out):
            try:
                find_missing_cases(ds, method='bogus', show_progbar=show)
            except ValueError as e:
                check(str(e) == 'Unknown method: bogus')
            else:
                check(False)
        check(out.getvalue() == '')
        check(bool(err.getvalue()) == show, err.getvalue())

    # progress bar counts every location, not just the missing ones
    err = io.StringIO()
    with contextlib.redirect_stderr(err):
        res = find_missing_cases(ds, method='isfinite', show_progbar=True)
    check(res == (('a', 'b'), ((1, 50), (2, 40), (3, 40), (3, 50))), res)
    check('6it' in err.getvalue(), err.getvalue())
    # reported locations are the coordinate values themselves
    check(all(isinstance(v, np.integer) for c in res[1] for v in c))


def main():
    check_laziness_and_errors()
    check_find_against_oracle()
    check_ignore_dims_forms()
    edge = check_is_case_missing_edges()
    check_parse_into_cases()
    check_find_harvest_find()
    print('empty-dataset behaviour:', edge)
    print('checks run:', NCHECKS)
    print('PASS')


if __name__ == '__main__':
    main()
