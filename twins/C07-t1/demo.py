"""Demo for refactoring t1 (Crop.choose_batch_settings).

Checks property C07: batches partition the work exactly and honour the
requested batch size / batch count.  Concentrates on the arithmetic and the
validation done by ``Crop.choose_batch_settings`` (all three branches: only
batchsize, only num_batches, both given) and then verifies the numbers against
the files actually written by a real sow.

Run as:  cd <worktree> && /venv/bin/python /path/to/demo.py
"""
import os
import sys

sys.path.insert(0, os.getcwd())

import glob
import itertools
import math
import re
import tempfile

import xyzpy
from xyzpy.gen.cropping import Crop, read_from_disk

assert os.path.abspath(xyzpy.__file__).startswith(os.getcwd()), xyzpy.__file__

CHECKS = 0


def check(cond, *msg):
    global CHECKS
    CHECKS += 1
    if not cond:
        print("FAIL", *msg)
        sys.exit(1)


def fn(a, b=0, c=0, k=None, r=None):
    return a + b + c


def freeze(kws):
    return tuple(sorted(kws.items()))


def load_batches(crop):
    """Return {batch_id: [kwargs, ...]} for every batch file of the crop."""
    files = glob.glob(os.path.join(crop.location, "batches", "xyz-batch-*.jbdmp"))
    out = {}
    for f in files:
        i = int(re.findall(r"xyz-batch-(\d+)\.jbdmp", os.path.basename(f))[0])
        out[i] = read_from_disk(f)
    return out


def grid_for(n):
    """Some combos whose total size is n (all factorisations into <=2 dims)."""
    grids = [{"a": list(range(n))}]
    for p in range(2, n):
        if n % p == 0:
            grids.append({"b": list(range(p)), "a": list(range(n // p))})
    return grids


def expected_settings(combos=None, cases=None, constants=None):
    constants = dict(constants or {})
    combos = combos or {}
    keys = list(combos)
    cases = cases if cases is not None else [{}]
    exp = []
    for case in cases:
        for vals in itertools.product(*(combos[k] for k in keys)):
            exp.append(freeze({**constants, **case, **dict(zip(keys, vals))}))
    return sorted(exp)


def check_partition(crop, n, expected, batchsize=None, num_batches=None):
    batches = load_batches(crop)
    B = len(batches)
    # ids are 1..B without gaps, no batch empty
    check(sorted(batches) == list(range(1, B + 1)), "ids", sorted(batches))
    sizes = [len(batches[i]) for i in range(1, B + 1)]
    check(all(s >= 1 for s in sizes), "empty batch", sizes)
    check(sum(sizes) == n, "total", sizes, n)
    # each setting exactly once, with exactly the right kwargs
    got = sorted(freeze(kws) for i in batches for kws in batches[i])
    check(got == expected, "settings differ")
    if batchsize is not None:
        check(max(sizes) <= batchsize, "too big", sizes, batchsize)
        check(B == math.ceil(n / batchsize), "B", B, n, batchsize)
        check(B == -(-n // batchsize), "B (int)", B, n, batchsize)
        check(crop.batchsize == batchsize, "reported batchsize")
        check(crop._batch_remainder == 0, "remainder")
    if num_batches is not None:
        check(B == min(num_batches, n), "B", B, n, num_batches)
        check(max(sizes) - min(sizes) <= 1, "uneven", sizes)
        # bigger batches come first
        check(sizes == sorted(sizes, reverse=True), "order", sizes)
        check(crop.batchsize == n // B, "reported batchsize (count mode)")
        check(crop._batch_remainder == n % B, "reported remainder")
    # the crop reports the same numbers, also once reloaded from disk
    check(crop.num_batches == B, "reported B", crop.num_batches, B)
    check(crop.num_sown_batches == B, "num_sown_batches")
    reloaded = Crop(name=crop.name, parent_dir=crop.parent_dir)
    check(
        (reloaded.batchsize, reloaded.num_batches, reloaded._batch_remainder)
        == (crop.batchsize, crop.num_batches, crop._batch_remainder),
        "reloaded numbers differ",
    )
    check(reloaded.num_sown_batches == B, "reloaded num_sown_batches")
    check(repr(reloaded) == repr(crop), "repr")
    return sizes


def pure_arithmetic():
    """choose_batch_settings on its own (no disk) for all N in 1..48."""
    for n in range(1, 49):
        combos_variants = [
            ((("a", tuple(range(n))),), None),
            (None, tuple({"a": i} for i in range(n))),
        ]
        for p in range(2, n):
            if n % p == 0:
                combos_variants.append(
                    (
                        (("a", tuple(range(p))),),
                        tuple({"b": i} for i in range(n // p)),
                    )
                )
                break
        for combos, cases in combos_variants:
            for s in range(1, n + 2):
                crop = Crop(name="arith", parent_dir="/nonexistent-xyz", batchsize=s)
                crop.choose_batch_settings(combos=combos, cases=cases)
                check(
                    (crop.batchsize, crop.num_batches, crop._batch_remainder)
                    == (s, -(-n // s), 0),
                    "batchsize mode", n, s,
                )
                # calling again with both now set must validate fine and
                # leave everything untouched
                crop.choose_batch_settings(combos=combos, cases=cases)
                check(
                    (crop.batchsize, crop.num_batches, crop._batch_remainder)
                    == (s, -(-n // s), 0),
                    "batchsize mode (2nd call)", n, s,
                )
            for k in range(1, n + 3):
                crop = Crop(name="arith", parent_dir="/nonexistent-xyz", num_batches=k)
                crop.choose_batch_settings(combos=combos, cases=cases)
                B = min(k, n)
                check(
                    (crop.batchsize, crop.num_batches, crop._batch_remainder)
                    == (n // B, B, n % B),
                    "num_batches mode", n, k,
                )
                check(crop.batchsize * B + crop._batch_remainder == n, "sum")
                crop.choose_batch_settings(combos=combos, cases=cases)
                check(
                    (crop.batchsize, crop.num_batches, crop._batch_remainder)
                    == (n // B, B, n % B),
                    "num_batches mode (2nd call)", n, k,
                )

    # neither given -> batchsize 1
    crop = Crop(name="arith", parent_dir="/nonexistent-xyz")
    crop.choose_batch_settings(combos=(("a", (1, 2, 3)),), cases=({"b": 1}, {"b": 2}))
    check((crop.batchsize, crop.num_batches, crop._batch_remainder) == (1, 6, 0))
    # no combos and no cases -> a single setting
    crop = Crop(name="arith", parent_dir="/nonexistent-xyz")
    crop.choose_batch_settings()
    check((crop.batchsize, crop.num_batches, crop._batch_remainder) == (1, 1, 0))
    crop = Crop(name="arith", parent_dir="/nonexistent-xyz", num_batches=4)
    crop.choose_batch_settings(combos=(), cases=())
    check((crop.batchsize, crop.num_batches, crop._batch_remainder) == (1, 1, 0))


def outcome(**kw):
    """Result of choose_batch_settings for 10 settings, or the error type."""
    rem = kw.pop("_rem", None)
    n = kw.pop("_n", 10)
    crop = Crop(name="arith", parent_dir="/nonexistent-xyz", **kw)
    crop._batch_remainder = rem
    try:
        crop.choose_batch_settings(combos=(("a", tuple(range(n))),))
    except Exception as e:
        return type(e).__name__, crop.batchsize, crop.num_batches, crop._batch_remainder
    return "ok", crop.batchsize, crop.num_batches, crop._batch_remainder


def validation():
    """Error behaviour and the both-given consistency check."""
    check(outcome(batchsize=0) == ("ValueError", 0, None, None))
    check(outcome(batchsize=-3) == ("ValueError", -3, None, None))
    check(outcome(batchsize=2.0) == ("TypeError", 2.0, None, None))
    check(outcome(batchsize="2") == ("TypeError", "2", None, None))
    check(outcome(num_batches=0) == ("ValueError", None, 0, None))
    check(outcome(num_batches=-1) == ("ValueError", None, -1, None))
    check(outcome(num_batches=2.0) == ("TypeError", None, 2.0, None))
    # the cap at the number of settings is applied before the type check
    check(outcome(num_batches=20.5) == ("ok", 1, 10, 0))
    check(outcome(num_batches=9.5) == ("TypeError", None, 9.5, None))
    check(outcome(num_batches="2")[0] == "TypeError")
    check(outcome(batchsize=True) == ("ok", True, 10, 0))
    check(outcome(num_batches=True) == ("ok", 10, True, 0))

    # both given: n <= batchsize * num_batches (+ remainder) < n + batchsize
    for n in range(1, 25):
        for s in range(0, n + 3):
            for k in range(0, n + 3):
                for rem in (None, 0, 1, 2, 5):
                    tot = s * k + (rem or 0)
                    want = "ok" if (n <= tot < n + s) else "ValueError"
                    check(
                        outcome(batchsize=s, num_batches=k, _rem=rem, _n=n)
                        == (want, s, k, rem),
                        "both", n, s, k, rem,
                    )
    # float / nan values are not type-checked in this branch, just compared
    check(outcome(batchsize=2.5, num_batches=4)[0] == "ok")
    check(outcome(batchsize=2.5, num_batches=5)[0] == "ValueError")
    check(outcome(batchsize=float("nan"), num_batches=5)[0] == "ValueError")
    check(outcome(batchsize=5, num_batches=float("nan"))[0] == "ValueError")
    check(outcome(batchsize=float("inf"), num_batches=1)[0] == "ValueError")


def on_disk(tmp):
    idx = 0
    for n in list(range(1, 11)) + [12, 17, 24]:
        cases = [{"a": i, "c": 3 * i} for i in range(n)]
        for shuffle in (False, True, 5):
            # --- grids -----------------------------------------------------
            for combos in grid_for(n):
                exp = expected_settings(combos=combos, constants={"k": "K"})
                for s in range(1, n + 2):
                    idx += 1
                    crop = Crop(fn=fn, name=f"g{idx}", parent_dir=tmp, batchsize=s)
                    crop.sow_combos(combos, constants={"k": "K"}, shuffle=shuffle, verbosity=0)
                    check_partition(crop, n, exp, batchsize=s)
                for k in range(1, n + 3):
                    idx += 1
                    crop = Crop(fn=fn, name=f"g{idx}", parent_dir=tmp, num_batches=k)
                    crop.sow_combos(combos, constants={"k": "K"}, shuffle=shuffle, verbosity=0)
                    check_partition(crop, n, exp, num_batches=k)
            # --- case lists --------------------------------------------------
            exp = expected_settings(cases=cases, constants={"k": "K"})
            for s in range(1, n + 2):
                idx += 1
                crop = Crop(fn=fn, name=f"c{idx}", parent_dir=tmp, batchsize=s, shuffle=shuffle)
                crop.sow_cases(None, cases, constants={"k": "K"}, verbosity=0)
                check_partition(crop, n, exp, batchsize=s)
            for k in range(1, n + 3):
                idx += 1
                crop = Crop(fn=fn, name=f"c{idx}", parent_dir=tmp, num_batches=k, shuffle=shuffle)
                crop.sow_cases(("a", "c"), [(d["a"], d["c"]) for d in cases],
                               constants={"k": "K"}, verbosity=0)
                check_partition(crop, n, exp, num_batches=k)

    # farmer-provided constants and resources, cases x combos
    runner = xyzpy.Runner(fn, var_names="out", constants={"k": 7}, resources={"r": "RES"})
    for n_cases, n_a in [(1, 1), (3, 4), (5, 3), (7, 1)]:
        n = n_cases * n_a
        combos = {"a": list(range(n_a))}
        cases = [{"b": 10 * i} for i in range(n_cases)]
        exp = expected_settings(combos=combos, cases=cases,
                                constants={"k": 7, "r": "RES", "c": 2})
        for shuffle in (False, 3):
            for s in range(1, n + 2):
                idx += 1
                crop = runner.Crop(name=f"r{idx}", parent_dir=tmp, batchsize=s)
                crop.sow_combos(combos, cases=cases, constants={"c": 2}, shuffle=shuffle, verbosity=0)
                check_partition(crop, n, exp, batchsize=s)
            for k in range(1, n + 3):
                idx += 1
                crop = runner.Crop(name=f"r{idx}", parent_dir=tmp, num_batches=k)
                crop.sow_combos(combos, cases=cases, constants={"c": 2}, shuffle=shuffle, verbosity=0)
                check_partition(crop, n, exp, num_batches=k)

    # default: neither requested -> one setting per batch
    crop = Crop(fn=fn, name="default", parent_dir=tmp)
    crop.sow_combos({"a": [1, 2, 3], "b": [4, 5]}, verbosity=0)
    sizes = check_partition(crop, 6, expected_settings(combos={"a": [1, 2, 3], "b": [4, 5]}), batchsize=1)
    check(sizes == [1] * 6)

    # end to end: grow and reap gives the direct-run answer
    crop = Crop(fn=fn, name="e2e", parent_dir=tmp, num_batches=4)
    combos = {"a": list(range(5)), "b": [10, 20]}
    crop.sow_combos(combos, constants={"c": 100}, verbosity=0)
    crop.grow_missing(verbosity=0)
    res = crop.reap(clean_up=False)
    direct = xyzpy.combo_runner(fn, combos, constants={"c": 100})
    check(res == direct, "reap != direct", res, direct)


def main():
    pure_arithmetic()
    validation()
    with tempfile.TemporaryDirectory() as tmp:
        on_disk(tmp)
    print("checks:", CHECKS)
    print("PASS")


if __name__ == "__main__":
    main()
