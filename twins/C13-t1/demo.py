"""Demo / check for refactoring t1 (``is_case_missing`` + ``_null_mask``).

Run as ``cd <worktree> && /venv/bin/python /path/to/demo.py``.

Checks property C13 -- missing-data discovery reports exactly the locations
that have no data -- with the emphasis on ``xyzpy.is_case_missing``: both null
criteria, Dataset and DataArray inputs, absent coordinates, the unknown-method
error path, and then ``find_missing_cases`` / ``parse_into_cases`` /
find -> harvest -> find on top of it, all against an independent brute force
numpy oracle.
"""
import itertools
import os
import sys
import tempfile
import warnings

sys.path.insert(0, os.getcwd())

import numpy as np
import pandas as pd
import xarray as xr

import xyzpy
from xyzpy import find_missing_cases, is_case_missing, parse_into_cases

assert os.path.abspath(xyzpy.__file__).startswith(os.getcwd()), xyzpy.__file__
warnings.filterwarnings('ignore')


# ------------------------------ the oracle --------------------------------- #

def nodata_mask(values, method):
    """Independent elementwise 'no data' test on a raw numpy array."""
    values = np.asarray(values)
    if method == 'isnull':
        return np.asarray(pd.isnull(values))
    if method == 'isfinite':
        return ~np.isfinite(values.astype(float))
    raise AssertionError(method)


def oracle_is_missing(ds, setting, method):
    """Brute force: positional indexing only, no ``.sel``."""
    if isinstance(ds, xr.DataArray):
        variables = [ds]
    else:
        variables = list(ds.data_vars.values())
    for k, v in setting.items():
        if k in ds.dims and v not in list(ds[k].values):
            return True
    for da in variables:
        index = tuple(
            list(ds[d].values).index(setting[d]) if d in setting
            else slice(None)
            for d in da.dims
        )
        if not nodata_mask(da.values[index], method).all():
            return False
    return True


def oracle_find_missing(ds, ignore, method):
    fn_args = tuple(d for d in ds.dims if d not in ignore)
    grid = itertools.product(*(list(ds[d].values) for d in fn_args))
    return fn_args, tuple(
        case for case in grid
        if oracle_is_missing(ds, dict(zip(fn_args, case)), method)
    )


# --------------------------- random datasets ------------------------------- #

def random_dataset(rng, method, strings=False):
    ndim = rng.integers(1, 5)
    names = ['a', 'b', 'c', 'd'][:ndim]
    coords = {}
    for i, n in enumerate(names):
        size = rng.integers(1, 4)
        if strings and i % 2 == 0:
            coords[n] = ['p', 'q', 'r'][:size]
        else:
            coords[n] = [10 * (i + 1) + j for j in range(size)]
    coords['t'] = [0.1, 0.2, 0.3]
    ds = xr.Dataset(coords=coords)
    shape = tuple(len(coords[n]) for n in names)

    nvar = rng.integers(1, 4)
    for v in range(nvar):
        internal = bool(rng.integers(0, 2))
        kind = rng.integers(0, 3) if method == 'isnull' else 0
        dims = tuple(names) + (('t',) if internal else ())
        shp = shape + ((3,) if internal else ())
        if kind == 2:
            # object (string / None) variable
            data = np.empty(shp, dtype=object)
            data[...] = 'z'
            null = None
        else:
            data = rng.normal(size=shp)
            null = np.nan
        # whole-cell nulls (shared between variables with prob.)
        cellmask = rng.random(shape) < 0.5
        if internal:
            data[cellmask, :] = null
            # partial-cell nulls
            part = rng.random(shp) < 0.2
            data[part] = null
        else:
            data[cellmask] = null
        if method == 'isfinite' and kind == 0:
            # infinities count as no data for isfinite (but not isnull)
            infm = rng.random(shp) < 0.15
            data[infm] = np.inf
        ds['v{}'.format(v)] = (dims, data)

    # make some cells null in every variable so something is missing
    allmask = rng.random(shape) < 0.4
    for name in list(ds.data_vars):
        da = ds[name]
        arr = da.values.copy()
        arr[allmask] = None if arr.dtype == object else np.nan
        ds[name] = (da.dims, arr)
    return ds


def same_cases(got, want):
    assert len(got) == len(want), (got, want)
    for g, w in zip(got, want):
        assert tuple(g) == tuple(w), (got, want)


def check_dataset(ds, method):
    # 1. is_case_missing at every grid location, Dataset and DataArray forms
    fn_args = tuple(d for d in ds.dims if d != 't')
    nmiss = 0
    for case in itertools.product(*(list(ds[d].values) for d in fn_args)):
        setting = dict(zip(fn_args, case))
        want = oracle_is_missing(ds, setting, method)
        got = is_case_missing(ds, setting, method=method)
        assert isinstance(got, bool) and got == want, (setting, got, want)
        nmiss += want
        for name in ds.data_vars:
            want_v = oracle_is_missing(ds[name], setting, method)
            got_v = is_case_missing(ds[name], setting, method=method)
            assert isinstance(got_v, bool) and got_v == want_v
        # partial setting (fewer keys than dimensions)
        part = dict(list(setting.items())[:1])
        assert (is_case_missing(ds, part, method=method) ==
                oracle_is_missing(ds, part, method))
    # 2. absent coordinate -> missing
    first = fn_args[0]
    absent = {first: 'nope' if ds[first].dtype.kind in 'UO' else -999}
    assert is_case_missing(ds, absent, method=method) is True
    # 3. find_missing_cases == oracle (order, no duplicates)
    args, cases = find_missing_cases(ds, ignore_dims='t', method=method)
    o_args, o_cases = oracle_find_missing(ds, {'t'}, method)
    assert args == o_args and isinstance(cases, tuple)
    same_cases(cases, o_cases)
    assert len(set(cases)) == len(cases) == nmiss
    return nmiss


# --------------------------------- tests ----------------------------------- #

def test_random():
    rng = np.random.default_rng(13)
    total = 0
    for i in range(60):
        method = ('isnull', 'isfinite')[i % 2]
        ds = random_dataset(rng, method, strings=(i % 3 == 0))
        total += check_dataset(ds, method)
    assert total > 50


def test_default_method_and_dataarray():
    ds = xr.Dataset(coords={'a': [1, 2, 3], 'b': [40, 50]})
    ds['x'] = (('a', 'b'), np.array([[0.1, np.nan],
                                     [np.inf, 0.2],
                                     [np.nan, np.nan]]))
    # default method is isnull: inf is data
    assert is_case_missing(ds, {'a': 2, 'b': 40}) is False
    assert is_case_missing(ds, {'a': 2, 'b': 40}, 'isfinite') is True
    assert is_case_missing(ds, {'a': 2, 'b': 40}, method='isfinite') is True
    assert is_case_missing(ds['x'], {'a': 2, 'b': 40}) is False
    assert is_case_missing(ds['x'], {'a': 2, 'b': 40}, 'isfinite') is True
    assert is_case_missing(ds, {'a': 3}) is True
    assert is_case_missing(ds, {'a': 1}) is False
    assert is_case_missing(ds, {}) is False
    assert is_case_missing(ds['x'], {'a': 3}) is True
    # per-variable: only missing if *all* variables are null
    ds['y'] = (('a', 'b'), np.array([['s', None], ['s', 's'], [None, 's']],
                                    dtype=object))
    assert is_case_missing(ds, {'a': 1, 'b': 50}) is True
    assert is_case_missing(ds, {'a': 3, 'b': 50}) is False
    assert is_case_missing(ds, {'a': 3, 'b': 40}) is True


def test_unknown_method():
    ds = xr.Dataset(coords={'a': [1, 2]})
    ds['x'] = ('a', np.array([np.nan, 1.0]))
    for obj in (ds, ds['x']):
        for bad in ('notnull', None, 'ISNULL', 0):
            try:
                is_case_missing(obj, {'a': 1}, method=bad)
            except ValueError as e:
                assert str(e) == 'Unknown method: {}'.format(bad), str(e)
            else:
                raise AssertionError('no ValueError for %r' % (bad,))
        # location looked up first: absent coordinates are just 'missing'
        assert is_case_missing(obj, {'a': 77}, method='notnull') is True
        assert is_case_missing(obj, {'zzz': 1}, method='isnull') is True


def test_isfinite_object_dtype_errors():
    ds = xr.Dataset(coords={'a': [1, 2]})
    ds['s'] = ('a', np.array(['u', None], dtype=object))
    try:
        is_case_missing(ds, {'a': 1}, method='isfinite')
    except TypeError:
        pass
    else:
        raise AssertionError('expected TypeError')


def test_parse_into_cases():
    ds = xr.Dataset(coords={'a': [1, 2, 3], 'b': ['u', 'v']})
    ds['x'] = (('a', 'b'), np.array([[0.1, np.nan],
                                     [np.inf, 0.2],
                                     [np.nan, np.nan]]))
    combos = {'b': ['v', 'u', 'w']}
    cases = [{'a': 3}, {'a': 1}, {'a': 4}, {'a': 2}]
    full = [{'a': a['a'], 'b': b} for a in cases for b in combos['b']]
    assert parse_into_cases(combos, cases) == full
    for method in ('isnull', 'isfinite'):
        want = [c for c in full if oracle_is_missing(ds, c, method)]
        assert parse_into_cases(combos, cases, ds=ds, method=method) == want
        assert parse_into_cases(combos, cases, ds['x'], method) == want
    assert parse_into_cases(combos, cases, ds=ds) == [
        {'a': 3, 'b': 'v'}, {'a': 3, 'b': 'u'}, {'a': 3, 'b': 'w'},
        {'a': 1, 'b': 'v'}, {'a': 1, 'b': 'w'},
        {'a': 4, 'b': 'v'}, {'a': 4, 'b': 'u'}, {'a': 4, 'b': 'w'},
        {'a': 2, 'b': 'w'},
    ]


def test_find_harvest_find():
    def fn(a, b):
        return a + b, np.array([a, b, a * b], dtype=float)

    runner = xyzpy.Runner(fn, var_names=['s', 'p'],
                          var_dims={'p': ['t']},
                          var_coords={'t': [0.1, 0.2, 0.3]})
    with tempfile.TemporaryDirectory() as tmp:
        cwd = os.getcwd()
        os.chdir(tmp)
        try:
            for method in ('isnull', 'isfinite'):
                h = xyzpy.Harvester(runner, data_name=None)
                h.harvest_cases([(1, 10), (2, 20), (3, 10)], verbosity=0)
                ds = h.full_ds
                args, cases = find_missing_cases(ds, ignore_dims=['t'],
                                                 method=method)
                assert args == ('a', 'b')
                same_cases(cases, [(1, 20), (2, 10), (3, 20)])
                same_cases(cases, oracle_find_missing(ds, {'t'}, method)[1])
                h.harvest_cases(cases, fn_args=args, verbosity=0)
                args2, cases2 = find_missing_cases(h.full_ds, {'t'}, method)
                assert args2 == args and cases2 == ()
                assert parse_into_cases({'a': [1, 2, 3], 'b': [10, 20]},
                                        ds=h.full_ds, method=method) == []
        finally:
            os.chdir(cwd)


if __name__ == '__main__':
    test_default_method_and_dataarray()
    test_unknown_method()
    test_isfinite_object_dtype_errors()
    test_random()
    test_parse_into_cases()
    test_find_harvest_find()
    print('PASS')
