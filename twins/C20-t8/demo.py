"""Demo for the C20 twin (t8): helpers extracted from format_number_with_error.

Run as:  cd <worktree> && /venv/bin/python /path/to/demo.py

Checks, on whatever xyzpy is in the current directory:

1. the string for (x, err) is identical to the one produced by a frozen copy
   of the original function, over a large deterministic sample including all
   rounding boundaries, and the same exceptions are raised for bad inputs;
2. the property itself: the string, read by the usual convention, denotes the
   error rounded to two significant figures and the value rounded to the same
   last digit;
3. the second tier: RunningStatistics.__repr__ and the progress description
   of estimate_from_repeats show the same strings as before.

Prints PASS and exits 0 when everything holds, else prints FAIL and exits 1.
"""

import os
import sys

sys.path.insert(0, os.getcwd())

import contextlib
import io
import math
import random
import re
import warnings
from decimal import Decimal, localcontext

warnings.simplefilter("ignore")

import numpy as np

import xyzpy
import xyzpy.utils as xu
from xyzpy import RunningStatistics, estimate_from_repeats
from xyzpy import format_number_with_error as fmt

assert os.path.realpath(xyzpy.__file__).startswith(
    os.path.realpath(os.getcwd())
), xyzpy.__file__


# --------------------------------------------------------------------------- #
# frozen copy of the original implementation                                  #
# --------------------------------------------------------------------------- #


def reference(x, err):
    x_exponent = max(
        int(f"{x:e}".split("e")[1]),
        int(f"{err:e}".split("e")[1]) + 1,
    )
    hide_exponent = (x_exponent in (0, -1)) or (
        (x_exponent == +1) and (err < abs(x / 10))
    )
    if hide_exponent:
        suffix = ""
    else:
        x = x / 10**x_exponent
        err = err / 10**x_exponent
        suffix = f"e{x_exponent:+03d}"
    mantissa, exponent = f"{err:.1e}".split("e")
    mantissa, exponent = mantissa.replace(".", ""), int(exponent)
    return f"{x:.{max(0, 1 - exponent)}f}({mantissa}){suffix}"


# --------------------------------------------------------------------------- #
# reading the string back                                                      #
# --------------------------------------------------------------------------- #

PAT = re.compile(r"^(-?)(\d+)(?:\.(\d+))?\((\d+)\)(?:e([+-]\d+))?$")


def read_back(s):
    """-> (value, error, unit of the last shown digit, bracket digits)."""
    m = PAT.match(s)
    if m is None:
        raise ValueError(f"unreadable: {s!r}")
    sign, ip, fp, br, ex = m.groups()
    fp = fp or ""
    ex = int(ex) if ex else 0
    unit = Decimal(10) ** (ex - len(fp))
    value = Decimal(sign + ip + ("." + fp if fp else "")) * Decimal(10) ** ex
    return value, int(br) * unit, unit, br


def property_violation(x, err, s):
    """None if ``s`` reads back as err to 2 s.f. and x to the same digit."""
    try:
        value, error, unit, br = read_back(s)
    except ValueError as e:
        return str(e)
    if len(br) != 2 or br[0] == "0":
        return f"bracket {br!r} is not two significant figures"
    # half a unit of the last shown digit, plus a few ulps: dividing by the
    # power of ten in floating point may tip an exact tie either way
    half = unit / 2
    x_slack = half + 4 * Decimal(math.ulp(float(x)))
    err_slack = half + 4 * Decimal(math.ulp(float(err)))
    if abs(error - Decimal(float(err))) > err_slack:
        return f"error reads {error}, not {err!r} to two s.f."
    if abs(value - Decimal(float(x))) > x_slack:
        return f"value reads {value}, not {x!r} rounded to {unit}"
    return None


# --------------------------------------------------------------------------- #
# inputs                                                                       #
# --------------------------------------------------------------------------- #


def inputs():
    rnd = random.Random(20)
    out = []

    def add(x, err):
        if not (math.isfinite(x) and math.isfinite(err) and err > 0):
            return
        if not (1e-300 <= abs(x) <= 1e300 or x == 0):
            return
        if x != 0 and not (1e-12 <= err / abs(x) <= 1e12):
            return
        if not (1e-300 <= err <= 1e300):
            # beyond this the overall power of ten itself overflows (in the
            # original too); such pairs are compared in the ``odd`` list
            return
        out.append((x, err))

    # the documented examples and a few hand-picked cases
    for x, err in [
        (0.1542412, 0.0626653),
        (-128124123097, 6424),
        (123.4, 9.96),
        (99.7, 9.96),
        (1.234, 0.0996),
        (0.0, 1e-5),
        (0.0, 1e5),
        (1.5, 230.0),
        (5, 2),
        (1, 1),
        (10, 1),
        (10.0, 0.99999),
        (12.0, 1.2),
        (12.0, 1.2000001),
        (0.5, 0.05),
        (0.05, 0.5),
    ]:
        add(x, err)

    # log-uniform sweep, both signs
    for _ in range(20000):
        ex = rnd.randint(-300, 299)
        x = rnd.choice([1, -1]) * rnd.uniform(1, 10) * 10.0**ex
        err = abs(x) * 10.0 ** rnd.uniform(-12, 12)
        add(x, err)

    # x = 0
    for _ in range(2000):
        add(0.0, 10.0 ** rnd.uniform(-300, 300))
        add(-0.0, rnd.uniform(9.9, 10.0) * 10.0 ** rnd.randint(-299, 298))

    # err mantissa in 9.95 .. 10.0 (and around it)
    for _ in range(20000):
        ex = rnd.randint(-40, 40) if rnd.random() < 0.7 else rnd.randint(
            -290, 290
        )
        x = rnd.choice([1, -1]) * rnd.uniform(1, 10) * 10.0**ex
        de = rnd.randint(-11, 11)
        m = rnd.choice(
            [
                rnd.uniform(9.95, 10.0),
                rnd.uniform(9.94, 9.96),
                rnd.uniform(9.9999, 10.0001),
                9.95,
                9.9499999,
                9.9500001,
                9.99999949,
                9.9999996,
            ]
        )
        add(x, m * 10.0 ** (ex + de))

    # x near powers of ten
    for _ in range(10000):
        ex = rnd.randint(-20, 20) if rnd.random() < 0.7 else rnd.randint(
            -290, 290
        )
        m = rnd.choice(
            [
                1.0,
                0.99999999,
                1.0000001,
                9.9999999,
                0.9995,
                9.995,
                0.99949,
                0.99951,
                rnd.uniform(0.99, 1.01),
                rnd.uniform(9.9, 10.1),
            ]
        )
        x = rnd.choice([1, -1]) * m * 10.0**ex
        add(x, abs(x) * 10.0 ** rnd.uniform(-12, 12))
        add(x, abs(x) * 10.0 ** rnd.randint(-6, 6))

    # err / |x| near 0.1 and 1, across the exponents where the exponent is
    # or is not hidden
    for _ in range(20000):
        ex = rnd.randint(-4, 4) if rnd.random() < 0.8 else rnd.randint(
            -290, 290
        )
        x = rnd.choice([1, -1]) * rnd.uniform(1, 10) * 10.0**ex
        r = rnd.choice([0.1, 1.0, 10.0, 0.01]) * rnd.choice(
            [1.0, 0.9999999, 1.0000001, rnd.uniform(0.98, 1.02)]
        )
        add(x, abs(x) * r)

    # integers and numpy scalars go through the same code
    for _ in range(500):
        xi = rnd.randint(-10**6, 10**6)
        ei = rnd.randint(1, 10**4)
        if xi == 0 or 1e-12 <= ei / abs(xi) <= 1e12:
            out.append((xi, ei))
            out.append((np.float64(xi) / 7, np.float64(ei) / 3))
            out.append((np.float32(xi) / 7, np.float32(ei) / 3))
    return out


# --------------------------------------------------------------------------- #
# checks                                                                       #
# --------------------------------------------------------------------------- #

problems = []


def outcome(f, *args):
    try:
        return ("ok", f(*args))
    except Exception as e:  # noqa
        return ("raised", type(e).__name__, str(e))


cases = inputs()
with localcontext() as ctx:
    ctx.prec = 700
    for x, err in cases:
        got = outcome(fmt, x, err)
        want = outcome(reference, x, err)
        if got != want:
            problems.append(f"fmt({x!r}, {err!r}) = {got}, originally {want}")
            continue
        if got[0] != "ok":
            problems.append(f"fmt({x!r}, {err!r}) raised {got}")
            continue
        why = property_violation(x, err, got[1])
        if why is not None:
            problems.append(f"fmt({x!r}, {err!r}) = {got[1]!r}: {why}")

# same outcome (result or exception type and message) outside the quantifier
odd = [
    (float("nan"), 1.0),
    (1.0, float("nan")),
    (float("inf"), 1.0),
    (1.0, float("inf")),
    (-float("inf"), float("inf")),
    (1.0, 0.0),
    (1.0, -0.5),
    (12.0, -0.5),
    (0.0, 0.0),
    ("1.0", 0.1),
    (1.0, "0.1"),
    (None, 0.1),
    (1.0, None),
    (1 + 2j, 0.1),
    (1.0, 1e-30),
    (1e-30, 1.0),
    (1e308, 1e307),
    (6.6e297, 1.4e308),
    (1e-310, 1e-312),
    (5e-324, 5e-324),
    (True, 1),
    (np.array(1.5), np.array(0.25)),
    (np.array([1.5]), np.array([0.25])),
    (Decimal("1.5"), Decimal("0.25")),
    (Decimal("9.99999999"), Decimal("0.25")),
    (Decimal("1234.5"), Decimal("0.25")),
    (Decimal("0.0012345"), Decimal("0.00025")),
]
for x, err in odd:
    got = outcome(fmt, x, err)
    want = outcome(reference, x, err)
    if got != want:
        problems.append(f"fmt({x!r}, {err!r}) -> {got}, originally {want}")

# the documented strings
for (x, err), want in {
    (0.1542412, 0.0626653): "0.154(63)",
    (-128124123097, 6424): "-1.281241231(64)e+11",
    (123.4, 9.96): "1.23(10)e+02",
    (99.7, 9.96): "100(10)",
    (1.234, 0.0996): "1.23(10)",
    (12.0, 1.2): "1.20(12)e+01",
    (12.0, 1.1999): "12.0(12)",
}.items():
    if fmt(x, err) != want:
        problems.append(f"fmt({x!r}, {err!r}) = {fmt(x, err)!r} != {want!r}")

# second tier: RunningStatistics.__repr__
rnd = random.Random(7)
for trial in range(300):
    rs = RunningStatistics()
    if repr(rs) != "RunningStatistics(mean=None, count=0)":
        problems.append(f"empty repr: {rs!r}")
    scale = 10.0 ** rnd.randint(-8, 8)
    offset = rnd.choice([0.0, 1.0, -3.0, 99.6, 1e3]) * scale
    for _ in range(rnd.randint(2, 12)):
        rs.update(offset + scale * rnd.gauss(0, rnd.choice([1e-3, 0.1, 1, 30])))
    want = (
        f"RunningStatistics(mean={reference(rs.mean, rs.err)}, "
        f"count={rs.count})"
    )
    if repr(rs) != want:
        problems.append(f"repr {rs!r} != {want}")
    why = property_violation(rs.mean, rs.err, reference(rs.mean, rs.err))
    if why is not None:
        problems.append(f"repr {rs!r}: {why}")


# second tier: estimate_from_repeats' running description and final print
class FakeBar:
    def __init__(self, it):
        self.it = it
        self.descriptions = []
        self.closed = False

    def __iter__(self):
        return iter(self.it)

    def set_description(self, d):
        self.descriptions.append(d)

    def close(self):
        self.closed = True


for seed in range(5):
    bars = []

    def fake_progbar(it=None, **kwargs):
        bars.append(FakeBar(it))
        return bars[-1]

    vals = random.Random(seed)

    def fn(scale):
        return 99.6 * scale + scale * vals.gauss(0, 9.97)

    real_progbar = xu.progbar
    xu.progbar = fake_progbar
    buf = io.StringIO()
    try:
        with contextlib.redirect_stdout(buf):
            rs, xs = estimate_from_repeats(
                fn,
                10.0 ** (seed - 2),
                rtol=1e-9,
                get="samples",
                verbosity=2,
                min_samples=3,
                max_samples=25,
            )
    finally:
        xu.progbar = real_progbar

    (bar,) = bars
    replay = RunningStatistics()
    want = []
    for v in xs:
        replay.update(v)
        want.append(f"{replay.count}: {reference(replay.mean, replay.err)}")
    if len(xs) != 25 or bar.descriptions != want or not bar.closed:
        problems.append(
            f"estimate_from_repeats descriptions differ (seed {seed}): "
            f"{bar.descriptions[:3]} vs {want[:3]}"
        )
    final = (
        f"RunningStatistics(mean={reference(rs.mean, rs.err)}, "
        f"count={rs.count})\n"
    )
    if buf.getvalue() != final:
        problems.append(f"printed {buf.getvalue()!r} != {final!r}")

# verbosity 0 / 'mean' path untouched
m = estimate_from_repeats(lambda: 2.5, get="mean", max_samples=5)
if m != 2.5:
    problems.append(f"get='mean' returned {m!r}")

if problems:
    print(f"FAIL: {len(problems)} problem(s) over {len(cases)} inputs")
    for p in problems[:15]:
        print("  ", p)
    sys.exit(1)

print(f"PASS ({len(cases)} value/error pairs, {len(odd)} odd inputs)")
