"""Demo for C13 (missing-data discovery), aimed at ``is_case_missing`` and
``parse_into_cases`` (and their use by ``find_missing_cases``).

Run as:  cd <worktree> && /venv/bin/python /path/to/demo.py
"""
import os
import sys
import warnings

sys.path.insert(0, os.getcwd())
warnings.simplefilter('ignore')

import itertools
import shutil
import tempfile

import numpy as np
import xarray as xr

import xyzpy
from xyzpy import (
    find_missing_cases,
    is_case_missing,
    parse_into_cases,
    Runner,
    Harvester,
)

assert os.path.dirname(os.path.dirname(os.path.abspath(xyzpy.__file__))) == \
    os.path.abspath(os.getcwd()), xyzpy.__file__

CHECKS = 0


def check(cond, msg=''):
    global CHECKS
    CHECKS += 1
    if not cond:
        raise AssertionError(msg)


def raises(exc, fn, *args, **kwargs):
    try:
        fn(*args, **kwargs)
    except exc as e:
        return e
    except BaseException as e:  # noqa
        raise AssertionError('expected {} got {!r}'.format(exc, e))
    raise AssertionError('expected {} but nothing raised'.format(exc))


# --------------------------------------------------------------------------- #
# an independent oracle working on the raw numpy arrays                       #
# --------------------------------------------------------------------------- #

def oracle_cell_missing(ds, setting, method):
    """All variables entirely null at ``setting`` (which must be present)."""
    for name in ds.data_vars:
        var = ds[name]
        index = tuple(
            list(ds[d].values).index(setting[d]) if d in setting
            else slice(None)
            for d in var.dims
        )
        block = np.asarray(var.values[index])
        if method == 'isnull':
            if block.dtype.kind in 'OUS':
                null = np.array([x is None or (isinstance(x, float) and
                                               x != x)
                                 for x in block.reshape(-1)])
            else:
                null = np.isnan(block)
        else:
            null = ~np.isfinite(block)
        if not np.all(null):
            return False
    return True


def oracle_missing(ds, fn_args, method):
    out = []
    for case in itertools.product(*(list(ds[a].values) for a in fn_args)):
        if oracle_cell_missing(ds, dict(zip(fn_args, case)), method):
            out.append(case)
    return tuple(out)


def same_cases(got, expected):
    if len(got) != len(expected):
        return False
    for g, e in zip(got, expected):
        if tuple(g) != tuple(e):
            return False
    return True


# --------------------------------------------------------------------------- #
# random datasets: 1-4 parameter dims, 1-3 variables, internal dims           #
# --------------------------------------------------------------------------- #

def make_ds(rng, ndim, nvar, internal, strings, with_inf):
    names = ['a', 'b', 'c', 'd'][:ndim]
    coords = {}
    for i, n in enumerate(names):
        size = int(rng.integers(1, 4))
        if strings and i % 2 == 0:
            coords[n] = ['s{}'.format(j) for j in range(size)]
        else:
            coords[n] = [10 * (j + 1) + i for j in range(size)]
    if internal:
        coords['t'] = [0.0, 0.5, 1.0]
    shape = tuple(len(coords[n]) for n in names)
    data_vars = {}
    for v in range(nvar):
        has_t = internal and (v % 2 == 0)
        dims = names + (['t'] if has_t else [])
        shp = shape + ((3,) if has_t else ())
        arr = rng.normal(size=shp)
        data_vars['v{}'.format(v)] = (dims, arr)
    ds = xr.Dataset(data_vars, coords=coords)

    # whole-cell nulls, partial-cell nulls, per-variable nulls
    cells = list(itertools.product(*(range(s) for s in shape)))
    for cell in cells:
        r = rng.random()
        if r < 0.3:
            for name in ds.data_vars:
                ds[name].values[cell] = np.nan
        elif r < 0.45 and internal:
            for name in ds.data_vars:
                if 't' in ds[name].dims:
                    ds[name].values[cell + (1,)] = np.nan
        elif r < 0.6:
            ds['v0'].values[cell] = np.nan
        elif r < 0.7 and with_inf:
            for name in ds.data_vars:
                ds[name].values[cell] = np.inf
        elif r < 0.75 and with_inf:
            for name in ds.data_vars:
                ds[name].values[cell] = np.nan
            ds['v0'].values[cell] = -np.inf
    return ds, names


rng = np.random.default_rng(1234)

for trial in range(60):
    ndim = 1 + trial % 4
    nvar = 1 + (trial // 4) % 3
    internal = bool((trial // 2) % 2)
    strings = bool(trial % 3 == 0)
    with_inf = bool(trial % 2)
    ds, names = make_ds(rng, ndim, nvar, internal, strings, with_inf)
    ignore = 't' if internal else None

    for method in ('isnull', 'isfinite'):
        fn_args, missing = find_missing_cases(
            ds, ignore_dims=ignore, method=method)
        check(tuple(fn_args) == tuple(d for d in ds.dims if d != 't'))
        expected = oracle_missing(ds, fn_args, method)
        check(same_cases(missing, expected),
              'trial {} {}: {} != {}'.format(trial, method, missing, expected))
        check(len(set(map(tuple, missing))) == len(missing), 'duplicates')

        # the single location predicate agrees everywhere, including on the
        # locations that are not reported
        mset = set(map(tuple, missing))
        for case in itertools.product(*(list(ds[a].values)
                                        for a in fn_args)):
            setting = dict(zip(fn_args, case))
            got = is_case_missing(ds, setting, method=method)
            check(isinstance(got, bool))
            check(got == (tuple(case) in mset))
            # also for a single variable as a DataArray: per-variable answer
            got_da = is_case_missing(ds['v0'], setting, method=method)
            check(isinstance(got_da, bool))
            check(got_da == oracle_cell_missing(ds[['v0']], setting, method))

        # requested combos: same as filtering the full grid, in grid order
        combos = {a: list(ds[a].values) for a in fn_args}
        pc = parse_into_cases(combos=combos, ds=ds, method=method)
        check(isinstance(pc, list))
        check([tuple(c[a] for a in fn_args) for c in pc] ==
              [tuple(m) for m in missing])
        check(all(list(c) == list(fn_args) for c in pc))

        # requested cases x combos: cases outermost, combos innermost
        if len(fn_args) >= 2:
            first, rest = fn_args[0], fn_args[1:]
            cases = [{first: v} for v in reversed(list(ds[first].values))]
            cases.append({first: 'absent-coordinate'})
            sub = {a: list(ds[a].values) for a in rest}
            pc = parse_into_cases(combos=sub, cases=cases, ds=ds,
                                  method=method)
            exp = []
            for c in cases:
                for vals in itertools.product(*sub.values()):
                    full = (c[first],) + tuple(vals)
                    if c[first] == 'absent-coordinate' or full in mset:
                        exp.append(full)
            check([tuple(c[a] for a in fn_args) for c in pc] == exp)

# --------------------------------------------------------------------------- #
# hand-made edge cases for the single location predicate                      #
# --------------------------------------------------------------------------- #

ds = xr.Dataset(
    {
        'x': (('a', 'b'), [[1.0, np.nan], [np.nan, np.nan]]),
        'y': (('a', 'b', 't'), [[[1.0, 2.0], [np.nan, np.inf]],
                                [[np.nan, np.nan], [np.nan, np.nan]]]),
    },
    coords={'a': ['p', 'q'], 'b': [1, 2], 't': [0.1, 0.2]},
)

check(is_case_missing(ds, {'a': 'p', 'b': 1}) is False)
check(is_case_missing(ds, {'a': 'p', 'b': 2}) is False)       # inf not null
check(is_case_missing(ds, {'a': 'p', 'b': 2}, method='isfinite') is True)
check(is_case_missing(ds, {'a': 'q', 'b': 1}) is True)
check(is_case_missing(ds, {'a': 'q', 'b': 2}, 'isfinite') is True)
# partial settings reduce over everything left
check(is_case_missing(ds, {'a': 'q'}) is True)
check(is_case_missing(ds, {'a': 'p'}) is False)
check(is_case_missing(ds, {}) is False)
check(is_case_missing(ds, {'t': 0.1}) is False)
# coordinates that are absent count as missing ...
check(is_case_missing(ds, {'a': 'zzz', 'b': 1}) is True)
check(is_case_missing(ds, {'a': 'p', 'b': 99}) is True)
check(is_case_missing(ds['x'], {'a': 'p', 'b': 99}) is True)
# ... which is decided before the criterion is even looked at
check(is_case_missing(ds, {'a': 'zzz', 'b': 1}, method='bogus') is True)
# an unknown criterion on a present location is an error
e = raises(ValueError, is_case_missing, ds, {'a': 'p', 'b': 1}, 'bogus')
check(str(e) == 'Unknown method: bogus', str(e))
e = raises(ValueError, is_case_missing, ds['x'], {'a': 'p', 'b': 1},
           method=None)
check(str(e) == 'Unknown method: None', str(e))
e = raises(ValueError, is_case_missing, ds, {'a': 'p'}, method=['isnull'])
check(str(e) == "Unknown method: ['isnull']", str(e))
# a dimension that does not exist counts as an absent coordinate too
check(is_case_missing(ds, {'nope': 1}) is True)
check(is_case_missing(ds, {'nope': 1}, method='bogus') is True)
# DataArray input
check(is_case_missing(ds['x'], {'a': 'p', 'b': 2}) is True)
check(is_case_missing(ds['y'], {'a': 'p', 'b': 2}) is False)
check(is_case_missing(ds['y'], {'a': 'p', 'b': 2}, 'isfinite') is True)
# something that is neither (no ``sel``) is an AttributeError
raises(AttributeError, is_case_missing, object(), {'a': 1})

# string valued variables: None is null, isfinite is not applicable
sds = xr.Dataset(
    {'s': ('a', np.array(['hello', None, None], dtype=object)),
     'f': ('a', [1.0, 2.0, np.nan])},
    coords={'a': [1, 2, 3]},
)
check(is_case_missing(sds, {'a': 1}) is False)
check(is_case_missing(sds, {'a': 2}) is False)
check(is_case_missing(sds, {'a': 3}) is True)
check(find_missing_cases(sds) == (('a',), ((3,),)))
raises(TypeError, is_case_missing, sds, {'a': 1}, 'isfinite')
check(is_case_missing(sds, {'a': 4}, 'isfinite') is True)

# --------------------------------------------------------------------------- #
# parse_into_cases without and with a dataset                                 #
# --------------------------------------------------------------------------- #

check(parse_into_cases() == [{}])
check(parse_into_cases(combos={'a': [1, 2]}) == [{'a': 1}, {'a': 2}])
check(parse_into_cases(cases=[{'a': 1}, {'a': 5}]) == [{'a': 1}, {'a': 5}])
check(parse_into_cases(cases=[]) == [])
check(parse_into_cases(combos={'a': []}, cases=[{'b': 1}]) == [])
got = parse_into_cases(combos={'b': [1, 2], 'c': 'xy'},
                       cases=[{'a': 1}, {'a': 0}])
check(got == [
    {'a': 1, 'b': 1, 'c': 'x'}, {'a': 1, 'b': 1, 'c': 'y'},
    {'a': 1, 'b': 2, 'c': 'x'}, {'a': 1, 'b': 2, 'c': 'y'},
    {'a': 0, 'b': 1, 'c': 'x'}, {'a': 0, 'b': 1, 'c': 'y'},
    {'a': 0, 'b': 2, 'c': 'x'}, {'a': 0, 'b': 2, 'c': 'y'},
])
check([list(c) for c in got] == [['a', 'b', 'c']] * 8)
# a combo overrides the same key of a case, duplicates are kept as given
check(parse_into_cases(combos={'a': [7, 7]}, cases=[{'a': 1, 'b': 2}]) ==
      [{'a': 7, 'b': 2}, {'a': 7, 'b': 2}])
# results are fresh dicts
c0 = {'a': 1}
out = parse_into_cases(cases=[c0])
check(out[0] == c0 and out[0] is not c0)
# cases may be a one-shot iterator; combo values that are one-shot iterators
# are used up by the first case
out = parse_into_cases(combos={'b': iter([1, 2])},
                       cases=iter([{'a': 1}, {'a': 2}]))
check(out == [{'a': 1, 'b': 1}, {'a': 1, 'b': 2}])
# cases that are not mappings are an error, raised once they are reached
raises(TypeError, parse_into_cases, cases=[{'a': 1}, 5])
raises(TypeError, parse_into_cases, combos={'a': 5})
raises(AttributeError, parse_into_cases, combos=[('a', [1])])

# the iteration over cases and the look-ups are interleaved, one at a time
log = []


class LoggingDS:
    def __init__(self, ds):
        self.ds = ds

    def sel(self, setting):
        log.append(('sel', tuple(setting.items())))
        return self.ds.sel(setting)


def gen_cases():
    for v in ['p', 'q']:
        log.append(('case', v))
        yield {'a': v}


out = parse_into_cases(combos={'b': [1, 2]}, cases=gen_cases(),
                       ds=LoggingDS(ds))
check(out == [{'a': 'q', 'b': 1}, {'a': 'q', 'b': 2}])
check(log == [
    ('case', 'p'),
    ('sel', (('a', 'p'), ('b', 1))), ('sel', (('a', 'p'), ('b', 2))),
    ('case', 'q'),
    ('sel', (('a', 'q'), ('b', 1))), ('sel', (('a', 'q'), ('b', 2))),
], log)

# with a dataset: only all-null or absent locations are kept, in order
out = parse_into_cases(combos={'a': ['q', 'p', 'new'], 'b': [2, 1]}, ds=ds)
check(out == [{'a': 'q', 'b': 2}, {'a': 'q', 'b': 1},
              {'a': 'new', 'b': 2}, {'a': 'new', 'b': 1}])
out = parse_into_cases(combos={'a': ['q', 'p', 'new'], 'b': [2, 1]}, ds=ds,
                       method='isfinite')
check(out == [{'a': 'q', 'b': 2}, {'a': 'q', 'b': 1}, {'a': 'p', 'b': 2},
              {'a': 'new', 'b': 2}, {'a': 'new', 'b': 1}])
out = parse_into_cases(cases=[{'a': 'p', 'b': 1}, {'a': 'q', 'b': 1},
                              {'a': 'q', 'b': 1}], ds=ds['x'])
check(out == [{'a': 'q', 'b': 1}, {'a': 'q', 'b': 1}])
# the criterion is only objected to where a present location is looked at
raises(ValueError, parse_into_cases, combos={'a': ['p']}, ds=ds,
       method='bogus')
check(parse_into_cases(combos={'a': ['new']}, ds=ds, method='bogus') ==
      [{'a': 'new'}])
check(parse_into_cases(combos={'a': ['p']}, method='bogus') == [{'a': 'p'}])

# --------------------------------------------------------------------------- #
# find -> harvest -> find, in memory and through a file                       #
# --------------------------------------------------------------------------- #


def fn(a, b, t):
    return a + b, (a * b) * np.asarray(t)


tmpdir = tempfile.mkdtemp(prefix='xyzpy-c13-demo-')
try:
    for data_name in (None, os.path.join(tmpdir, 'full.h5')):
        runner = Runner(fn, var_names=['s', 'p'], fn_args=['a', 'b'],
                        var_dims={'p': ['t']}, constants={'t': [1.0, 2.0]})
        h = Harvester(runner, data_name=data_name)
        h.harvest_cases([(1, 10), (2, 20), (3, 30)], verbosity=0)
        full = h.full_ds
        fn_args, missing = find_missing_cases(full, ignore_dims='t')
        check(fn_args == ('a', 'b'))
        check(same_cases(missing, [(1, 20), (1, 30), (2, 10), (2, 30),
                                   (3, 10), (3, 20)]))
        check(same_cases(find_missing_cases(full, ignore_dims=['t'],
                                            method='isfinite')[1], missing))
        wanted = parse_into_cases(combos={'a': [1, 2, 4], 'b': [10, 20]},
                                  ds=full)
        check(wanted == [{'a': 1, 'b': 20}, {'a': 2, 'b': 10},
                         {'a': 4, 'b': 10}, {'a': 4, 'b': 20}])
        h.harvest_cases(wanted, verbosity=0)
        check(parse_into_cases(combos={'a': [1, 2, 4], 'b': [10, 20]},
                               ds=h.full_ds) == [])
        fn_args, missing = find_missing_cases(h.full_ds, ignore_dims={'t'})
        check(same_cases(missing, [(1, 30), (2, 30), (3, 10), (3, 20),
                                   (4, 30)]))
        h.harvest_cases([dict(zip(fn_args, (int(x) for x in c)))
                         for c in missing], verbosity=0)
        check(find_missing_cases(h.full_ds, ignore_dims='t') ==
              (('a', 'b'), ()))
        check(float(h.full_ds['s'].sel(a=4, b=30)) == 34.0)
        check(h.full_ds['p'].sel(a=3, b=10).values.tolist() == [30.0, 60.0])
        if data_name is not None:
            check(sorted(os.listdir(tmpdir)) == ['full.h5'])
            on_disk = xyzpy.load_ds(data_name)
            check(find_missing_cases(on_disk, ignore_dims='t') ==
                  (('a', 'b'), ()))
            on_disk.close()
            h.full_ds.close()
finally:
    shutil.rmtree(tmpdir, ignore_errors=True)

check(not os.path.exists(tmpdir))
print('{} checks'.format(CHECKS))
print('PASS')
