"""Demo for C14 twin 2: ``load_ds`` / ``merge_sync_conflict_datasets``
(loading side, lazily or into memory, and merging of conflict files).

Run as ``cd <worktree> && /venv/bin/python /path/to/demo.py``.
"""
import sys
import os

sys.path.insert(0, os.getcwd())

import warnings
warnings.simplefilter('ignore')
import io
import shutil
import tempfile
import importlib
import itertools
import contextlib
from unittest import mock

import numpy as np
import xarray as xr
import joblib

import xyzpy
import xyzpy.manage as manage
from xyzpy.manage import (
    save_ds, load_ds, save_merge_ds, merge_sync_conflict_datasets,
    _engine_extensions,
)

assert os.path.dirname(os.path.abspath(xyzpy.__file__)) == \
    os.path.join(os.getcwd(), 'xyzpy'), xyzpy.__file__
assert xyzpy.load_ds is load_ds
assert xyzpy.merge_sync_conflict_datasets is merge_sync_conflict_datasets


def importable(name):
    try:
        importlib.import_module(name)
        return True
    except Exception:
        return False


ENGINES = ['h5netcdf', 'joblib']
if importable('netCDF4'):
    ENGINES.append('netcdf4')
if importable('zarr'):
    ENGINES.append('zarr')
NETCDF_LIKE = {'h5netcdf', 'netcdf4'}


def remove(path):
    if os.path.isdir(path):
        shutil.rmtree(path)
    else:
        os.remove(path)


def make_ds(ndim, with_nan, rng):
    dims = ['a', 'b', 'c', 'd'][:ndim]
    shape = [3, 2, 4, 2][:ndim]
    coords = {}
    if ndim > 0:
        coords['a'] = [10, 20, 30]
    if ndim > 1:
        coords['b'] = ['x', 'yy']
    if ndim > 2:
        coords['c'] = [0.5, 1.5, 2.5, np.pi]
    if ndim > 3:
        coords['d'] = [True, False]
    fl = rng.standard_normal(shape)
    cx = rng.standard_normal(shape) + 1j * rng.standard_normal(shape)
    if with_nan and ndim:
        fl[(0,) * ndim] = np.nan
        cx[(-1,) * ndim] = np.nan + 1j
    n = int(np.prod(shape))
    return xr.Dataset(
        data_vars={
            'i': (dims, rng.integers(-5, 5, size=shape)),
            'f': (dims, fl),
            'z': (dims, cx),
            'bl': (dims, rng.integers(0, 2, size=shape).astype(bool)),
            's': (dims, np.array(['s{}'.format(k) for k in range(n)],
                                 dtype=object).reshape(shape)),
        },
        coords=coords,
        attrs={'none': None, 'true': True, 'false': False, 'one': 1,
               'txt': 'hello', 'fl': 2.5},
    )


def netcdf_attrs(attrs):
    table = {id(None): 'None', id(True): 'True', id(False): 'False'}
    return {k: table.get(id(v), v) for k, v in attrs.items()}


def check_same(ref, out, attrs_expected):
    assert dict(ref.sizes) == dict(out.sizes)
    assert set(ref.coords) == set(out.coords)
    assert set(ref.data_vars) == set(out.data_vars)
    for name in ref.variables:
        vi, vo = ref[name], out[name]
        assert vi.dims == vo.dims, name
        a, b = vi.values, vo.values
        if a.dtype.kind in 'OU':
            a, b = a.astype(str), b.astype(str)
        else:
            assert a.dtype.kind == b.dtype.kind, (name, a.dtype, b.dtype)
        if a.dtype.kind in 'fc':
            assert np.array_equal(a, b, equal_nan=True), name
            assert np.array_equal(np.isnan(a), np.isnan(b)), name
        else:
            assert np.array_equal(a, b), name
    assert dict(out.attrs) == attrs_expected, (out.attrs, attrs_expected)
    for k, v in attrs_expected.items():
        assert type(out.attrs[k]) is type(v) or not isinstance(v, (str, bool,
                                                                   type(None)))


@contextlib.contextmanager
def spy_load_close():
    """Record calls to ``Dataset.load`` / ``Dataset.close``."""
    events = []
    orig_load, orig_close = xr.Dataset.load, xr.Dataset.close

    def load(self, *args, **kwargs):
        events.append('load')
        return orig_load(self, *args, **kwargs)

    def close(self, *args, **kwargs):
        events.append('close')
        return orig_close(self, *args, **kwargs)

    with mock.patch.object(xr.Dataset, 'load', load), \
            mock.patch.object(xr.Dataset, 'close', close):
        yield events


def is_dask(ds):
    return any(v.chunks is not None for v in ds.variables.values()
               if v.ndim and v.dtype.kind != 'O' and
               not isinstance(v, xr.IndexVariable))


def test_roundtrip_load_modes(tmp):
    rng = np.random.default_rng(0)
    for engine, ndim, with_nan, with_ext in itertools.product(
            ENGINES, range(5), [False, True], [False, True]):
        ext = _engine_extensions[engine]
        ds = make_ds(ndim, with_nan, rng)
        ref = ds.copy(deep=True)
        ref_attrs = dict(ref.attrs)
        base = os.path.join(tmp, 'rt_{}_{}_{}_{}'.format(
            engine, ndim, with_nan, with_ext))
        name = base + ext if with_ext else base
        save_ds(ds, name, engine=engine)
        assert os.path.exists(base + ext)
        attrs_expected = (netcdf_attrs(ref_attrs) if engine in NETCDF_LIKE
                          else ref_attrs)

        chunk_opts = [None, 1, 2, {}]
        if ndim:
            chunk_opts += [{'a': 1}, {dim: 2 for dim in ref.dims}]

        other_name = base if with_ext else base + ext
        check_same(ref, load_ds(other_name, engine=engine), attrs_expected)
        ltm_opts = [None, False, True] + ([0, 1] if ndim == 2 else [])

        for load_name in (name,):
            for chunks, load_to_mem in itertools.product(chunk_opts,
                                                         ltm_opts):
                opts = {}
                if chunks is not None:
                    opts['chunks'] = chunks
                if load_to_mem is not None:
                    opts['load_to_mem'] = load_to_mem

                with spy_load_close() as events:
                    if engine == 'joblib':
                        # everything else is ignored for joblib
                        out = load_ds(load_name, engine=engine, **opts)
                        assert events == []
                        check_same(ref, out, attrs_expected)
                        continue

                    if load_to_mem and (chunks is not None):
                        try:
                            load_ds(load_name, engine=engine, **opts)
                        except ValueError as e:
                            assert str(e) == ("``chunks`` redundant if "
                                              "``load_to_mem`` given.")
                        else:
                            raise AssertionError
                        assert events == []
                        continue

                    out = load_ds(load_name, engine=engine, **opts)
                    # only loaded when *neither* option is given
                    if (load_to_mem is None) and (chunks is None):
                        assert events == ['load', 'close'], events
                    else:
                        assert events == [], events
                    del events[:]

                assert is_dask(out) == (chunks is not None and ndim > 0), \
                    (chunks, ndim)
                # lazy values equal in memory values
                check_same(ref, out.compute(), attrs_expected)
                check_same(ref, out, attrs_expected)
                out.close()

        # the file can be rewritten -> nothing was left open by default load
        out = load_ds(name, engine=engine)
        save_ds(out, name, engine=engine)
        again = load_ds(name, engine=engine)
        check_same(ref, again, attrs_expected)
        remove(base + ext)


def test_create_new_and_missing(tmp):
    for engine in ENGINES:
        ext = _engine_extensions[engine]
        base = os.path.join(tmp, 'cn_' + engine)
        for name in (base, base + ext):
            out = load_ds(name, engine=engine, create_new=True)
            assert isinstance(out, xr.Dataset)
            assert out.identical(xr.Dataset())
            # never creates anything on disk
            assert not os.path.exists(base + ext)
            # also when other options are given, even contradictory ones
            out = load_ds(name, engine=engine, create_new=True,
                          load_to_mem=True, chunks=3)
            assert out.identical(xr.Dataset())
            for create_new in (False, 0, None):
                try:
                    load_ds(name, engine=engine, create_new=create_new)
                except (OSError, ValueError) as e:
                    assert not isinstance(e, ValueError) or \
                        'redundant' not in str(e)
                else:
                    raise AssertionError
        # existing file + create_new -> loads the file
        ds = xr.Dataset({'v': ('q', [1.0, np.nan, 3.0])},
                        coords={'q': [1, 2, 3]})
        save_ds(ds, base, engine=engine)
        for name in (base, base + ext):
            out = load_ds(name, engine=engine, create_new=True)
            assert out.identical(ds)
        remove(base + ext)
    # unknown engines
    try:
        load_ds(os.path.join(tmp, 'zz'), engine='mystery', create_new=True)
    except KeyError as e:
        assert e.args == ('mystery',)
    else:
        raise AssertionError
    out = load_ds(os.path.join(tmp, 'zz.h5'), engine='mystery',
                  create_new=True)
    assert out.identical(xr.Dataset())


def test_odd_load_to_mem(tmp):
    base = os.path.join(tmp, 'odd')
    ds = xr.Dataset({'v': ('q', [1.0, 2.0])}, coords={'q': [1, 2]})
    save_ds(ds, base)
    save_ds(ds, base, engine='joblib')
    ambiguous = np.array([1, 2])
    # truthiness is only asked for when not both options are None
    for chunks in (None, 1):
        try:
            load_ds(base, load_to_mem=ambiguous, chunks=chunks)
        except ValueError as e:
            assert 'redundant' not in str(e)
        else:
            raise AssertionError
    # ... and never for joblib
    assert load_ds(base, engine='joblib', load_to_mem=ambiguous,
                   chunks=1).identical(ds)
    # falsy but not None
    for falsy in (False, 0, '', ()):
        with spy_load_close() as events:
            out = load_ds(base, load_to_mem=falsy, chunks={'q': 1})
            assert events == []
        assert out.identical(ds)
        assert out['v'].chunks == ((1, 1),)
        out.close()
    os.remove(base + '.h5')
    os.remove(base + '.dmp')


def test_open_dataset_calls_and_fallback(tmp):
    """What ``xr.open_dataset`` is called with, and the netcdf4 fallback."""
    sentinel = xr.Dataset({'v': ('q', [1.0])})
    calls = []

    def fake_open(*args, **kwargs):
        calls.append((args, kwargs))
        return sentinel

    with mock.patch.object(xr, 'open_dataset', fake_open):
        assert load_ds('f1.h5') is sentinel
        assert load_ds('f2', chunks=3) is sentinel
        assert load_ds('f3', engine='netcdf4', chunks={'q': 1},
                       decode_times=False) is sentinel
        assert load_ds('f4.dmp', load_to_mem=False, group='g') is sentinel
        assert load_ds('f5.nc', engine='mystery') is sentinel
    assert calls == [
        (('f1.h5',), {'engine': 'h5netcdf', 'chunks': None}),
        (('f2.h5',), {'engine': 'h5netcdf', 'chunks': 3}),
        (('f3.nc',), {'engine': 'netcdf4', 'chunks': {'q': 1},
                      'decode_times': False}),
        (('f4.dmp',), {'engine': 'h5netcdf', 'chunks': None, 'group': 'g'}),
        (('f5.nc',), {'engine': 'mystery', 'chunks': None}),
    ], calls

    # -- fallback to netcdf4 -------------------------------------------
    def run(engine, errors, **kwargs):
        calls = []
        errors = list(errors)

        def flaky_open(*args, **kw):
            calls.append((args, dict(kw)))
            if errors:
                err = errors.pop(0)
                if err is not None:
                    raise err
            return sentinel

        with mock.patch.object(xr, 'open_dataset', flaky_open), \
                spy_load_close() as events:
            try:
                res = load_ds('fb', engine=engine, **kwargs)
            except Exception as e:
                res = e
        return res, calls, events

    e_match = AttributeError("'Foo' object has no attribute 'bar'")
    e_other = AttributeError("something else")
    e_type = TypeError("'Foo' object has no attribute 'bar'")
    e_second = AttributeError("'Foo' object has no attribute 'again'")

    # matching error + h5netcdf -> retried once with netcdf4, same options
    res, calls, events = run('h5netcdf', [e_match], chunks=2, group='g')
    assert res is sentinel
    assert calls == [
        (('fb.h5',), {'engine': 'h5netcdf', 'chunks': 2, 'group': 'g'}),
        (('fb.h5',), {'engine': 'netcdf4', 'chunks': 2, 'group': 'g'}),
    ], calls
    assert events == []
    res, calls, events = run('h5netcdf', [e_match])
    assert res is sentinel and len(calls) == 2
    assert events == ['load', 'close']
    # second failure propagates, chained to the first
    res, calls, events = run('h5netcdf', [e_match, e_second])
    assert res is e_second and len(calls) == 2
    assert res.__context__ is e_match
    assert events == []
    res, calls, events = run('h5netcdf', [e_match, OSError('nope')])
    assert isinstance(res, OSError) and res.__context__ is e_match
    # non matching message -> same error object raised again, no retry
    res, calls, events = run('h5netcdf', [e_other])
    assert res is e_other and len(calls) == 1 and events == []
    # other engine -> no retry
    res, calls, events = run('netcdf4', [e_match])
    assert res is e_match and len(calls) == 1
    assert calls[0] == (('fb.nc',), {'engine': 'netcdf4', 'chunks': None})
    # other error types are not intercepted
    res, calls, events = run('h5netcdf', [e_type])
    assert res is e_type and len(calls) == 1
    # contradictory options are rejected before anything is opened
    res, calls, events = run('h5netcdf', [], load_to_mem=True, chunks=1)
    assert isinstance(res, ValueError) and calls == [] and events == []

    # -- zarr goes through ``xr.open_zarr`` instead ---------------------
    zcalls = []

    def fake_open_zarr(*args, **kwargs):
        zcalls.append((args, kwargs))
        return sentinel

    with mock.patch.object(xr, 'open_zarr', fake_open_zarr), \
            mock.patch.object(xr, 'open_dataset', None), \
            spy_load_close() as events:
        assert load_ds('z1', engine='zarr') is sentinel
        assert events == ['load', 'close']
        assert load_ds('z2.zarr', engine='zarr', chunks={'q': 1},
                       consolidated=False) is sentinel
        assert events == ['load', 'close']
        try:
            load_ds('z3', engine='zarr', chunks=1, load_to_mem=1)
        except ValueError:
            pass
        else:
            raise AssertionError
    assert zcalls == [
        (('z1.zarr',), {'chunks': None}),
        (('z2.zarr',), {'chunks': {'q': 1}, 'consolidated': False}),
    ], zcalls

    # -- joblib: keyword arguments forwarded ---------------------------
    jcalls = []
    with mock.patch.object(joblib, 'load',
                           lambda *a, **k: jcalls.append((a, k)) or 'obj'):
        assert load_ds('j1', engine='joblib') == 'obj'
        assert load_ds('j2.h5', engine='joblib', mmap_mode='r',
                       load_to_mem=True, chunks=2) == 'obj'
    assert jcalls == [(('j1.dmp',), {}), (('j2.h5',), {'mmap_mode': 'r'})]


def snapshot(tmp):
    out = {}
    for f in sorted(os.listdir(tmp)):
        with open(os.path.join(tmp, f), 'rb') as fh:
            out[f] = fh.read()
    return out


def run_merge(*args, **kwargs):
    buf = io.StringIO()
    with contextlib.redirect_stdout(buf):
        try:
            res = merge_sync_conflict_datasets(*args, **kwargs)
        except Exception as e:
            res = e
    return res, buf.getvalue()


def test_merge_sync_conflicts(tmp):
    for engine in [e for e in ENGINES if e != 'zarr']:
        ext = _engine_extensions[engine]
        sub = os.path.join(tmp, 'sync_' + engine)
        os.mkdir(sub)

        def path(stem):
            return os.path.join(sub, stem + ext)

        def ds_of(qs, vals, **attrs):
            return xr.Dataset({'v': ('q', vals)}, coords={'q': qs},
                              attrs=attrs)

        pattern = os.path.join(sub, 'data*' + ext)

        # nothing / a single file -> nothing to do
        for n in (0, 1):
            if n:
                save_ds(ds_of([1, 2], [1.0, 2.0]), path('data'),
                        engine=engine)
            before = snapshot(sub)
            res, out = run_merge(pattern, engine=engine)
            assert res is None
            assert out == 'Nothing to do - need multiple files to merge.\n'
            assert snapshot(sub) == before

        # conflicts adding new info: merged into the shortest name
        save_ds(ds_of([3], [3.0 + 1j]), path('data.sync-conflict-B'),
                engine=engine)
        save_ds(ds_of([4, 5], [np.nan, 5.0]), path('data.sync-conflict-AAA'),
                engine=engine)
        names = [path('data'), path('data.sync-conflict-B'),
                 path('data.sync-conflict-AAA')]
        saves = []
        orig_save = manage.save_ds

        def spy_save(ds, file_name, **kwargs):
            saves.append((file_name, kwargs))
            return orig_save(ds, file_name, **kwargs)

        with mock.patch.object(manage, 'save_ds', spy_save):
            res, out = run_merge(pattern, engine=engine)
        assert res is None, res
        assert saves == [(path('data'), {'engine': engine})], saves
        assert out.startswith('Merging:\n[')
        assert out.endswith("]\ninto ->\n{}\n\n".format(path('data')))
        listed = eval(out.split('\n')[1])
        assert listed[0] == path('data') and sorted(listed) == sorted(names)
        assert [len(x) for x in listed] == sorted(len(x) for x in names)
        assert os.listdir(sub) == ['data' + ext]
        full = load_ds(path('data'), engine=engine)
        assert full['q'].values.tolist() == [1, 2, 3, 4, 5]
        v = full['v'].values
        assert v.dtype.kind == 'c'
        assert v[[0, 1, 2, 4]].tolist() == [1.0, 2.0, 3.0 + 1j, 5.0]
        assert np.isnan(v[3])

        # conflict with no new info: original is not rewritten
        save_ds(full.isel(q=[0, 1]).copy(deep=True),
                path('data.sync-conflict-C'), engine=engine)
        save_ds(full.copy(deep=True), path('data (copy)'), engine=engine)
        original_bytes = snapshot(sub)['data' + ext]
        for combine_first in (False, True):
            if combine_first:
                save_ds(full.isel(q=[4]).copy(deep=True),
                        path('data-again'), engine=engine)
            del saves[:]
            with mock.patch.object(manage, 'save_ds', spy_save):
                res, out = run_merge(pattern, engine,
                                     combine_first=combine_first)
            assert res is None, res
            assert saves == []
            assert snapshot(sub) == {'data' + ext: original_bytes}

        # conflicting *values*
        save_ds(ds_of([1, 2, 6], [100.0, 2.0, 6.0]), path('data-x'),
                engine=engine)
        before = snapshot(sub)
        res, out = run_merge(pattern, engine=engine)
        assert isinstance(res, xr.MergeError), res
        assert out.startswith('Merging:\n')
        # nothing deleted, nothing rewritten
        assert snapshot(sub) == before
        # ... resolved in favour of the original with combine_first
        save_ds(ds_of([1, 7], [-1.0, 7.0]), path('data-yy'), engine=engine)
        res, out = run_merge(pattern, engine=engine, combine_first=1)
        assert res is None, res
        assert os.listdir(sub) == ['data' + ext]
        full2 = load_ds(path('data'), engine=engine)
        assert full2['q'].values.tolist() == [1, 2, 3, 4, 5, 6, 7]
        v = full2['v'].values
        assert v[[0, 1, 2, 4, 5, 6]].tolist() == \
            [1.0, 2.0, 3.0 + 1j, 5.0, 6.0, 7.0]
        assert np.isnan(v[3])

        # attributes: netcdf rewriting applies when the merge is saved
        a = ds_of([1], [1.0], flag=None, keep='yes')
        b = ds_of([2], [2.0])
        remove(path('data'))
        save_ds(a, path('attr'), engine=engine)
        save_ds(b, path('attr-conflict'), engine=engine)
        res, out = run_merge(os.path.join(sub, 'attr*'), engine=engine)
        assert res is None, res
        got = load_ds(path('attr'), engine=engine)
        expected_flag = 'None' if engine in NETCDF_LIKE else None
        assert dict(got.attrs) == {'flag': expected_flag, 'keep': 'yes'}
        assert got['q'].values.tolist() == [1, 2]
        assert os.listdir(sub) == ['attr' + ext]

        # wrong engine for the files -> error while loading, all files kept
        save_ds(b, path('attr-conflict'), engine=engine)
        other = 'joblib' if engine != 'joblib' else 'h5netcdf'
        before = snapshot(sub)
        res, out = run_merge(os.path.join(sub, 'attr*'), engine=other)
        assert isinstance(res, Exception)
        assert snapshot(sub) == before
        shutil.rmtree(sub)


def test_save_merge_and_harvester(tmp):
    """Naming consistent between saving, merging, loading and deleting."""
    for engine in [e for e in ENGINES if e != 'zarr']:
        ext = _engine_extensions[engine]
        for with_ext in (False, True):
            base = os.path.join(tmp, 'mg_{}_{}'.format(engine, with_ext))
            name = base + ext if with_ext else base
            ds1 = xr.Dataset({'v': ('q', [1.0, 2.0])}, coords={'q': [1, 2]})
            ds2 = xr.Dataset({'v': ('q', [20.0, 3.0])}, coords={'q': [2, 3]})
            save_merge_ds(ds1, name, engine=engine)
            assert os.listdir(tmp) == [os.path.basename(base + ext)]
            try:
                save_merge_ds(ds2, name, engine=engine)
            except xr.MergeError:
                pass
            else:
                raise AssertionError
            save_merge_ds(ds2, name, overwrite=False, engine=engine)
            assert load_ds(name, engine=engine)['v'].values.tolist() == \
                [1.0, 2.0, 3.0]
            save_merge_ds(ds2, name, overwrite=True, engine=engine)
            assert load_ds(name, engine=engine)['v'].values.tolist() == \
                [1.0, 20.0, 3.0]
            assert os.listdir(tmp) == [os.path.basename(base + ext)]
            os.remove(base + ext)

            def fn(a, b):
                return a + b * 1j, float('nan') if a == 1 else float(a)

            r = xyzpy.Runner(fn, var_names=['s', 't'])
            for chunks in (None, 1, {'a': 1}):
                h = xyzpy.Harvester(r, data_name=name, engine=engine,
                                    chunks=chunks)
                h.harvest_combos({'a': [1, 2], 'b': [10, 20]}, verbosity=0)
                assert os.listdir(tmp) == [os.path.basename(base + ext)]
                h.harvest_combos({'a': [3], 'b': [10, 20]}, verbosity=0)
                h2 = xyzpy.Harvester(r, data_name=name, engine=engine,
                                     chunks=chunks)
                lazy_full = h2.full_ds
                full = lazy_full.compute()
                assert full['a'].values.tolist() == [1, 2, 3]
                assert full['s'].sel(a=3, b=20).item() == 3 + 20j
                assert np.isnan(full['t'].sel(a=1, b=10).item())
                assert full['t'].sel(a=2, b=10).item() == 2.0
                lazy_full.close()
                h.delete_ds()
                assert os.listdir(tmp) == []


def main():
    tmp = tempfile.mkdtemp(prefix='c14_t2_')
    cwd = os.getcwd()
    try:
        test_roundtrip_load_modes(tmp)
        test_create_new_and_missing(tmp)
        test_odd_load_to_mem(tmp)
        # mocked readers get relative names -> make sure nothing could ever
        # touch the worktree
        os.chdir(tmp)
        try:
            test_open_dataset_calls_and_fallback(tmp)
        finally:
            os.chdir(cwd)
        test_merge_sync_conflicts(tmp)
        test_save_merge_and_harvester(tmp)
        leftovers = os.listdir(tmp)
        assert leftovers == [], leftovers
    finally:
        os.chdir(cwd)
        shutil.rmtree(tmp, ignore_errors=True)
    print('PASS')


if __name__ == '__main__':
    main()
