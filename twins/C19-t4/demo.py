"""Demo / check for C19 (running statistics), refactoring 1.

Exercises ``RunningStatistics``, ``RunningCovariance`` and
``RunningCovarianceMatrix``:

* bit-for-bit agreement with a straightforward reference transcription of the
  update recurrences (so any reordering of floating point operations, of the
  pair traversal, or of the side effects on failure would be noticed);
* agreement of count / mean / var / std / err / rel_err / covar /
  sample_covar / covariance matrices with whole-sample numpy statistics for
  many offsets, spreads, chunkings and permutations;
* the edge cases: empty statistics, single sample, failing updates that leave
  partially updated state, generators, unequal lengths, ``converged``,
  ``__repr__`` and ``to_uncertainties`` (with a stub module).

Run as ``cd <worktree> && /venv/bin/python /path/to/demo.py``.
"""

import os
import sys

sys.path.insert(0, os.getcwd())

import math  # noqa: E402
import random  # noqa: E402
import types  # noqa: E402
import warnings  # noqa: E402

import numpy as np  # noqa: E402

import xyzpy  # noqa: E402
from xyzpy import (  # noqa: E402
    RunningCovariance,
    RunningCovarianceMatrix,
    RunningStatistics,
)

assert os.path.dirname(os.path.dirname(os.path.abspath(xyzpy.__file__))) == (
    os.path.abspath(os.getcwd())
), xyzpy.__file__

EPS = np.finfo(float).eps
CHECKS = 0


def check(cond, msg=""):
    global CHECKS
    CHECKS += 1
    if not cond:
        raise AssertionError(msg)


def same(a, b):
    """Bit-for-bit equality of two floats (nan == nan)."""
    a, b = float(a), float(b)
    if math.isnan(a) or math.isnan(b):
        return math.isnan(a) and math.isnan(b)
    return a == b and math.copysign(1.0, a) == math.copysign(1.0, b)


# ----------------------------- reference models ---------------------------- #


class RefStats:
    def __init__(self):
        self.count = 0
        self.mean = 0.0
        self.M2 = 0.0

    def update(self, x):
        self.count += 1
        d1 = x - self.mean
        self.mean += d1 / self.count
        d2 = x - self.mean
        self.M2 += d1 * d2


class RefCov:
    def __init__(self):
        self.count = 0
        self.xmean = 0.0
        self.ymean = 0.0
        self.C = 0.0

    def update(self, x, y):
        self.count += 1
        dx = x - self.xmean
        dy = y - self.ymean
        self.xmean += dx / self.count
        self.ymean += dy / self.count
        self.C += dx * (y - self.ymean)


def chunkings(n, rng):
    """A few ways of cutting range(n) into consecutive chunks."""
    yield [1] * n
    yield [n]
    if n >= 2:
        yield [n // 2, n - n // 2]
    sizes, left = [], n
    while left:
        k = rng.randint(1, max(1, min(left, 37)))
        sizes.append(k)
        left -= k
    yield sizes
    # includes empty chunks
    yield [0, n, 0]


def feed_stats(rs, xs, sizes):
    pos = 0
    for k in sizes:
        if k == 1:
            rs.update(xs[pos])
        else:
            rs.update_from_it(xs[pos:pos + k])
        pos += k
    assert pos == len(xs)


def feed_cov(rc, xs, ys, sizes):
    pos = 0
    for k in sizes:
        if k == 1:
            rc.update(xs[pos], ys[pos])
        else:
            rc.update_from_it(xs[pos:pos + k], ys[pos:pos + k])
        pos += k


def feed_matrix(rcm, series, sizes):
    pos = 0
    for k in sizes:
        if k == 1:
            rcm.update(*(s[pos] for s in series))
        else:
            rcm.update_from_it(*(s[pos:pos + k] for s in series))
        pos += k


# ------------------------------ RunningStatistics --------------------------- #


def check_stats_against_whole_sample(xs, rs):
    n = len(xs)
    a = np.asarray(xs, dtype=float)
    scale = max(1.0, float(np.max(np.abs(a))))
    mean = float(np.mean(a))
    dev = a - mean
    var = float(np.mean(dev * dev))
    std = var**0.5
    # absolute errors relative to the data scale
    tol_mean = 64 * EPS * scale
    tol_var = 64 * EPS * scale * (std + EPS * scale) + 64 * (EPS * scale) ** 2
    check(rs.count == n)
    check(abs(rs.mean - mean) <= tol_mean, (rs.mean, mean))
    check(abs(rs.var - var) <= tol_var, (rs.var, var, tol_var))
    check(rs.var >= 0.0)
    tol_std = tol_var**0.5 if std == 0 else tol_var / std + tol_var**0.5 * 1e-3
    check(abs(rs.std - std) <= max(tol_std, 8 * EPS * scale), (rs.std, std))
    check(same(rs.std, rs.var**0.5))
    check(same(rs.err, rs.std / n**0.5))
    if rs.mean != 0:
        check(same(rs.rel_err, rs.err / abs(rs.mean)))


def test_running_statistics():
    rng = random.Random(1234)
    nprng = np.random.RandomState(99)
    lengths = [1, 2, 3, 7, 50, 500]
    offsets = [0.0, 1.0, -3.5, 1e3, -1e6, 1e9]
    spreads = [1e-3, 1.0, 1e2]
    for n in lengths:
        for off in offsets:
            for spread in spreads:
                base = off + spread * nprng.randn(n)
                for kind in ("float", "np", "sorted", "reversed"):
                    if kind == "float":
                        xs = [float(v) for v in base]
                    elif kind == "np":
                        xs = base.copy()
                    elif kind == "sorted":
                        xs = sorted(float(v) for v in base)
                    else:
                        xs = sorted((float(v) for v in base), reverse=True)
                    ref = RefStats()
                    for x in xs:
                        ref.update(x)
                    for sizes in chunkings(n, rng):
                        rs = RunningStatistics()
                        feed_stats(rs, xs, sizes)
                        check(rs.count == ref.count)
                        check(same(rs.mean, ref.mean))
                        check(same(rs.M2, ref.M2))
                        check(same(rs.var, ref.M2 / ref.count))
                        check_stats_against_whole_sample(xs, rs)
                # permutation: same whole-sample statistics
                perm = [float(v) for v in nprng.permutation(base)]
                rs = RunningStatistics()
                rs.update_from_it(iter(perm))  # any iterable
                check_stats_against_whole_sample(perm, rs)

    # integers and mixed types
    rs, ref = RunningStatistics(), RefStats()
    for x in [1, 2, 3, 10, True, np.int64(7), np.float32(1.5)]:
        rs.update(x)
        ref.update(x)
    check(same(rs.mean, ref.mean) and same(rs.M2, ref.M2) and rs.count == 7)
    check(type(rs.mean) is type(ref.mean))

    # constant data: zero spread exactly
    rs = RunningStatistics()
    rs.update_from_it([42.0] * 9)
    check(rs.mean == 42.0 and rs.var == 0.0 and rs.std == 0.0)
    check(rs.err == 0.0 and rs.rel_err == 0.0)
    check(rs.converged(0.0, 1e-300) is True)
    check(rs.converged(0.0, 0.0) is False)


def test_running_statistics_edges():
    rs = RunningStatistics()
    check(rs.count == 0 and rs.mean == 0.0 and rs.M2 == 0.0)
    for attr in ("var", "std", "err", "rel_err"):
        check(getattr(rs, attr) == np.inf, attr)
    check(repr(rs) == "RunningStatistics(mean=None, count=0)")
    check(rs.converged(0.5, 0.5) is False)
    check(rs.converged(0.5, np.inf) is False)
    rs.update_from_it([])
    check(rs.count == 0)

    # single sample
    rs.update(3.0)
    check(rs.count == 1 and rs.mean == 3.0 and rs.var == 0.0)
    check(rs.err == 0.0 and rs.rel_err == 0.0)

    # converged is strictly err < rtol * |mean| + atol
    rs = RunningStatistics()
    rs.update_from_it([1.0, 3.0])
    check(rs.mean == 2.0 and rs.var == 1.0 and rs.std == 1.0)
    err = rs.err
    check(same(err, 1.0 / 2**0.5))
    check(rs.converged(0.0, err) is False)
    check(rs.converged(0.0, err * (1 + 1e-15)) is True)
    check(rs.converged(err / 2.0, 0.0) is False)
    check(bool(rs.converged(0.36, 0.0)) is True)
    check(bool(rs.converged(0.35, 0.0)) is False)
    check(bool(rs.converged(0.3, 0.2)) is True)
    # negative mean uses the absolute value
    rs = RunningStatistics()
    rs.update_from_it([-1.0, -3.0])
    check(rs.mean == -2.0)
    check(bool(rs.converged(0.36, 0.0)) is True)
    check(same(rs.rel_err, rs.err / 2.0))
    # bad tolerances raise, after the error has been evaluated fine
    for bad in [(None, 0.0), (0.1, None), ("a", 0.0)]:
        try:
            rs.converged(*bad)
        except TypeError:
            check(True)
        else:
            check(False, bad)
    check(repr(rs) == "RunningStatistics(mean=-2.00(71), count=2)", repr(rs))

    # zero mean -> relative error divides by zero
    rs = RunningStatistics()
    rs.update_from_it([-1.0, 1.0])
    check(rs.mean == 0.0)
    try:
        rs.rel_err
    except ZeroDivisionError:
        check(True)
    else:
        check(False)
    with warnings.catch_warnings():
        warnings.simplefilter("ignore")
        rs = RunningStatistics()
        rs.update_from_it(np.array([-1.0, 1.0]))
        check(rs.rel_err == np.inf)

    # a failing update has already counted the sample but nothing else
    rs = RunningStatistics()
    rs.update(2.0)
    try:
        rs.update("oops")
    except TypeError:
        check(True)
    else:
        check(False)
    check(rs.count == 2 and rs.mean == 2.0 and rs.M2 == 0.0)
    try:
        rs.update_from_it([4.0, None, 6.0])
    except TypeError:
        check(True)
    else:
        check(False)
    check(rs.count == 4 and same(rs.mean, 2.0 + 2.0 / 3))

    # nan / inf propagate
    rs = RunningStatistics()
    rs.update_from_it([1.0, float("nan"), 2.0])
    check(rs.count == 3 and math.isnan(rs.mean) and math.isnan(rs.var))
    check(rs.converged(1.0, 1.0) is False)

    # arrays as values: elementwise statistics
    rs = RunningStatistics()
    data = np.arange(12.0).reshape(4, 3) ** 2
    rs.update_from_it(data)
    check(np.allclose(rs.mean, data.mean(0)))
    check(np.allclose(rs.var, data.var(0)))
    check(np.allclose(rs.err, data.std(0) / 2.0))


# ------------------------------ RunningCovariance --------------------------- #


def whole_cov(a, b):
    a = np.asarray(a, dtype=float)
    b = np.asarray(b, dtype=float)
    da, db = a - a.mean(), b - b.mean()
    return float(np.mean(da * db)), da, db


def check_cov_against_whole_sample(xs, ys, count, C, xmean, ymean):
    n = len(xs)
    cov, da, db = whole_cov(xs, ys)
    sx = max(1.0, float(np.max(np.abs(xs))))
    sy = max(1.0, float(np.max(np.abs(ys))))
    stdx = float(np.sqrt(np.mean(da * da)))
    stdy = float(np.sqrt(np.mean(db * db)))
    tol = 64 * EPS * (sx * stdy + sy * stdx + EPS * sx * sy) + 1e-300
    check(count == n)
    check(abs(xmean - float(np.mean(xs))) <= 64 * EPS * sx)
    check(abs(ymean - float(np.mean(ys))) <= 64 * EPS * sy)
    check(abs(C / n - cov) <= tol, (C / n, cov, tol))
    if n > 1:
        check(abs(C / (n - 1) - cov * n / (n - 1)) <= 2 * tol)


def test_running_covariance():
    rng = random.Random(4321)
    nprng = np.random.RandomState(7)
    for n in [1, 2, 5, 64, 500]:
        for off in [0.0, -20.0, 1e4, 1e9]:
            for spread in [1e-3, 1.0, 30.0]:
                for rho in [-1.0, -0.3, 0.0, 0.9, 1.0]:
                    u = nprng.randn(n)
                    v = rho * u + (1 - rho * rho) ** 0.5 * nprng.randn(n)
                    xs = off + spread * u
                    ys = -off / 3 + 2 * spread * v
                    for as_list in (False, True):
                        if as_list:
                            fx, fy = [float(t) for t in xs], [float(t) for t in ys]
                        else:
                            fx, fy = xs, ys
                        ref = RefCov()
                        for x, y in zip(fx, fy):
                            ref.update(x, y)
                        for sizes in chunkings(n, rng):
                            rc = RunningCovariance()
                            feed_cov(rc, fx, fy, sizes)
                            check(rc.count == ref.count)
                            check(same(rc.xmean, ref.xmean))
                            check(same(rc.ymean, ref.ymean))
                            check(same(rc.C, ref.C))
                            check(same(rc.covar, ref.C / n))
                            if n > 1:
                                check(same(rc.sample_covar, ref.C / (n - 1)))
                        check_cov_against_whole_sample(
                            xs, ys, rc.count, rc.C, rc.xmean, rc.ymean
                        )
                    # permutations leave the whole-sample statistics alone
                    order = nprng.permutation(n)
                    rc = RunningCovariance()
                    rc.update_from_it(xs[order], ys[order])
                    check_cov_against_whole_sample(
                        xs, ys, rc.count, rc.C, rc.xmean, rc.ymean
                    )

    # variance == covariance with itself == RunningStatistics
    xs = [float(t) for t in 5 + nprng.randn(40)]
    rc, rs = RunningCovariance(), RunningStatistics()
    rc.update_from_it(xs, xs)
    rs.update_from_it(xs)
    check(same(rc.C, rs.M2) and same(rc.covar, rs.var))
    check(same(rc.xmean, rs.mean) and same(rc.ymean, rs.mean))

    # edges
    rc = RunningCovariance()
    check((rc.count, rc.xmean, rc.ymean, rc.C) == (0, 0.0, 0.0, 0.0))
    try:
        rc.covar
    except ZeroDivisionError:
        check(True)
    else:
        check(False)
    # 0.0 / (0 - 1)
    check(same(rc.sample_covar, -0.0))
    rc.update(1.0, 2.0)
    check(rc.covar == 0.0)
    try:
        rc.sample_covar
    except ZeroDivisionError:
        check(True)
    else:
        check(False)
    # unequal lengths: the shorter one wins
    rc = RunningCovariance()
    rc.update_from_it([1.0, 2.0, 3.0, 4.0], [2.0, 4.0])
    check(rc.count == 2 and rc.xmean == 1.5 and rc.ymean == 3.0)
    check(rc.covar == 0.5 and rc.sample_covar == 1.0)
    # a failing update: sample counted, x shift computed, nothing stored
    rc = RunningCovariance()
    rc.update(1.0, 1.0)
    for bad in [(3.0, "y"), ("x", 3.0)]:
        before = (rc.xmean, rc.ymean, rc.C)
        n_before = rc.count
        try:
            rc.update(*bad)
        except TypeError:
            check(True)
        else:
            check(False)
        check(rc.count == n_before + 1)
        check((rc.xmean, rc.ymean, rc.C) == before)


# --------------------------- RunningCovarianceMatrix ------------------------ #


def ref_matrix_state(n, series):
    """Reference: one RefCov per pair i <= j fed in lockstep."""
    refs = {(i, j): RefCov() for i in range(n) for j in range(i, n)}
    for row in zip(*series):
        for i in range(n):
            for j in range(i, n):
                refs[i, j].update(row[i], row[j])
    return refs


def test_running_covariance_matrix():
    rng = random.Random(2468)
    nprng = np.random.RandomState(11)

    rcm = RunningCovarianceMatrix()
    check(rcm.n == 2)
    check(list(rcm.rcs) == [(0, 0), (0, 1), (1, 1)])
    rcm = RunningCovarianceMatrix(4)
    check(list(rcm.rcs) == [
        (0, 0), (0, 1), (0, 2), (0, 3), (1, 1), (1, 2), (1, 3),
        (2, 2), (2, 3), (3, 3),
    ])
    check(all(type(v) is RunningCovariance for v in rcm.rcs.values()))
    check(len(set(map(id, rcm.rcs.values()))) == 10)
    check(rcm.count == 0)
    check(RunningCovarianceMatrix(0).rcs == {})
    check(RunningCovarianceMatrix(n=1).n == 1)

    for nser in [1, 2, 3, 4]:
        for n in [1, 2, 9, 120, 500]:
            for off, spread in [(0.0, 1.0), (1e9, 1e-3), (-1e5, 10.0)]:
                mix = nprng.randn(nser, nser)
                raw = mix @ nprng.randn(nser, n)
                series = [
                    off * (k + 1) + spread * raw[k] for k in range(nser)
                ]
                refs = ref_matrix_state(nser, series)
                for sizes in chunkings(n, rng):
                    rcm = RunningCovarianceMatrix(nser)
                    feed_matrix(rcm, series, sizes)
                    check(rcm.count == n)
                    for key, ref in refs.items():
                        rc = rcm.rcs[key]
                        check(rc.count == ref.count)
                        check(same(rc.xmean, ref.xmean))
                        check(same(rc.ymean, ref.ymean))
                        check(same(rc.C, ref.C))
                    cm = rcm.covar_matrix
                    check(type(cm) is np.ndarray and cm.dtype == np.float64)
                    check(cm.shape == (nser, nser))
                    for i in range(nser):
                        for j in range(nser):
                            ref = refs[min(i, j), max(i, j)]
                            check(same(cm[i, j], ref.C / n))
                    check(np.array_equal(cm, cm.T))
                    # a fresh array every time
                    check(rcm.covar_matrix is not cm)
                    if n > 1:
                        scm = rcm.sample_covar_matrix
                        check(scm.shape == (nser, nser))
                        for i in range(nser):
                            for j in range(nser):
                                ref = refs[min(i, j), max(i, j)]
                                check(same(scm[i, j], ref.C / (n - 1)))
                # against the whole sample at once
                for i in range(nser):
                    for j in range(nser):
                        rc = rcm.rcs[min(i, j), max(i, j)]
                        a, b = (i, j) if i <= j else (j, i)
                        check_cov_against_whole_sample(
                            series[a], series[b], rc.count, rc.C,
                            rc.xmean, rc.ymean,
                        )
                if off == 0.0 and n > nser:
                    arr = np.array(series)
                    check(np.allclose(
                        np.atleast_2d(np.cov(arr, bias=True)),
                        rcm.covar_matrix, rtol=1e-9, atol=1e-12))
                    check(np.allclose(
                        np.atleast_2d(np.cov(arr)),
                        rcm.sample_covar_matrix, rtol=1e-9, atol=1e-12))

    # empty / single-sample matrices
    rcm = RunningCovarianceMatrix(3)
    try:
        rcm.covar_matrix
    except ZeroDivisionError:
        check(True)
    else:
        check(False)
    empty = rcm.sample_covar_matrix
    check(empty.shape == (3, 3) and (empty == 0.0).all())
    check(np.signbit(empty).all())
    rcm.update(1.0, 2.0, 3.0)
    check(np.array_equal(rcm.covar_matrix, np.zeros((3, 3))))
    try:
        rcm.sample_covar_matrix
    except ZeroDivisionError:
        check(True)
    else:
        check(False)
    with warnings.catch_warnings():
        warnings.simplefilter("ignore")
        rcm = RunningCovarianceMatrix(2)
        rcm.update(np.float64(1.0), np.float64(2.0))
        check(np.isnan(rcm.sample_covar_matrix).all())
    m0 = RunningCovarianceMatrix(0)
    m0.update()
    m0.update_from_it()
    check(m0.covar_matrix.shape == (0, 0))
    check(m0.sample_covar_matrix.shape == (0, 0))
    try:
        m0.count
    except KeyError:
        check(True)
    else:
        check(False)

    # too few values: the pairs visited before the failure are updated
    rcm = RunningCovarianceMatrix(3)
    rcm.update(1.0, 2.0, 3.0)
    try:
        rcm.update(5.0, 6.0)
    except IndexError:
        check(True)
    else:
        check(False)
    counts = {k: v.count for k, v in rcm.rcs.items()}
    check(counts == {
        (0, 0): 2, (0, 1): 2, (0, 2): 1, (1, 1): 1, (1, 2): 1, (2, 2): 1,
    }, counts)
    check(rcm.count == 2)
    # extra values are ignored
    rcm = RunningCovarianceMatrix(2)
    rcm.update(1.0, 2.0, "ignored")
    rcm.update_from_it([3.0], [6.0], None)
    check(rcm.count == 2 and same(rcm.covar_matrix[0, 1], 2.0))
    try:
        rcm.update_from_it([1.0, 2.0])
    except IndexError:
        check(True)
    else:
        check(False)
    check({k: v.count for k, v in rcm.rcs.items()}
          == {(0, 0): 4, (0, 1): 2, (1, 1): 2})

    # one-shot iterators are consumed pair by pair, in storage order
    log = []

    def gen(name, vals):
        for v in vals:
            log.append(name)
            yield v

    rcm = RunningCovarianceMatrix(2)
    rcm.update_from_it(gen("a", [1.0, 2.0, 3.0, 4.0]), gen("b", [5.0, 7.0]))
    counts = {k: v.count for k, v in rcm.rcs.items()}
    check(counts == {(0, 0): 2, (0, 1): 0, (1, 1): 1}, counts)
    check(log == ["a"] * 4 + ["b"] * 2, log)
    check(rcm.rcs[0, 0].xmean == 2.0 and rcm.rcs[0, 0].ymean == 3.0)
    check(rcm.rcs[1, 1].xmean == 5.0 and rcm.rcs[1, 1].ymean == 7.0)

    # unequal lengths: each pair stops at its shorter member
    rcm = RunningCovarianceMatrix(2)
    rcm.update_from_it([1.0, 2.0, 3.0], [1.0, 2.0])
    check({k: v.count for k, v in rcm.rcs.items()}
          == {(0, 0): 3, (0, 1): 2, (1, 1): 2})
    check(rcm.count == 3)

    # to_uncertainties hands over the means and the chosen matrix
    calls = []
    stub = types.ModuleType("uncertainties")
    stub.correlated_values = lambda means, covar: calls.append(
        (means, covar)) or ("vals", len(calls))
    saved = sys.modules.get("uncertainties")
    sys.modules["uncertainties"] = stub
    try:
        rcm = RunningCovarianceMatrix(3)
        xs = [1.0, 3.0, 2.0, 7.0]
        rcm.update_from_it(xs, [2 * x for x in xs], [x * x for x in xs])
        check(rcm.to_uncertainties() == ("vals", 1))
        check(rcm.to_uncertainties(bias=False) == ("vals", 2))
        check(rcm.to_uncertainties(True) == ("vals", 3))
    finally:
        if saved is None:
            del sys.modules["uncertainties"]
        else:
            sys.modules["uncertainties"] = saved
    means = [rcm.rcs[i, i].xmean for i in range(3)]
    check(means == [3.25, 6.5, 15.75])
    check(calls[0][0] == means and calls[1][0] == means)
    check(np.array_equal(calls[0][1], rcm.covar_matrix))
    check(np.array_equal(calls[1][1], rcm.sample_covar_matrix))
    check(np.array_equal(calls[2][1], rcm.covar_matrix))
    check(np.allclose(calls[1][1], np.cov(
        [xs, [2 * x for x in xs], [x * x for x in xs]])))


def main():
    test_running_statistics()
    test_running_statistics_edges()
    test_running_covariance()
    test_running_covariance_matrix()
    print(f"{CHECKS} checks")
    print("PASS")


if __name__ == "__main__":
    main()
