"""Demo for the helper-extracting refactoring of xyzpy/gen/combo_runner.py.

Run as:  cd <worktree> && /venv/bin/python /path/to/demo.py

Prints PASS and exits 0 on the unmodified tree and on the refactored tree.
"""
import sys
import os

sys.path.insert(0, os.getcwd())

import glob
import itertools
import math
import random
import shutil
import tempfile
import multiprocessing
import multiprocessing.pool
import concurrent.futures as cf

import numpy as np

import xyzpy
from xyzpy.gen import combo_runner as cr
from xyzpy.gen.combo_runner import (
    combo_runner,
    combo_runner_core,
    combo_runner_to_ds,
    combo_runner_to_df,
)
from xyzpy.gen.case_runner import case_runner

LOGDIR = None
CHECKS = 0


def check(cond, msg):
    global CHECKS
    CHECKS += 1
    if not cond:
        print("FAIL:", msg)
        raise SystemExit(1)


# --------------------------------------------------------------------------- #
# functions swept (module level so that process pools can pickle them)


def _log(kws):
    # one file per call: works across threads and processes
    fd, _ = tempfile.mkstemp(dir=kws.pop("logdir"), suffix=".call")
    with os.fdopen(fd, "w") as f:
        f.write(repr(sorted(kws.items())))


def f_scalar(**kws):
    _log(dict(kws))
    kws.pop("logdir")
    return repr(sorted(kws.items()))


def f_tuple(**kws):
    _log(dict(kws))
    kws.pop("logdir")
    key = repr(sorted(kws.items()))
    return key, len(key), key[::-1]


def f_array(**kws):
    _log(dict(kws))
    kws.pop("logdir")
    key = repr(sorted(kws.items()))
    return np.array([len(key), sum(map(ord, key)), hash_free(key)])


def hash_free(key):
    # deterministic across processes (unlike hash())
    h = 7
    for ch in key:
        h = (h * 31 + ord(ch)) % 1000003
    return h


def expect_scalar(kws):
    return repr(sorted(kws.items()))


def expect_tuple(kws):
    key = expect_scalar(kws)
    return key, len(key), key[::-1]


def expect_array(kws):
    key = expect_scalar(kws)
    return np.array([len(key), sum(map(ord, key)), hash_free(key)])


FNS = {
    "scalar": (f_scalar, expect_scalar),
    "tuple": (f_tuple, expect_tuple),
    "array": (f_array, expect_array),
}


def same(x, y):
    if isinstance(x, np.ndarray) or isinstance(y, np.ndarray):
        return np.array_equal(np.asarray(x), np.asarray(y))
    if isinstance(x, tuple) and isinstance(y, tuple):
        return len(x) == len(y) and all(same(a, b) for a, b in zip(x, y))
    return type(x) is type(y) and x == y


def nested_expect(combos, constants, expect, pick=None):
    """Build the nested tuple the sweep should return."""
    args = [a for a, _ in combos]

    def rec(i, chosen):
        if i == len(args):
            kws = dict(zip(args, chosen))
            kws.update(constants)
            out = expect(kws)
            return out if pick is None else out[pick]
        return tuple(rec(i + 1, chosen + (v,)) for v in combos[i][1])

    return rec(0, ())


def nested_same(x, y, depth):
    if depth == 0:
        return same(x, y)
    return (
        isinstance(x, tuple)
        and len(x) == len(y)
        and all(nested_same(a, b, depth - 1) for a, b in zip(x, y))
    )


def logged_calls():
    out = []
    for fname in glob.glob(os.path.join(LOGDIR, "*.call")):
        with open(fname) as f:
            out.append(f.read())
        os.remove(fname)
    return sorted(out)


# --------------------------------------------------------------------------- #
# executors with a controlled completion order


class LazyFuture:
    def __init__(self, pool, i):
        self.pool, self.i = pool, i

    def result(self):
        self.pool.finish()
        return self.pool.done[self.i]


class LazyGet:
    def __init__(self, pool, i):
        self.pool, self.i = pool, i

    def get(self):
        self.pool.finish()
        return self.pool.done[self.i]


class OrderedSubmitPool:
    """``submit`` style pool: runs everything when the first result is asked
    for, in a completion order chosen by ``seed``."""

    def __init__(self, seed):
        self.seed, self.jobs, self.done = seed, [], None

    def submit(self, fn, *args, **kwds):
        self.jobs.append((fn, args, kwds))
        return LazyFuture(self, len(self.jobs) - 1)

    def finish(self):
        if self.done is None:
            order = list(range(len(self.jobs)))
            random.Random(self.seed).shuffle(order)
            self.done = {}
            for i in order:
                fn, args, kwds = self.jobs[i]
                self.done[i] = fn(*args, **kwds)


class OrderedApplyPool(OrderedSubmitPool):
    """ipyparallel style pool: ``apply_async(fn, *args, **kwds)`` + ``get``"""

    def __getattribute__(self, name):
        if name == "submit":
            raise AttributeError(name)
        return object.__getattribute__(self, name)

    def apply_async(self, fn, *args, **kwds):
        self.jobs.append((fn, args, kwds))
        return LazyGet(self, len(self.jobs) - 1)


# --------------------------------------------------------------------------- #


def grids():
    yield (("a", [1, 2]),), {}
    yield (("s", ["x", "y", "z"]), ("t", [0.5])), {"k": 3}
    yield (
        ("a", [3, 1, 2]),
        ("b", ["q", "p"]),
        ("c", [2.5, -1.0, 0.0, 7.25]),
    ), {"const": "c", "other": 1.5}
    yield (
        ("a", [1, 2]),
        ("b", [20, 10]),
        ("c", ["u"]),
        ("d", [0.1, 0.2, 0.3]),
        ("e", [5, 4]),
    ), {"z": 0}


def strategies():
    """name, options, whether calls are made in this process in order"""
    yield "sequential", dict(), True
    yield "shuffle=True", dict(shuffle=True), True
    yield "shuffle=7", dict(shuffle=7), True
    yield "num_workers=2", dict(num_workers=2), False
    yield "parallel=True+shuffle", dict(parallel=True, shuffle=3), False
    yield "thread", dict(executor=lambda: cf.ThreadPoolExecutor(3)), False
    yield "thread+shuffle", dict(
        executor=lambda: cf.ThreadPoolExecutor(3), shuffle=11), False
    yield "process", dict(executor=lambda: cf.ProcessPoolExecutor(2)), False
    yield "mp.Pool", dict(executor=lambda: multiprocessing.Pool(2)), False
    yield "mp.ThreadPool+shuffle", dict(
        executor=lambda: multiprocessing.pool.ThreadPool(2), shuffle=2), False
    for seed in (0, 1, 2):
        yield f"lazy-submit-{seed}", dict(
            executor=lambda seed=seed: OrderedSubmitPool(seed)), False
        yield f"lazy-apply-{seed}+shuffle", dict(
            executor=lambda seed=seed: OrderedApplyPool(seed), shuffle=seed + 1
        ), False


def close(executor):
    for name in ("shutdown", "terminate"):
        if hasattr(executor, name):
            getattr(executor, name)()
            return


def run_sweeps():
    heavy = {"process", "mp.Pool", "num_workers=2", "parallel=True+shuffle"}
    for gi, (combos, constants) in enumerate(grids()):
        args = [a for a, _ in combos]
        all_kws = []
        for vals in itertools.product(*(v for _, v in combos)):
            kws = dict(zip(args, vals))
            kws.update(constants)
            all_kws.append(kws)
        expected_calls = sorted(expect_scalar(k) for k in all_kws)

        for sname, opts, _ in strategies():
            for rname, (fn, expect) in FNS.items():
                if sname in heavy and (gi, rname) not in (
                    (2, "tuple"), (1, "scalar"), (3, "array")
                ):
                    continue
                for split, flat in [(False, False), (True, False),
                                    (False, True), (True, True)]:
                    if split and rname == "scalar":
                        continue
                    for spelling in ("tuple", "dict"):
                        if spelling == "dict" and (split or flat):
                            continue
                        o = dict(opts)
                        ex = None
                        if "executor" in o:
                            ex = o["executor"] = o["executor"]()
                        given = dict(combos) if spelling == "dict" else combos
                        if len(combos) == 1 and spelling == "tuple":
                            # single tuple spelling
                            given = combos[0]
                        try:
                            res = combo_runner(
                                fn, given,
                                constants={**constants, "logdir": LOGDIR},
                                split=split, flat=flat, verbosity=0, **o
                            )
                        finally:
                            if ex is not None:
                                close(ex)
                        label = (f"grid {gi} {sname} {rname} split={split} "
                                 f"flat={flat} {spelling}")
                        check(logged_calls() == expected_calls,
                              f"{label}: calls made differ from the grid")
                        nout = 3
                        if flat:
                            if split:
                                exp = tuple(
                                    tuple(expect(k)[i] for k in all_kws)
                                    for i in range(nout))
                                ok = (isinstance(res, tuple) and all(
                                    nested_same(r, e, 1)
                                    for r, e in zip(res, exp)) and
                                    len(res) == nout)
                            else:
                                exp = tuple(expect(k) for k in all_kws)
                                ok = nested_same(res, exp, 1)
                        elif split:
                            ok = isinstance(res, tuple) and len(res) == nout
                            for i in range(nout):
                                exp = nested_expect(
                                    combos, constants, expect, pick=i)
                                ok = ok and nested_same(
                                    res[i], exp, len(combos))
                        else:
                            exp = nested_expect(combos, constants, expect)
                            ok = nested_same(res, exp, len(combos))
                        check(ok, f"{label}: wrong result")


def run_call_order_and_random_state():
    # sequential calls are made in grid order, shuffled calls in the order
    # given by the seed, and the global random state is left as documented
    combos = (("a", [1, 2, 3]), ("b", ["x", "y"]), ("c", [0.5, 1.5]))
    seen = []

    def fn(a, b, c, k):
        seen.append((a, b, c, k))
        return len(seen)

    grid = [p + (9,) for p in itertools.product(*(v for _, v in combos))]
    for shuffle in (False, True, 1, 2, 12345):
        del seen[:]
        random.seed(99)
        before = random.getstate()
        res = combo_runner(fn, combos, constants={"k": 9}, shuffle=shuffle,
                           verbosity=0, flat=True)
        after = random.getstate()
        if shuffle:
            random.seed(int(shuffle))
            enum = list(enumerate(grid))
            random.shuffle(enum)
            want = [g for _, g in enum]
            want_res = [None] * len(grid)
            for n, (i, _) in enumerate(enum):
                want_res[i] = n + 1
        else:
            want = grid
            want_res = list(range(1, len(grid) + 1))
        check(seen == want, f"shuffle={shuffle}: order of the calls changed")
        check(list(res) == want_res and isinstance(res, tuple),
              f"shuffle={shuffle}: flat results not in grid order")
        if shuffle:
            # the state the sweep left behind: seeded, then one shuffle
            random.seed(int(shuffle))
            random.shuffle(list(enumerate(grid)))
            check(after == random.getstate(),
                  f"shuffle={shuffle}: random state left differently")
        else:
            check(after == before, "unshuffled sweep touched random state")


class FakeBar:
    events = []

    def __init__(self, *args, **kwargs):
        FakeBar.events.append(("open", kwargs.get("total"),
                               kwargs.get("disable")))

    def __enter__(self):
        return self

    def __exit__(self, *exc):
        FakeBar.events.append(("close",))
        return False

    def set_description(self, d):
        FakeBar.events.append(("desc", d))

    def update(self, *a):
        FakeBar.events.append(("update",))


def run_progress_events():
    combos = (("a", [1, 2]), ("b", ["u", "v"]))

    def fn(a, b, k):
        FakeBar.events.append(("call", a, b, k))
        return a

    grid = [dict(a=a, b=b, k=0) for a in [1, 2] for b in ["u", "v"]]
    real = cr.progbar
    cr.progbar = FakeBar
    try:
        for verbosity in (0, 1, 2):
            # sequential
            del FakeBar.events[:]
            combo_runner(fn, combos, constants={"k": 0}, verbosity=verbosity)
            want = [("open", 4, verbosity <= 0)]
            for kws in grid:
                if verbosity >= 2:
                    want.append(("desc", str(kws)))
                want.append(("call", kws["a"], kws["b"], 0))
                want.append(("update",))
            want.append(("close",))
            check(FakeBar.events == want,
                  f"sequential progress events changed (verbosity "
                  f"{verbosity}): {FakeBar.events}")

            # executor: everything submitted first, then collected in order
            del FakeBar.events[:]

            class Now:
                def submit(self, fn, *args, **kwds):
                    FakeBar.events.append(("submit", kwds["a"], kwds["b"]))
                    f = cf.Future()
                    f.set_result(fn(*args, **kwds))
                    return f

            combo_runner(fn, combos, constants={"k": 0}, verbosity=verbosity,
                         executor=Now())
            want = [("open", 4, verbosity <= 0)]
            if verbosity >= 2:
                want.append(("desc", "Submitting to executor..."))
            for kws in grid:
                want.append(("submit", kws["a"], kws["b"]))
                want.append(("call", kws["a"], kws["b"], 0))
            for kws in grid:
                if verbosity >= 2:
                    want.append(("desc", str(kws)))
                want.append(("update",))
            want.append(("close",))
            check(FakeBar.events == want,
                  f"executor progress events changed (verbosity "
                  f"{verbosity}): {FakeBar.events}")
    finally:
        cr.progbar = real


def run_worker_count():
    asked = []
    real = cr.get_reusable_executor

    def fake(num_workers=None, *a, **k):
        asked.append(num_workers)
        return cf.ThreadPoolExecutor(2)

    def fn(a):
        return a * 2

    cr.get_reusable_executor = fake
    try:
        table = [
            (dict(parallel=True), None),
            (dict(parallel=2), 2),
            (dict(parallel=3, num_workers=4), 4),
            (dict(parallel=True, num_workers=3), 3),
            (dict(num_workers=2), 2),
            (dict(parallel=False, num_workers=5), 5),
            (dict(parallel=1), 1),
        ]
        for opts, want in table:
            del asked[:]
            res = combo_runner(fn, ("a", [1, 2, 3]), verbosity=0, **opts)
            check(res == (2, 4, 6), f"{opts}: wrong result {res}")
            check(asked == [want],
                  f"{opts}: pool asked for {asked} workers, not {want}")
        del asked[:]
        combo_runner(fn, ("a", [1, 2, 3]), verbosity=0)
        combo_runner(fn, ("a", [1, 2, 3]), verbosity=0, parallel=0)
        check(asked == [], "a pool was made for a sequential run")
    finally:
        cr.get_reusable_executor = real


def run_cases_and_labels():
    def fn(a, b, c):
        return 100 * a + 10 * b + c, str(a) + str(b) + str(c)

    cases = [{"a": 2, "b": 3}, {"a": 1, "b": 4}, {"a": 2, "b": 4}]
    combos = (("c", [7, 5]),)
    for shuffle in (False, 4):
        info = {}
        res = combo_runner_core(
            fn, combos=combos, cases=cases, constants={}, split=True,
            shuffle=shuffle, verbosity=0, info=info)
        check(info == {"fn_args": ("a", "b", "c"),
                       "all_combo_values": ([1, 2], [3, 4], [7, 5])},
              f"labelling info changed: {info}")
        num, txt = res
        nan = float("nan")
        want_num = (((nan, nan), (147, 145)), ((237, 235), (247, 245)))
        flat_got = np.array(num, dtype=float).ravel()
        flat_want = np.array(want_num, dtype=float).ravel()
        check(np.array_equal(flat_got, flat_want, equal_nan=True),
              f"cases: numbers in the wrong slots {num}")
        check(txt == (((None, None), ("147", "145")),
                      (("237", "235"), ("247", "245"))),
              f"cases: text in the wrong slots {txt}")

        info = {}
        res = combo_runner_core(
            fn, combos=combos, cases=cases, constants={}, flat=True,
            shuffle=shuffle, verbosity=0, info=info)
        check(res == ((237, "237"), (235, "235"), (147, "147"),
                      (145, "145"), (247, "247"), (245, "245")),
              f"cases flat: {res}")
        check(info == {"settings": [
            dict(a=2, b=3, c=7), dict(a=2, b=3, c=5), dict(a=1, b=4, c=7),
            dict(a=1, b=4, c=5), dict(a=2, b=4, c=7), dict(a=2, b=4, c=5)]},
            f"cases flat settings changed: {info}")

    # unsortable case coordinates are kept as a plain list
    info = {}
    combo_runner_core(
        lambda a: a, combos=(), cases=[{"a": 1}, {"a": "x"}], constants={},
        verbosity=0, info=info)
    vals = info["all_combo_values"]
    check(len(vals) == 1 and isinstance(vals[0], list)
          and sorted(map(str, vals[0])) == ["1", "x"],
          f"unsortable case coords: {vals}")

    out = case_runner(lambda a, b: a - b, ("a", "b"), [(1, 2), (5, 3)],
                      verbosity=0, shuffle=2)
    check(out == (-1, 2), f"case_runner: {out}")

    # dataset / dataframe front ends
    def g(a, b, k):
        return a * b + k, a - b

    combos = (("a", [3, 1, 2]), ("b", [0.5, 2.0]))
    for opts in (dict(), dict(shuffle=5), dict(shuffle=True, num_workers=2),
                 dict(executor=OrderedSubmitPool(1), shuffle=2)):
        ds = combo_runner_to_ds(g, combos, var_names=["m", "d"],
                                constants={"k": 10}, verbosity=0, **opts)
        for a in [3, 1, 2]:
            for b in [0.5, 2.0]:
                check(float(ds["m"].sel(a=a, b=b)) == a * b + 10 and
                      float(ds["d"].sel(a=a, b=b)) == a - b,
                      f"to_ds {opts}: wrong value at a={a}, b={b}")
        check(list(ds["a"].values) == [3, 1, 2]
              and list(ds["b"].values) == [0.5, 2.0],
              "to_ds: coordinates not in the order given")
    for opts in (dict(), dict(shuffle=5)):
        df = combo_runner_to_df(g, combos, var_names=["m", "d"],
                                constants={"k": 10}, verbosity=0, **opts)
        rows = [tuple(r) for r in df[["a", "b", "m", "d"]].values.tolist()]
        want = [(a, b, a * b + 10, a - b) for a in [3, 1, 2]
                for b in [0.5, 2.0]]
        check(rows == want, f"to_df {opts}: {rows}")


def run_errors():
    def fn(a, b=0):
        if a == 2:
            raise RuntimeError("boom at a=2")
        return a

    for opts in (dict(), dict(shuffle=3),
                 dict(executor=OrderedSubmitPool(0)),
                 dict(executor=OrderedApplyPool(2))):
        try:
            combo_runner(fn, ("a", [1, 2, 3]), verbosity=0, **opts)
        except RuntimeError as e:
            check(str(e) == "boom at a=2", "wrong error")
        else:
            check(False, f"{opts}: error from the function was swallowed")

    try:
        combo_runner(fn, ("a", [1, 3]), verbosity=0, executor=object())
    except TypeError as e:
        check("does not have a ``submit``" in str(e), f"message: {e}")
    else:
        check(False, "bad executor accepted")

    class NoResult:
        def submit(self, fn, *a, **k):
            return object()

    try:
        combo_runner(fn, ("a", [1, 3]), verbosity=0, executor=NoResult())
    except TypeError as e:
        check("`result` or `get`" in str(e), f"message: {e}")
    else:
        check(False, "bad future accepted")

    try:
        combo_runner_core(fn, combos=(("a", [1]),), cases=[{"a": 3}],
                          constants={}, verbosity=0)
    except ValueError as e:
        check("both ``cases`` and ``combos``" in str(e), f"message: {e}")
    else:
        check(False, "overlapping cases and combos accepted")

    # an empty value list: nothing to run; with shuffle the unzip fails
    check(combo_runner(fn, ("a", []), verbosity=0) == (), "empty grid")
    try:
        combo_runner(fn, ("a", []), verbosity=0, shuffle=True)
    except ValueError:
        pass
    else:
        check(False, "empty shuffled grid no longer raises ValueError")

    # a constant named like a swept argument wins (corner case kept)
    got = combo_runner(lambda a, b: (a, b), ("a", [1, 2]),
                       constants={"a": 7, "b": 0}, verbosity=0)
    check(got == ((7, 0), (7, 0)), f"constant/argument clash: {got}")

    # every call gets its own dict
    info = {}
    combo_runner_core(lambda a, k: a, combos=(("a", [1, 2, 3]),),
                      constants={"k": 1}, flat=True, verbosity=0, info=info)
    s = info["settings"]
    check(len({id(x) for x in s}) == 3 and s == [
        dict(a=1, k=1), dict(a=2, k=1), dict(a=3, k=1)], "settings dicts")


def main():
    global LOGDIR
    here = os.path.dirname(os.path.abspath(xyzpy.__file__))
    check(here.startswith(os.getcwd()), f"xyzpy imported from {here}")
    LOGDIR = tempfile.mkdtemp(prefix="c01_t8_")
    try:
        run_sweeps()
        run_call_order_and_random_state()
        run_progress_events()
        run_worker_count()
        run_cases_and_labels()
        run_errors()
    finally:
        shutil.rmtree(LOGDIR, ignore_errors=True)
    print(f"PASS ({CHECKS} checks)")


if __name__ == "__main__":
    main()
