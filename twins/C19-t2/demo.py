"""C19 demo 2: RunningStatistics / RunningCovariance single-sample updates.

After feeding any sequence (one at a time, in chunks, permuted) the running
count / mean / var / std / err / rel_err / covar / sample_covar must equal the
whole-sample quantities to floating point accuracy relative to the data scale.

Run as:  cd <worktree> && /venv/bin/python /path/to/demo.py
"""
import os
import sys

sys.path.insert(0, os.getcwd())

import math

import numpy as np
import xyzpy as xyz

assert os.path.dirname(os.path.abspath(xyz.__file__)) == os.path.join(
    os.getcwd(), "xyzpy"
), xyz.__file__

EPS = np.finfo(float).eps
NCHECK = 0


def check(cond, msg):
    global NCHECK
    NCHECK += 1
    if not cond:
        print("FAIL:", msg)
        sys.exit(1)


# ---- verbatim reference recurrences, used as a bit-for-bit oracle ---------


def ref_welford(xs):
    count, mean, M2 = 0, 0.0, 0.0
    for x in xs:
        count += 1
        delta = x - mean
        mean += delta / count
        delta2 = x - mean
        M2 += delta * delta2
    return count, mean, M2


def ref_covar(xs, ys):
    count, xmean, ymean, C = 0, 0.0, 0.0, 0.0
    for x, y in zip(xs, ys):
        count += 1
        dx = x - xmean
        dy = y - ymean
        xmean += dx / count
        ymean += dy / count
        C += dx * (y - ymean)
    return count, xmean, ymean, C


def chunkings(n, rng):
    yield [n]
    yield [1] * n
    if n > 3:
        cuts = sorted(set(rng.integers(1, n, size=4).tolist()))
        edges = [0] + cuts + [n]
        yield [b - a for a, b in zip(edges, edges[1:])]


def feed_stats(xs, chunks, mode):
    rs = xyz.RunningStatistics()
    pos = 0
    for c in chunks:
        part = xs[pos : pos + c]
        pos += c
        if mode == "list":
            rs.update_from_it(part)
        elif mode == "gen":
            rs.update_from_it(x for x in part)
        elif mode == "array":
            rs.update_from_it(np.asarray(part, dtype=float))
        else:
            for x in part:
                check(rs.update(x) is None, "update returns None")
    return rs


def feed_cov(xs, ys, chunks, mode):
    rc = xyz.RunningCovariance()
    pos = 0
    for c in chunks:
        px, py = xs[pos : pos + c], ys[pos : pos + c]
        pos += c
        if mode == "list":
            rc.update_from_it(px, py)
        elif mode == "gen":
            rc.update_from_it(iter(px), (y for y in py))
        else:
            for x, y in zip(px, py):
                check(rc.update(x, y) is None, "update returns None")
    return rc


def check_stats_against_numpy(rs, xs):
    a = np.asarray(xs, dtype=float)
    n = a.size
    scale = np.abs(a).max()
    std = a.std()
    u = EPS * scale
    check(rs.count == n and type(rs.count) is int, "count")
    check(abs(rs.mean - a.mean()) <= 64 * u, f"mean {rs.mean} {a.mean()}")
    check(
        abs(rs.var - a.var()) <= 64 * u * max(std, u),
        f"var {rs.var} {a.var()} n={n} scale={scale}",
    )
    check(abs(rs.std - std) <= 64 * u, f"std {rs.std} {std}")
    check(abs(rs.err - std / n**0.5) <= 64 * u, f"err {rs.err}")
    # internal consistency of the derived quantities (exact)
    check(rs.var == rs.M2 / rs.count, "var def")
    check(rs.std == rs.var**0.5, "std def")
    check(rs.err == rs.std / rs.count**0.5, "err def")
    if rs.mean != 0:
        check(rs.rel_err == rs.err / abs(rs.mean), "rel_err def")
    check(rs.M2 >= 0.0, "M2 non-negative")


def check_cov_against_numpy(rc, xs, ys):
    a, b = np.asarray(xs, dtype=float), np.asarray(ys, dtype=float)
    n = a.size
    sa, sb = np.abs(a).max(), np.abs(b).max()
    da, db = a - a.mean(), b - b.mean()
    ua, ub = EPS * sa, EPS * sb
    unit = ua * max(b.std(), ub) + ub * max(a.std(), ua)
    want = (da * db).mean()
    check(rc.count == n, "cov count")
    check(abs(rc.xmean - a.mean()) <= 64 * ua, "xmean")
    check(abs(rc.ymean - b.mean()) <= 64 * ub, "ymean")
    check(abs(rc.covar - want) <= 64 * unit, f"covar {rc.covar} {want}")
    check(rc.covar == rc.C / rc.count, "covar def")
    if n > 1:
        want_s = (da * db).sum() / (n - 1)
        check(
            abs(rc.sample_covar - want_s) <= 64 * unit * n / (n - 1),
            f"sample_covar {rc.sample_covar} {want_s}",
        )
        check(rc.sample_covar == rc.C / (rc.count - 1), "sample_covar def")


def main():
    rng = np.random.default_rng(1919)

    # ---- fresh objects ----------------------------------------------------
    rs = xyz.RunningStatistics()
    check((rs.count, rs.mean, rs.M2) == (0, 0.0, 0.0), "fresh stats")
    check(
        rs.var == rs.std == rs.err == rs.rel_err == np.inf, "empty -> inf"
    )
    check(rs.converged(0.5, 1e300) is False, "empty never converged")
    check(repr(rs) == "RunningStatistics(mean=None, count=0)", "empty repr")
    rc = xyz.RunningCovariance()
    check((rc.count, rc.xmean, rc.ymean, rc.C) == (0, 0.0, 0.0, 0.0), "fresh cov")

    # ---- docstring example ------------------------------------------------
    rs = xyz.RunningStatistics()
    rs.update(1.1)
    rs.update(1.4)
    rs.update(1.2)
    rs.update_from_it([1.5, 1.3, 1.6])
    vals = [1.1, 1.4, 1.2, 1.5, 1.3, 1.6]
    check(rs.count == 6, "doc count")
    check(math.isclose(rs.mean, 1.35, rel_tol=1e-14), "doc mean")
    check(math.isclose(rs.std, np.std(vals), rel_tol=1e-13), "doc std")
    check(math.isclose(rs.err, np.std(vals) / 6**0.5, rel_tol=1e-13), "doc err")
    check(repr(rs) == "RunningStatistics(mean=1.350(70), count=6)", repr(rs))

    # ---- one sample, constant samples -------------------------------------
    for v in (0.0, -2.5, 1e9 + 0.125, 7):
        rs = xyz.RunningStatistics()
        rs.update(v)
        check((rs.count, rs.mean, rs.M2) == (1, v, 0.0), "single")
        check(rs.var == 0.0 and rs.std == 0.0 and rs.err == 0.0, "single var")
        rs.update_from_it([v] * 9)
        check((rs.count, rs.mean, rs.M2) == (10, v, 0.0), "constant")
        rc = xyz.RunningCovariance()
        rc.update(v, -v)
        check((rc.count, rc.xmean, rc.ymean, rc.C) == (1, v, -v, 0.0), "single cov")
        check(rc.covar == 0.0, "single covar")

    # ---- the main sweep -----------------------------------------------------
    for n in (1, 2, 3, 10, 101, 500):
        for offset, spread in [
            (0.0, 1.0),
            (1e9, 1e-3),
            (-1e9, 1e-3),
            (1e9, 1e3),
            (1e5, 1.0),
            (-7.0, 1e-3),
            (0.0, 1e-3),
        ]:
            z = rng.standard_normal(n)
            w = 0.6 * z + 0.8 * rng.standard_normal(n)
            xs = (offset + spread * z).tolist()
            ys = (-0.5 * offset + 3 * spread * w).tolist()
            ref = ref_welford(xs)
            refc = ref_covar(xs, ys)
            for chunks in chunkings(n, rng):
                for mode in ("list", "gen", "array", "single"):
                    rs = feed_stats(xs, chunks, mode)
                    check_stats_against_numpy(rs, xs)
                    check(
                        (rs.count, float(rs.mean), float(rs.M2)) == ref,
                        "stats differ from reference recurrence / chunking",
                    )
                for mode in ("list", "gen", "single"):
                    rc = feed_cov(xs, ys, chunks, mode)
                    check_cov_against_numpy(rc, xs, ys)
                    check(
                        (rc.count, rc.xmean, rc.ymean, rc.C) == refc,
                        "covar differs from reference recurrence / chunking",
                    )
            # covariance of a series with itself is its variance
            rc = xyz.RunningCovariance()
            rc.update_from_it(xs, xs)
            check(rc.C == ref[2] and rc.xmean == rc.ymean == ref[1], "C(x,x)=M2")
            # any order
            for _ in range(3):
                perm = rng.permutation(n)
                pxs = [xs[p] for p in perm]
                pys = [ys[p] for p in perm]
                rs = xyz.RunningStatistics()
                rs.update_from_it(pxs)
                check_stats_against_numpy(rs, xs)
                rc = xyz.RunningCovariance()
                rc.update_from_it(pxs, pys)
                check_cov_against_numpy(rc, xs, ys)
            rs = xyz.RunningStatistics()
            rs.update_from_it(sorted(xs))
            check_stats_against_numpy(rs, xs)
            rs = xyz.RunningStatistics()
            rs.update_from_it(sorted(xs, reverse=True))
            check_stats_against_numpy(rs, xs)

    # ---- ints, numpy scalars, and array valued samples ---------------------
    rs = xyz.RunningStatistics()
    rs.update_from_it([1, 2, 3, 4])
    check((rs.count, rs.mean, rs.M2) == (4, 2.5, 5.0), "ints")
    check(type(rs.mean) is float, "float mean from ints")
    rs = xyz.RunningStatistics()
    rs.update_from_it(np.float32([1, 2, 3, 4]))
    check((rs.count, rs.mean, rs.M2) == (4, 2.5, 5.0), "float32")
    rs = xyz.RunningStatistics()
    data = rng.standard_normal((20, 3)) + [0.0, 1e3, -1e6]
    for row in data:
        rs.update(row.copy())
    check(rs.count == 20, "vector count")
    check(np.allclose(rs.mean, data.mean(axis=0), rtol=1e-13), "vector mean")
    check(np.allclose(rs.var, data.var(axis=0), rtol=1e-8), "vector var")
    for col in range(3):
        check(
            (20, rs.mean[col], rs.M2[col]) == ref_welford(data[:, col].tolist()),
            "vector vs reference",
        )
    check(np.array_equal(data[-1], data[-1]) and rs.mean is not data[-1], "no alias")

    # uneven lengths: zip truncation
    rc = xyz.RunningCovariance()
    rc.update_from_it([1.0, 2.0, 3.0], [4.0, 6.0])
    check(rc.count == 2 and rc.xmean == 1.5 and rc.ymean == 5.0, "zip trunc")

    # failed update leaves the same state as before (count already bumped)
    rs = xyz.RunningStatistics()
    rs.update(1.0)
    try:
        rs.update("a")
    except TypeError:
        pass
    else:
        check(False, "TypeError expected")
    check((rs.count, rs.mean, rs.M2) == (2, 1.0, 0.0), "state after failure")
    rc = xyz.RunningCovariance()
    try:
        rc.update(1.0, "a")
    except TypeError:
        pass
    else:
        check(False, "TypeError expected")
    check((rc.count, rc.xmean, rc.ymean, rc.C) == (1, 0.0, 0.0, 0.0), "cov fail")

    # ---- converged ----------------------------------------------------------
    rs = xyz.RunningStatistics()
    rs.update_from_it([9.0, 11.0, 10.0, 10.5, 9.5])
    e, m = rs.err, abs(rs.mean)
    check(rs.converged(0.0, e) is False, "strict <")
    check(rs.converged(0.0, e * (1 + 1e-12)) is True, "atol")
    check(rs.converged(e / m * (1 + 1e-12), 0.0) is True, "rtol")
    check(rs.converged(e / m * 0.5, 0.0) is False, "rtol small")

    # the RunningCovarianceMatrix built on top of RunningCovariance
    xs = (1e9 + 1e-3 * rng.standard_normal(300)).tolist()
    ys = (5.0 + rng.standard_normal(300)).tolist()
    rcm = xyz.RunningCovarianceMatrix()
    rcm.update_from_it(xs[:100], ys[:100])
    for x, y in zip(xs[100:], ys[100:]):
        rcm.update(x, y)
    check(rcm.count == 300, "rcm count")
    check(rcm.covar_matrix[0, 1] == ref_covar(xs, ys)[3] / 300, "rcm covar")
    check(rcm.covar_matrix[0, 0] == ref_welford(xs)[2] / 300, "rcm var")

    print(f"{NCHECK} checks")
    print("PASS")


if __name__ == "__main__":
    main()
