"""Demo for C02 twin t7: how the spelled cases are named (``parse_cases``),
how the covering grid of the cases reaches the dataset builder
(``combo_runner_to_ds``) and how the dataset is assembled (``results_to_ds``).

Run as ``cd <worktree> && /venv/bin/python /path/to/demo.py``.
"""
import os
import sys

sys.path.insert(0, os.getcwd())

import math
import shutil
import tempfile
import warnings

warnings.filterwarnings("ignore")

import numpy as np
import xarray as xr

import xyzpy
from xyzpy.gen.prepare import parse_cases, parse_combos
from xyzpy.gen.combo_runner import (
    combo_runner_core,
    combo_runner_to_ds,
    combo_runner_to_df,
    results_to_ds,
)
from xyzpy.gen.case_runner import (
    case_runner,
    case_runner_to_ds,
    case_runner_to_df,
)

assert os.path.abspath(xyzpy.__file__).startswith(os.getcwd()), xyzpy.__file__


def isnan(x):
    return isinstance(x, float) and math.isnan(x)


def missing(v):
    # (xarray may turn the None of a str array into nan on construction)
    return v is None or isnan(v)


def raises(exc, fn, *args, **kwargs):
    try:
        fn(*args, **kwargs)
    except exc as e:
        return e
    raise AssertionError(f"{exc.__name__} not raised")


class Recorder:
    def __init__(self, fn):
        self.fn = fn
        self.calls = []

    def __call__(self, **kws):
        self.calls.append(dict(kws))
        return self.fn(**kws)


# --------------------------------------------------------------------------- #
# 1. every spelling of the cases ends up as the same tuple of dicts


def check_parse_cases():
    assert parse_cases(None) == ()
    assert parse_cases(()) == ()
    assert parse_cases([]) == ()
    assert parse_cases({}) == ()
    assert parse_cases(None, ("a",)) == ()

    d = {"a": 1, "b": 2}
    out = parse_cases(d)
    assert out == (d,) and out[0] is d

    dicts = [{"b": 2, "a": 1}, {"a": 3, "b": 4}]
    out = parse_cases(dicts)
    assert type(out) is tuple and out == tuple(dicts)
    assert all(x is y for x, y in zip(out, dicts))  # passed through unaltered
    assert list(out[0]) == ["b", "a"]
    # ... fn_args are ignored when the cases name their own arguments
    out = parse_cases(iter(dicts), ("x", "y"))
    assert out == tuple(dicts)

    # tuple spelling
    out = parse_cases([(1, 2), (3, 4)], ("a", "b"))
    assert out == ({"a": 1, "b": 2}, {"a": 3, "b": 4})
    assert all(type(c) is dict and list(c) == ["a", "b"] for c in out)
    out = parse_cases(((1, 2), [3, 4]), ["b", "a"])
    assert out == ({"b": 1, "a": 2}, {"b": 3, "a": 4})
    assert list(out[1]) == ["b", "a"]
    out = parse_cases((c for c in [(1, 2), (3, 4)]), ("a", "b"))
    assert out == ({"a": 1, "b": 2}, {"a": 3, "b": 4})
    # zip truncation, both ways round
    assert parse_cases([(1, 2, 3)], ("a", "b")) == ({"a": 1, "b": 2},)
    assert parse_cases([(1,), (2, 3)], ("a", "b")) == ({"a": 1}, {"a": 2, "b": 3})
    # numpy rows are iterable
    out = parse_cases(np.array([[1, 2], [3, 4]]).tolist(), ("a", "b"))
    assert out == ({"a": 1, "b": 2}, {"a": 3, "b": 4})

    # bare values for a single argument; the first case decides
    assert parse_cases([1, 10, 100], ("a",)) == ({"a": 1}, {"a": 10}, {"a": 100})
    assert parse_cases(["xy", "z"], ("a",)) == ({"a": "xy"}, {"a": "z"})
    assert parse_cases([1, (2, 3)], ("a", "b")) == ({"a": 1}, {"a": (2, 3)})
    assert parse_cases(["s", (2, 3)], ("a",)) == ({"a": "s"}, {"a": (2, 3)})
    assert parse_cases([None, 2], ("a",)) == ({"a": None}, {"a": 2})
    # a str of fn_args is zipped character-wise
    assert parse_cases([(1, 2)], "ab") == ({"a": 1, "b": 2},)
    # first is a tuple but a later one is bare -> not iterable
    raises(TypeError, parse_cases, [(1, 2), 3], ("a", "b"))

    e = raises(TypeError, parse_cases, [(1, 2)])
    assert "`fn_args` must be provided" in str(e)
    e = raises(TypeError, parse_cases, [5, 6])
    assert "`fn_args` must be provided" in str(e)
    # mixed: first a tuple, later a dict -> dict keys are zipped as values
    assert parse_cases([(1, 2), {"p": 0, "q": 0}], ("a", "b")) == \
        ({"a": 1, "b": 2}, {"a": "p", "b": "q"})


# --------------------------------------------------------------------------- #
# 2. the covering grid reaches the dataset


def fn3(a, b, c=0):
    return a + 10 * b + 100 * c


def check_covering_grid():
    cases = [{"a": 3, "b": 4}, {"a": 1, "b": 6}, {"a": 1, "b": 4}]

    for shuffle in (False, True, 5):
        # cases only
        rec = Recorder(fn3)
        ds = combo_runner_to_ds(rec, None, "x", cases=cases, verbosity=0,
                                shuffle=shuffle)
        assert ds["x"].dims == ("a", "b")
        assert ds["a"].values.tolist() == [1, 3]
        assert ds["b"].values.tolist() == [4, 6]
        assert len(rec.calls) == 3
        assert sorted((k["a"], k["b"]) for k in rec.calls) == \
            [(1, 4), (1, 6), (3, 4)]
        assert np.isnan(ds["x"].sel(a=3, b=6).item())
        assert ds["x"].sel(a=1, b=6).item() == 61
        assert int(ds["x"].notnull().sum()) == 3

        # crossed with a sub grid, the grid keeps its given order
        for combos in ({"c": [9, 7]}, [("c", [9, 7])], ("c", [9, 7])):
            rec = Recorder(fn3)
            ds = combo_runner_to_ds(rec, combos, "x", cases=cases,
                                    verbosity=0, shuffle=shuffle)
            assert ds["x"].dims == ("a", "b", "c")
            assert ds["c"].values.tolist() == [9, 7]
            assert len(rec.calls) == 6
            assert int(ds["x"].notnull().sum()) == 6
            assert ds["x"].sel(a=3, b=4, c=7).item() == 743
            assert np.isnan(ds["x"].sel(a=3, b=6)).all()

    # no cases: the combos are handed on as they are
    rec = Recorder(fn3)
    ds = combo_runner_to_ds(rec, {"b": [2, 1], "a": [5]}, "x", verbosity=0)
    assert ds["x"].dims == ("b", "a") and ds["b"].values.tolist() == [2, 1]
    assert len(rec.calls) == 2 and int(ds["x"].notnull().sum()) == 2
    # empty cases are 'no cases'
    for empty in ((), [], None):
        ds = combo_runner_to_ds(fn3, {"b": [2, 1], "a": [5]}, "x",
                                cases=empty, verbosity=0)
        assert ds["x"].dims == ("b", "a") and ds["x"].dtype.kind == "i"
    # neither: a zero-dimensional result
    ds = combo_runner_to_ds(lambda: 7, None, "x", verbosity=0)
    assert ds["x"].dims == () and ds["x"].item() == 7

    # parse=False with everything already in standard form
    rec = Recorder(fn3)
    ds = combo_runner_to_ds(
        rec, parse_combos({"c": [1, 2]}), ("x",), var_dims={"x": ()},
        var_coords={}, cases=parse_cases(cases), constants={}, resources={},
        parse=False, verbosity=0)
    assert ds["x"].dims == ("a", "b", "c") and len(rec.calls) == 6

    # the dataframe route: one row per requested setting, nothing else
    for runner in (
        lambda f: combo_runner_to_df(f, {"c": [9, 7]}, "x", cases=cases,
                                     verbosity=0),
        lambda f: combo_runner_to_ds(f, {"c": [9, 7]}, "x", cases=cases,
                                     verbosity=0, to_df=True),
        lambda f: case_runner_to_df(f, ("a", "b"), [(3, 4), (1, 6), (1, 4)],
                                    "x", combos={"c": [9, 7]}, verbosity=0),
    ):
        rec = Recorder(fn3)
        df = runner(rec)
        assert list(df.columns) == ["a", "b", "c", "x"]
        assert df[["a", "b", "c"]].values.tolist() == [
            [3, 4, 9], [3, 4, 7], [1, 6, 9], [1, 6, 7], [1, 4, 9], [1, 4, 7]]
        assert df["x"].tolist() == [fn3(*r) for r in
                                    df[["a", "b", "c"]].values.tolist()]
        assert len(rec.calls) == 6
    e = raises(ValueError, combo_runner_to_df, fn3, None, None, cases=cases)
    assert "Can't coerce" in str(e)
    e = raises(ValueError, combo_runner_to_df, fn3, None, "x", cases=cases,
               var_dims={"x": ["t"]})
    assert "internal dimensions" in str(e)
    e = raises(ValueError, combo_runner_to_df, fn3, None, "x", cases=cases,
               var_coords={"t": [1]})
    assert "internal dimensions" in str(e)

    # an argument in both is rejected before anything runs
    rec = Recorder(fn3)
    for call in (
        lambda: combo_runner_to_ds(rec, {"a": [1]}, "x", cases=cases,
                                   verbosity=0),
        lambda: combo_runner_to_df(rec, {"b": [1], "c": [2]}, "x",
                                   cases=cases, verbosity=0),
        lambda: case_runner_to_ds(rec, ("a", "b"), [(1, 2)], "x",
                                  combos={"b": [1]}, verbosity=0),
        lambda: case_runner(rec, ("a", "b"), [(1, 2)], combos={"a": [1]},
                            verbosity=0),
    ):
        e = raises(ValueError, call)
        assert "both ``cases`` and ``combos``" in str(e)
    assert rec.calls == []


# --------------------------------------------------------------------------- #
# 3. assembling the dataset


def check_results_to_ds():
    combos = (("a", [1, 2]), ("b", [10, 20, 30]))
    nan = float("nan")

    # one output
    res = ((1, nan, 3), (nan, 5, nan))
    ds = results_to_ds(res, combos, var_names=("x",), var_dims={"x": ()},
                       var_coords={})
    assert ds["x"].dims == ("a", "b") and ds["x"].shape == (2, 3)
    assert ds["x"].sel(a=2, b=20).item() == 5
    assert np.isnan(ds["x"].sel(a=1, b=20).item())
    assert ds.attrs == {}

    # several outputs, inner dimension, coords, attrs and constants
    blank = np.broadcast_to(np.nan, (2,))
    res = (
        ((True, None, False), (None, True, None)),
        (([1, 2], blank, [3, 4]), (blank, [5, 6], blank)),
        (("p", None, "q"), (None, "r", None)),
    )
    ds = results_to_ds(
        res, combos, var_names=("f", "v", "s"),
        var_dims={"f": (), "v": ("t",), "s": ()},
        var_coords={"t": [0.1, 0.2]},
        constants={"t": [0.1, 0.2], "k": 3}, attrs={"note": "hi"})
    assert list(ds.data_vars) == ["f", "v", "s"]
    assert ds["v"].dims == ("a", "b", "t")
    assert ds["t"].values.tolist() == [0.1, 0.2]
    assert ds["f"].dtype == object and ds["f"].sel(a=1, b=20).item() is None
    assert ds["f"].sel(a=2, b=20).item() is True
    assert np.isnan(ds["v"].sel(a=1, b=20).values).all()
    assert ds["v"].sel(a=2, b=20).values.tolist() == [5, 6]
    assert missing(ds["s"].sel(a=1, b=20).item())
    assert ds["s"].sel(a=1, b=30).item() == "q"
    assert ds.attrs == {"note": "hi", "k": 3}
    assert list(ds.coords) == ["a", "b", "t"]

    e = raises(ValueError, results_to_ds, res, combos, var_names=("f", "v"),
               var_dims={"f": (), "v": ("t",)}, var_coords={})
    assert "Wrong number of results (3)" in str(e)

    # labelled results: dict, Dataset and DataArray
    def cell(a, b, as_dict):
        d = {"x": ("t", [a, b]), "y": ((), a * b)}
        return d if as_dict else xr.Dataset(d)

    for as_dict in (True, False):
        res = tuple(tuple(cell(a, b, as_dict) for b in combos[1][1])
                    for a in combos[0][1])
        ds = results_to_ds(res, combos, var_names=(None,), var_dims={},
                           var_coords={}, constants={"k": 1}, attrs={"z": 0})
        assert set(ds["x"].dims) == {"a", "b", "t"}
        assert ds["a"].values.tolist() == [1, 2]
        assert ds["b"].values.tolist() == [10, 20, 30]
        assert ds["y"].sel(a=2, b=30).item() == 60
        assert ds["x"].sel(a=2, b=30).values.tolist() == [2, 30]
        assert ds.attrs == {"z": 0, "k": 1}

    res = tuple(tuple(xr.DataArray([a, b], dims=["t"], name="x")
                      for b in combos[1][1]) for a in combos[0][1])
    da = results_to_ds(res, combos, var_names=(None,), var_dims={},
                       var_coords={})
    assert da.sel(a=1, b=20).values.tolist() == [1, 20]

    # through the runner with the stand-in Dataset for the missing slots
    cases = [{"a": 2, "b": 10}, {"a": 1, "b": 30}]
    for as_dict in (True, False):
        rec = Recorder(lambda a, b, c: cell(a, b + c, as_dict))
        ds = combo_runner_to_ds(rec, {"c": [0, 1]}, None, cases=cases,
                                verbosity=0)
        assert len(rec.calls) == 4
        assert ds["a"].values.tolist() == [1, 2]
        assert ds["b"].values.tolist() == [10, 30]
        assert ds["y"].sel(a=2, b=10, c=1).item() == 22
        assert np.isnan(ds["y"].sel(a=2, b=30, c=1).item())
        assert np.isnan(ds["x"].sel(a=1, b=10, c=0).values).all()
        assert int(ds["y"].notnull().sum()) == 4


# --------------------------------------------------------------------------- #
# 4. runner / harvester / crop entry points with both spellings


def multi(a, b, c=0):
    return a + b + c, f"{a}|{b}|{c}", a > b, [a, b, c]


def check_entry_points(tmp):
    names = ["s", "t", "g", "v"]
    r = xyzpy.Runner(multi, var_names=names, fn_args=("a", "b", "c"),
                     var_dims={"v": "k"}, var_coords={"k": [0, 1, 2]})

    spellings = [
        [(1, 5, 0), (2, 4, 1)],
        [{"a": 1, "b": 5, "c": 0}, {"c": 1, "b": 4, "a": 2}],
        ((1, 5, 0), (2, 4, 1)),
    ]
    seen = []
    for cases in spellings:
        ds = r.run_cases(cases, verbosity=0)
        assert ds["s"].dims == ("a", "b", "c")
        assert ds["s"].sel(a=1, b=5, c=0).item() == 6
        assert ds["s"].sel(a=2, b=4, c=1).item() == 7
        assert int(ds["s"].notnull().sum()) == 2
        assert ds["g"].sel(a=2, b=4, c=1).item() is False
        assert ds["g"].sel(a=1, b=4, c=1).item() is None
        assert missing(ds["t"].sel(a=1, b=4, c=1).item())
        assert ds["t"].sel(a=1, b=5, c=0).item() == "1|5|0"
        assert ds["v"].sel(a=2, b=4, c=1).values.tolist() == [2, 4, 1]
        assert np.isnan(ds["v"].sel(a=2, b=5, c=1).values).all()
        seen.append(ds)
    assert seen[0].identical(seen[1]) and seen[0].identical(seen[2])

    # two-argument cases from the runner's leading fn_args, c from constants
    ds = r.run_cases([(1, 5), (2, 4)], constants={"c": 3}, verbosity=0)
    assert ds["s"].dims == ("a", "b") and ds.attrs["c"] == 3
    assert ds["s"].sel(a=2, b=4).item() == 9
    assert np.isnan(ds["s"].sel(a=2, b=5).item())

    # harvester: merged into the file, untouched slots stay missing
    fname = os.path.join(tmp, "h.h5")
    rec = Recorder(fn3)
    r_num = xyzpy.Runner(rec, var_names="x", fn_args=("a", "b", "c"))
    h = xyzpy.Harvester(r_num, fname)
    h.harvest_cases([(1, 5, 0), (2, 4, 1)], verbosity=0)
    h.harvest_cases([{"a": 2, "b": 5, "c": 0}], verbosity=0)
    assert len(rec.calls) == 3
    full = xyzpy.load_ds(fname)
    assert int(full["x"].notnull().sum()) == 3
    assert full["x"].sel(a=2, b=5, c=0).item() == 52
    assert full["x"].sel(a=2, b=4, c=1).item() == 142
    assert np.isnan(full["x"].sel(a=1, b=4, c=1).item())
    full.close()

    # crop: tuple spelling crossed with a sub-grid
    crop = r.Crop(name="t7", parent_dir=tmp, batchsize=3)
    crop.sow_cases(("a", "b"), [(1, 5), (2, 4)], combos=(("c", [0, 1, 2]),),
                   verbosity=0)
    assert crop.num_batches == 2
    info = crop.load_info()
    assert info["cases"] == ({"a": 1, "b": 5}, {"a": 2, "b": 4})
    crop.grow_missing(verbosity=0)
    ds = crop.reap()
    assert not os.path.exists(crop.location)
    assert ds["s"].dims == ("a", "b", "c")
    assert int(ds["s"].notnull().sum()) == 6
    assert ds["s"].sel(a=2, b=4, c=2).item() == 8
    assert ds["g"].sel(a=2, b=5, c=2).item() is None
    assert np.isnan(ds["v"].sel(a=1, b=4, c=0).values).all()

    # crop: bare values for one argument, partial reap
    crop = xyzpy.Crop(fn=fn3, name="t7b", parent_dir=tmp, batchsize=1)
    crop.sow_cases("a", [4, 2, 3], constants={"b": 1}, verbosity=0)
    assert crop.load_info()["cases"] == ({"a": 4}, {"a": 2}, {"a": 3})
    crop.grow(1, verbosity=0)
    crop.grow(3, verbosity=0)
    ds = crop.reap_combos_to_ds("x", allow_incomplete=True)
    assert ds["a"].values.tolist() == [2, 3, 4]
    assert np.isnan(ds["x"].sel(a=2).item())
    assert ds["x"].sel(a=4).item() == 14 and ds["x"].sel(a=3).item() == 13
    crop.delete_all()


def main():
    check_parse_cases()
    check_covering_grid()
    check_results_to_ds()
    tmp = tempfile.mkdtemp(prefix="c02_t7_")
    try:
        check_entry_points(tmp)
    finally:
        shutil.rmtree(tmp, ignore_errors=True)
    print("PASS")


if __name__ == "__main__":
    main()
