#!/usr/bin/env python
"""Demo for refactoring t2 (``xyzpy.gen.cropping.Reaper``).

Property C10: killing a worker at any instant while sowing / growing /
reaping never corrupts what is later reaped.

Part 1 exercises every path of the ``Reaper`` directly and through
``Crop.reap``: complete crops, missing batches with and without
``allow_incomplete`` (also with un-even batch sizes and ``None`` as stand-in
result), ``wait=True`` with results that arrive later, truncated / empty /
over-long / too-short result files, a directory instead of a result file.

Part 2 forks a child for every file-system operation boundary while growing
and reaping, lets the child die there with ``os._exit`` (like SIGKILL) and
checks in the parent that a naive ``reap`` refuses or is exact, that
``reap(allow_incomplete=True)`` returns for every batch either the exact
results or the all-nan stand-in, and that the documented recovery gives
exactly the results of an uninterrupted run (also if the recovery itself is
killed once).

Run as:  cd <worktree> && /venv/bin/python /path/to/demo.py
"""
import os
import sys

sys.path.insert(0, os.getcwd())

import builtins  # noqa: E402
import contextlib  # noqa: E402
import io  # noqa: E402
import glob  # noqa: E402
import pickle  # noqa: E402
import shutil  # noqa: E402
import tempfile  # noqa: E402
import time  # noqa: E402
import traceback  # noqa: E402
import warnings  # noqa: E402

warnings.filterwarnings("ignore")

import numpy as np  # noqa: E402
import tqdm  # noqa: E402


class _QuietTqdm(tqdm.tqdm):
    """No progress bars on stderr please."""

    def __init__(self, *args, **kwargs):
        kwargs["disable"] = True
        super().__init__(*args, **kwargs)


tqdm.tqdm = _QuietTqdm

import xyzpy  # noqa: E402
from xyzpy.gen import cropping, farming  # noqa: E402
from xyzpy.gen.cropping import Crop, grow  # noqa: E402

assert os.path.abspath(xyzpy.__file__).startswith(
    os.path.abspath(os.getcwd()) + os.sep
), xyzpy.__file__

KILL = 77
N_CHECKS = 0
N_KILLS = 0


# --------------------------------------------------------------------------- #
#                           crash injection machinery                         #
# --------------------------------------------------------------------------- #


class Inject:
    """Counts the file-system operation boundaries that are passed, the
    process dies at boundary number ``target``."""

    def __init__(self, root, target, rev=False):
        self.root = os.path.realpath(root)
        self.target = target
        self.rev = rev
        self.n = 0

    def hit(self):
        self.n += 1
        return self.n == self.target

    def point(self):
        if self.hit():
            os._exit(KILL)

    def mine(self, path):
        if not isinstance(path, (str, bytes, os.PathLike)):
            return False
        p = os.path.realpath(os.fsdecode(os.fspath(path)))
        return p == self.root or p.startswith(self.root + os.sep)


class FileProxy:
    """A binary file being written, that can die in the middle of a write."""

    def __init__(self, f, inj):
        self._f = f
        self._inj = inj

    def write(self, data):
        data = bytes(data)
        n = len(data)
        for cut in sorted({1, n // 2, n - 1}):
            if 0 < cut < n and self._inj.hit():
                # a prefix of the data reaches the disk, then we die
                self._f.write(data[:cut])
                self._f.flush()
                os._exit(KILL)
        r = self._f.write(data)
        if self._inj.hit():
            # everything written so far reaches the disk, file never closed
            self._f.flush()
            os._exit(KILL)
        return r

    def close(self):
        if not self._f.closed:
            self._inj.point()  # before close: buffered data is lost
            self._f.close()
            self._inj.point()  # after close
        else:
            self._f.close()

    def __enter__(self):
        return self

    def __exit__(self, *exc):
        self.close()

    def __getattr__(self, name):
        return getattr(self._f, name)


def install(inj):
    """Only ever called in a forked child."""
    real_open = builtins.open
    real_replace = os.replace
    real_remove = os.remove
    real_rmtree = shutil.rmtree
    real_makedirs = os.makedirs

    def open_(file, mode="r", *args, **kwargs):
        if ("w" in mode) and ("b" in mode) and inj.mine(file):
            inj.point()  # before open
            f = real_open(file, mode, *args, **kwargs)
            inj.point()  # after create / truncate
            return FileProxy(f, inj)
        return real_open(file, mode, *args, **kwargs)

    def replace_(src, dst, **kwargs):
        if inj.mine(dst):
            inj.point()  # before rename
            real_replace(src, dst, **kwargs)
            inj.point()  # after rename
        else:
            real_replace(src, dst, **kwargs)

    def remove_(path, **kwargs):
        if inj.mine(path):
            inj.point()
            real_remove(path, **kwargs)
            inj.point()
        else:
            real_remove(path, **kwargs)

    def makedirs_(path, *args, **kwargs):
        if inj.mine(path):
            inj.point()
            real_makedirs(path, *args, **kwargs)
            inj.point()
        else:
            real_makedirs(path, *args, **kwargs)

    def rmtree_(path, *args, **kwargs):
        if not inj.mine(path):
            return real_rmtree(path, *args, **kwargs)

        def rm(d):
            for e in sorted(os.listdir(d), reverse=inj.rev):
                p = os.path.join(d, e)
                if os.path.isdir(p) and not os.path.islink(p):
                    rm(p)
                else:
                    inj.point()  # between the deletions
                    real_remove(p)
            inj.point()
            os.rmdir(d)

        rm(path)
        inj.point()

    def wrap_save(real_save, fname_of):
        def save_(obj, name, *args, **kwargs):
            inj.point()  # before the save starts
            if inj.hit():
                # created but nothing written
                real_open(fname_of(name, *args, **kwargs), "wb").close()
                os._exit(KILL)
            if inj.hit():
                # partially written
                real_save(obj, name, *args, **kwargs)
                fname = fname_of(name, *args, **kwargs)
                os.truncate(fname, os.path.getsize(fname) // 2)
                os._exit(KILL)
            real_save(obj, name, *args, **kwargs)
            inj.point()  # after the save finished

        return save_

    def ds_fname(name, engine="h5netcdf", **kwargs):
        return xyzpy.manage.auto_add_extension(name, engine)

    def df_fname(name, engine="pickle", **kwargs):
        return name

    builtins.open = open_
    os.replace = replace_
    os.remove = remove_
    os.makedirs = makedirs_
    shutil.rmtree = rmtree_
    farming.save_ds = wrap_save(farming.save_ds, ds_fname)
    farming.save_df = wrap_save(farming.save_df, df_fname)


def run_killed(root, target, action, rev=False):
    """Run ``action()`` in a forked child that dies at boundary ``target``.
    Returns 'killed', or 'done' if the action finished before that."""
    global N_KILLS
    sys.stdout.flush()
    sys.stderr.flush()
    pid = os.fork()
    if pid == 0:
        code = 1
        try:
            install(Inject(root, target, rev))
            action()
            code = 0
        except BaseException:
            traceback.print_exc()
            sys.stderr.flush()
        finally:
            os._exit(code)
    _, status = os.waitpid(pid, 0)
    code = os.waitstatus_to_exitcode(status)
    if code == 0:
        return "done"
    if code == KILL:
        N_KILLS += 1
        return "killed"
    raise AssertionError("child failed with exit code {}".format(code))


def check(cond, msg):
    global N_CHECKS
    N_CHECKS += 1
    if not cond:
        raise AssertionError(msg)


# --------------------------------------------------------------------------- #
#                                 scenarios                                   #
# --------------------------------------------------------------------------- #


def fn_num(a, b):
    return a * 10 + b


def fn_arr(a, b):
    return np.arange(3) * a + b, "s{}-{}".format(a, b)


COMBOS = {"a": [1, 2, 3], "b": [10, 20]}


def deep_equal(x, y):
    """Exact structural equality (types, dtypes, shapes and values)."""
    if type(x) is not type(y):
        return False
    if isinstance(x, (tuple, list)):
        return len(x) == len(y) and all(map(deep_equal, x, y))
    if isinstance(x, np.ndarray):
        return (
            x.dtype == y.dtype
            and x.shape == y.shape
            and bool(np.array_equal(x, y))
        )
    return bool(x == y)


class RawScenario:
    """A crop without farmer, reaped to a nested tuple."""

    def __init__(self, name, fn, crop_opts, grow_how):
        self.name = name
        self.fn = fn
        self.crop_opts = crop_opts
        self.grow_how = grow_how

    def crop(self, root):
        return Crop(fn=self.fn, name="c", parent_dir=root, **self.crop_opts)

    def sow(self, crop):
        crop.sow_combos(COMBOS, verbosity=0)

    def grow(self, crop):
        if self.grow_how == "missing":
            crop.grow_missing(verbosity=0)
        elif self.grow_how == "ids":
            crop.grow(crop.missing_results(), verbosity=0)
        else:
            for i in crop.missing_results():
                grow(i, crop=crop, verbosity=0)

    def reap(self, crop):
        return crop.reap()

    def prepare(self, root):
        pass

    def survives(self, root):
        pass

    def same(self, x, y):
        return deep_equal(x, y)


class RunnerScenario(RawScenario):
    """A crop of a Runner, reaped to a dataset."""

    def crop(self, root):
        r = xyzpy.Runner(self.fn, var_names=["x", "s"],
                         var_dims={"x": ["t"]}, var_coords={"t": [0, 1, 2]})
        return r.Crop(name="c", parent_dir=root, **self.crop_opts)

    def same(self, x, y):
        return x.identical(y)


def sown_files_complete(crop):
    """Is everything that sowing writes there?"""
    loc = crop.location
    if not (
        crop.is_prepared()
        and os.path.isfile(os.path.join(loc, cropping.FNCT_NM))
        and os.path.isdir(os.path.join(loc, "batches"))
        and os.path.isdir(os.path.join(loc, "results"))
    ):
        return False
    info = crop.load_info()
    return all(
        os.path.isfile(
            os.path.join(loc, "batches", cropping.BTCH_NM.format(i))
        )
        for i in range(1, info["num_batches"] + 1)
    )


def recover(sc, root):
    """The documented recovery."""
    crop = sc.crop(root)
    if not sown_files_complete(crop):
        sc.sow(crop)
    crop.check_bad(delete_bad=True)
    sc.grow(crop)
    return sc.reap(crop)


def uninterrupted(sc):
    with tempfile.TemporaryDirectory() as root:
        sc.prepare(root)
        crop = sc.crop(root)
        sc.sow(crop)
        sc.grow(crop)
        res = sc.reap(crop)
        check(not os.path.exists(crop.location), "crop not cleaned up")
        return res


def setup_phase(sc, root, phase):
    sc.prepare(root)
    crop = sc.crop(root)
    if phase in ("grow", "reap", "resow", "grow-half"):
        sc.sow(crop)
    if phase in ("reap", "resow"):
        sc.grow(crop)
    if phase == "grow-half":
        crop.grow(1, verbosity=0)


def phase_action(sc, root, phase, expected):
    def action():
        crop = sc.crop(root)
        if phase in ("sow", "resow"):
            sc.sow(crop)
        elif phase in ("grow", "grow-half"):
            sc.grow(crop)
        elif phase == "reap":
            res = sc.reap(crop)
            assert sc.same(res, expected), "child reaped wrong data"
        else:
            raise ValueError(phase)

    return action


def naive_reap_check(sc, root, expected, what):
    """Reaping a crashed crop refuses or is exact."""
    with tempfile.TemporaryDirectory() as tmp:
        copy = os.path.join(tmp, "copy")
        shutil.copytree(root, copy)
        try:
            res = sc.reap(sc.crop(copy))
        except Exception:
            refused = True
        else:
            refused = False
            check(sc.same(res, expected),
                  "{}: naive reap returned wrong data".format(what))
        sc.survives(copy)
    return refused


def check_crashed(sc, root, expected, what, second_stride=0):
    sc.survives(root)
    naive_reap_check(sc, root, expected, what)

    if second_stride:
        # kill the recovery as well
        j = 1
        while True:
            with tempfile.TemporaryDirectory() as tmp:
                copy = os.path.join(tmp, "copy")
                shutil.copytree(root, copy)
                out = run_killed(copy, j, lambda: recover(sc, copy))
                if out == "done":
                    break
                what2 = "{} + recovery kill {}".format(what, j)
                check_crashed(sc, copy, expected, what2, 0)
            j += second_stride

    res = recover(sc, root)
    check(sc.same(res, expected), "{}: recovery not exact".format(what))
    sc.survives(root)
    check(not os.path.exists(sc.crop(root).location),
          "{}: crop not cleaned up".format(what))


def crash_everywhere(sc, phases, second=None, rev=False):
    expected = uninterrupted(sc)
    counts = {}
    for phase in phases:
        k = 1
        while True:
            with tempfile.TemporaryDirectory() as root:
                setup_phase(sc, root, phase)
                out = run_killed(
                    root, k, phase_action(sc, root, phase, expected), rev
                )
                if out == "done":
                    if phase != "reap":
                        # finish the job normally
                        res = recover(sc, root)
                        check(sc.same(res, expected), "plain run differs")
                    break
                what = "{} / {} / kill {}".format(sc.name, phase, k)
                stride = 0
                if second and (k % second[0] == 0):
                    stride = second[1]
                check_crashed(sc, root, expected, what, stride)
            k += 1
        counts[phase] = k - 1
        check(k - 1 >= 4, "suspiciously few kill points in " + phase)
    print("  {:<28} kill points per phase: {}".format(sc.name, counts))


# --------------------------------------------------------------------------- #
#                        direct tests of the ``Reaper``                       #
# --------------------------------------------------------------------------- #

from xyzpy.gen.cropping import Reaper, XYZError, RSLT_NM  # noqa: E402


def flat(nested):
    return [x for row in nested for x in row]


def result_file(crop, i):
    return os.path.join(crop.location, "results", RSLT_NM.format(i))


def expect_raises(excs, f, what):
    try:
        f()
    except excs as e:
        check(True, what)
        return e
    except Exception as e:
        check(False, "{}: wrong exception {!r}".format(what, e))
    else:
        check(False, "{}: no exception".format(what))


def call_n(reap_fn, n):
    return [reap_fn(a=0, b=0) for _ in range(n)]


def unit_reaper():
    exp = tuple(tuple(fn_num(a, b) for b in COMBOS["b"]) for a in COMBOS["a"])
    exp_flat = flat(exp)

    for opts, sizes in [
        (dict(batchsize=2), [2, 2, 2]),
        (dict(num_batches=4), [2, 2, 1, 1]),
        (dict(batchsize=3), [3, 3]),
        (dict(num_batches=5), [2, 1, 1, 1, 1]),
    ]:
        nb = len(sizes)
        starts = np.cumsum([0] + sizes)
        for grown in [(), (1,), (nb,), (2, nb), tuple(range(1, nb + 1))]:
            grown = tuple(sorted(set(grown)))
            with tempfile.TemporaryDirectory() as root:
                crop = Crop(fn=fn_num, name="u", parent_dir=root, **opts)
                crop.sow_combos(COMBOS, verbosity=0)
                check(crop.num_batches == nb, "num_batches")
                if grown:
                    crop.grow(grown, verbosity=0)
                complete = len(grown) == nb
                what = "{} grown={}".format(opts, grown)

                # --- Crop.reap, strict ---
                if not complete:
                    expect_raises(
                        XYZError, lambda: crop.reap(), what + " strict"
                    )
                    check(os.path.isdir(crop.location), "crop must remain")

                # --- the Reaper itself, strict: refuses at the first
                #     missing file, hands out only exact data before ---
                first_missing = min(
                    [i for i in range(1, nb + 1) if i not in grown] + [nb + 1]
                )
                n_ok = int(starts[first_missing - 1])
                if complete:
                    with Reaper(crop, nb) as reap_fn:
                        got = call_n(reap_fn, 6)
                    check(got == exp_flat, what + " reaper complete")
                else:
                    def strict():
                        with Reaper(crop, nb) as reap_fn:
                            got = call_n(reap_fn, n_ok)
                            check(got == exp_flat[:n_ok], what + " prefix")
                            reap_fn(a=0, b=0)
                    expect_raises(FileNotFoundError, strict, what + " miss")

                # --- stand-in results, each of them in turn ---
                for default in [None, float("nan"), "dflt", (np.nan, "x")]:
                    with Reaper(
                        crop, nb, default_result=default
                    ) as reap_fn:
                        got = call_n(reap_fn, 6)
                    for i in range(1, nb + 1):
                        chunk = got[starts[i - 1]:starts[i]]
                        if i in grown:
                            check(chunk == exp_flat[starts[i - 1]:starts[i]],
                                  what + " grown chunk")
                        else:
                            check(len(chunk) == sizes[i - 1]
                                  and all(c is default for c in chunk),
                                  what + " default chunk")

                # --- Crop.reap(allow_incomplete=True) ---
                if grown:
                    got = flat(crop.reap(allow_incomplete=True))
                    check(len(got) == 6, "length")
                    for i in range(1, nb + 1):
                        chunk = got[starts[i - 1]:starts[i]]
                        if i in grown:
                            check(chunk == exp_flat[starts[i - 1]:starts[i]],
                                  what + " incomplete grown chunk")
                        else:
                            check(all(isinstance(c, float) and np.isnan(c)
                                      for c in chunk),
                                  what + " incomplete nan chunk")
                    check(os.path.isdir(crop.location), "crop must remain")
                else:
                    expect_raises(
                        XYZError,
                        lambda: crop.reap(allow_incomplete=True),
                        what + " nothing to infer nan from",
                    )

                # --- too few calls: not everything reaped ---
                if complete:
                    def too_few():
                        with Reaper(crop, nb) as reap_fn:
                            call_n(reap_fn, 5)
                    expect_raises(XYZError, too_few, what + " too few")

                # --- finish and reap exactly ---
                crop.grow_missing(verbosity=0)
                check(crop.reap() == exp, what + " final")
                check(not os.path.exists(crop.location), "cleaned up")

    # a short last batch (batchsize does not divide the number of cases): the
    # stand-in for it is too long, which the reaper notices -> refuses
    with tempfile.TemporaryDirectory() as root:
        crop = Crop(fn=fn_num, name="u", parent_dir=root, batchsize=4)
        crop.sow_combos(COMBOS, verbosity=0)
        crop.grow(1, verbosity=0)
        expect_raises(XYZError, lambda: crop.reap(), "short last, strict")
        expect_raises(
            XYZError, lambda: crop.reap(allow_incomplete=True), "short last"
        )
        crop.grow_missing(verbosity=0)
        check(crop.reap() == exp, "short last final")

    # a lazily built reaper sees results that arrive after its creation
    with tempfile.TemporaryDirectory() as root:
        crop = Crop(fn=fn_num, name="u", parent_dir=root, batchsize=2)
        crop.sow_combos(COMBOS, verbosity=0)
        reaper = Reaper(crop, 3)
        crop.grow_missing(verbosity=0)
        with reaper as reap_fn:
            check(call_n(reap_fn, 6) == exp_flat, "lazy reaper")

    # damaged result files
    def damaged(damage, excs, what, wait=False):
        with tempfile.TemporaryDirectory() as root:
            crop = Crop(fn=fn_num, name="u", parent_dir=root, batchsize=2)
            crop.sow_combos(COMBOS, verbosity=0)
            crop.grow_missing(verbosity=0)
            damage(crop)
            expect_raises(excs, lambda: crop.reap(wait=wait), what)
            check(os.path.isdir(crop.location), what + ": crop must remain")
            # allow_incomplete must not paper over a damaged file either
            if damage is not directory:
                expect_raises(
                    Exception, lambda: crop.reap(allow_incomplete=True),
                    what + " (allow_incomplete)"
                )
            # documented recovery
            f = result_file(crop, 2)
            if os.path.isdir(f):
                os.rmdir(f)
            with contextlib.redirect_stdout(io.StringIO()):
                crop.check_bad(delete_bad=True)
            crop.grow_missing(verbosity=0)
            check(crop.reap(wait=wait) == exp, what + ": recovery")

    def truncate(crop):
        f = result_file(crop, 2)
        os.truncate(f, os.path.getsize(f) // 2)

    def empty_file(crop):
        os.truncate(result_file(crop, 2), 0)

    def empty_tuple(crop):
        with open(result_file(crop, 2), "wb") as f:
            pickle.dump((), f)

    def none_result(crop):
        with open(result_file(crop, 2), "wb") as f:
            pickle.dump(None, f)

    def too_long(crop):
        with open(result_file(crop, 2), "wb") as f:
            pickle.dump((1, 2, 3), f)

    def too_short(crop):
        with open(result_file(crop, 2), "wb") as f:
            pickle.dump((1,), f)

    def directory(crop):
        os.remove(result_file(crop, 2))
        os.mkdir(result_file(crop, 2))

    damaged(truncate, (pickle.UnpicklingError, EOFError), "truncated")
    damaged(truncate, (pickle.UnpicklingError, EOFError), "truncated/wait",
            wait=True)
    damaged(empty_file, EOFError, "empty file")
    damaged(empty_tuple, ValueError, "empty tuple")
    damaged(empty_tuple, ValueError, "empty tuple/wait", wait=True)
    damaged(too_long, XYZError, "too long")
    damaged(too_short, Exception, "too short")
    damaged(directory, ValueError, "directory/wait", wait=True)
    damaged(directory, Exception, "directory")

    def none_case():
        with tempfile.TemporaryDirectory() as root:
            crop = Crop(fn=fn_num, name="u", parent_dir=root, batchsize=2)
            crop.sow_combos(COMBOS, verbosity=0)
            crop.grow_missing(verbosity=0)
            none_result(crop)
            expect_raises(ValueError, lambda: crop.reap(), "None result")
    none_case()

    # wait=True: results arrive while we are reaping
    for allow_incomplete in (False, True):
        with tempfile.TemporaryDirectory() as root:
            crop = Crop(fn=fn_num, name="u", parent_dir=root, num_batches=4)
            crop.sow_combos(COMBOS, verbosity=0)
            crop.grow(3, verbosity=0)
            sys.stdout.flush()
            pid = os.fork()
            if pid == 0:
                try:
                    time.sleep(0.5)
                    crop.grow((4, 1), verbosity=0)
                    time.sleep(0.5)
                    crop.grow(2, verbosity=0)
                finally:
                    os._exit(0)
            t0 = time.time()
            got = crop.reap(wait=True, allow_incomplete=allow_incomplete)
            os.waitpid(pid, 0)
            check(got == exp, "waited reap exact")
            check(time.time() - t0 > 0.8, "did not actually wait")
            # clean_up defaults to ``not allow_incomplete``
            check(os.path.exists(crop.location) == allow_incomplete,
                  "clean up after waiting")

    print("  Reaper unit checks ok")


class IncompleteRawScenario(RawScenario):
    """Additionally reap every crashed state with ``allow_incomplete``."""

    def survives(self, root):
        crop = self.crop(root)
        exp = flat(
            tuple(fn_num(a, b) for b in COMBOS["b"]) for a in COMBOS["a"]
        )
        try:
            got = flat(crop.reap(allow_incomplete=True, clean_up=False))
        except Exception:
            return
        info = crop.load_info()
        sizes = [
            info["batchsize"] + int(i < info["_batch_remainder"])
            for i in range(info["num_batches"])
        ]
        starts = np.cumsum([0] + sizes)
        check(len(got) == 6, "incomplete reap length")
        for i in range(len(sizes)):
            chunk = got[starts[i]:starts[i + 1]]
            there = os.path.isfile(result_file(crop, i + 1))
            if there:
                check(chunk == exp[starts[i]:starts[i + 1]],
                      "incomplete reap: finished batch must be exact")
            else:
                check(all(isinstance(c, float) and np.isnan(c)
                          for c in chunk),
                      "incomplete reap: missing batch must be all nan")


def main():
    unit_reaper()

    crash_everywhere(
        IncompleteRawScenario("raw/num_batches=4/missing", fn_num,
                              dict(num_batches=4), "missing"),
        ["grow", "grow-half", "reap"],
        second=(5, 4),
    )
    crash_everywhere(
        RawScenario("raw/batchsize=2/fn-grow", fn_arr,
                    dict(batchsize=2), "fn"),
        ["sow", "grow", "reap"],
        rev=True,
    )
    crash_everywhere(
        RunnerScenario("runner/num_batches=5/ids", fn_arr,
                       dict(num_batches=5), "ids"),
        ["grow", "reap"],
        second=(9, 6),
        rev=True,
    )
    print("{} kills, {} checks".format(N_KILLS, N_CHECKS))
    print("PASS")


if __name__ == "__main__":
    main()
