"""Demo for the C19 helper-extraction twin.

Run as ``cd <worktree> && /venv/bin/python /path/to/demo.py``.

Checks, for the running statistics classes and ``estimate_from_repeats``:

  (1) the results are bit-for-bit those of a straight transcription of the
      textbook recurrences (kept in this file), for many sequences, chunkings
      and permutations;
  (2) the results agree with numpy's whole-sample statistics to floating
      point accuracy relative to the data scale;
  (3) ``estimate_from_repeats`` draws exactly the number of samples the
      stopping rule prescribes, never more than ``max_samples``, and returns
      the statistics of exactly the samples it drew (all ``get`` modes, all
      verbosity levels, KeyboardInterrupt, exceptions).

Prints PASS and exits 0 if everything holds.
"""
import sys
import os

sys.path.insert(0, os.getcwd())

import contextlib
import io
import itertools
import math
import random
import tempfile
import shutil

import numpy as np

import xyzpy
from xyzpy import (
    RunningStatistics,
    RunningCovariance,
    RunningCovarianceMatrix,
    estimate_from_repeats,
    format_number_with_error,
)

assert os.path.dirname(os.path.abspath(xyzpy.__file__)) == os.path.join(
    os.getcwd(), "xyzpy"
), xyzpy.__file__

FAILURES = []


def check(cond, msg):
    if not cond:
        FAILURES.append(msg)
        if len(FAILURES) <= 20:
            print("  check failed:", msg)


# --------------------------------------------------------------------------
# reference recurrences (pure python, independent of xyzpy)
# --------------------------------------------------------------------------


class RefStats:
    def __init__(self):
        self.count, self.mean, self.M2 = 0, 0.0, 0.0

    def update(self, x):
        self.count += 1
        delta = x - self.mean
        self.mean += delta / self.count
        delta2 = x - self.mean
        self.M2 += delta * delta2

    @property
    def var(self):
        return np.inf if self.count == 0 else self.M2 / self.count

    @property
    def std(self):
        return np.inf if self.count == 0 else self.var**0.5

    @property
    def err(self):
        return np.inf if self.count == 0 else self.std / self.count**0.5

    @property
    def rel_err(self):
        return np.inf if self.count == 0 else self.err / abs(self.mean)

    def converged(self, rtol, atol):
        return self.err < rtol * abs(self.mean) + atol


class RefCov:
    def __init__(self):
        self.count, self.xmean, self.ymean, self.C = 0, 0.0, 0.0, 0.0

    def update(self, x, y):
        self.count += 1
        dx = x - self.xmean
        dy = y - self.ymean
        self.xmean += dx / self.count
        self.ymean += dy / self.count
        self.C += dx * (y - self.ymean)


def same(a, b):
    """Bit-for-bit equality of two floats (nan == nan)."""
    a, b = float(a), float(b)
    return (a == b) or (math.isnan(a) and math.isnan(b))


def chunkings(n, rng):
    """A few ways of cutting range(n) into consecutive chunks."""
    yield [n]
    yield [1] * n
    for _ in range(2):
        cuts, left = [], n
        while left:
            c = rng.randint(1, max(1, left))
            cuts.append(c)
            left -= c
        yield cuts


def feed(obj, series, cuts, rng):
    """Feed ``series`` (tuple of equal-length lists) into obj, chunk by chunk,
    chunks of size one go through ``update`` about half of the time."""
    pos = 0
    for c in cuts:
        part = [s[pos:pos + c] for s in series]
        if c == 1 and rng.random() < 0.5:
            obj.update(*[p[0] for p in part])
        else:
            # alternate lists / iterators-free sequences (tuples)
            if rng.random() < 0.5:
                part = [tuple(p) for p in part]
            obj.update_from_it(*part)
        pos += c


# --------------------------------------------------------------------------
# 1. RunningStatistics
# --------------------------------------------------------------------------


def make_sequences(rng):
    seqs = []
    for n in (1, 2, 3, 5, 17, 64, 200, 500):
        for offset in (0.0, 1.0, -3.5, 1e3, -1e6, 1e9):
            for spread in (1e-3, 1.0, 250.0):
                xs = [offset + spread * rng.gauss(0, 1) for _ in range(n)]
                seqs.append((offset, spread, xs))
    seqs.append((42.0, 0.0, [42.0] * 4 + [44.0] * 4))
    seqs.append((0.0, 0.0, [0.0] * 7))
    return seqs


def test_running_statistics():
    rng = random.Random(1234)
    eps = np.finfo(float).eps

    # empty object
    rs = RunningStatistics()
    check(rs.count == 0 and rs.mean == 0.0 and rs.M2 == 0.0, "empty state")
    for name in ("var", "std", "err", "rel_err"):
        check(getattr(rs, name) == np.inf, f"empty {name} should be inf")
    check(repr(rs) == "RunningStatistics(mean=None, count=0)", "empty repr")
    check(rs.converged(0.1, 0.1) is False or rs.converged(0.1, 0.1) == False,
          "empty object must not be converged")
    rs.update_from_it([])
    check(rs.count == 0, "empty chunk changes nothing")

    for offset, spread, xs in make_sequences(rng):
        n = len(xs)
        orders = [xs, xs[::-1], rng.sample(xs, n)]
        for order in orders:
            ref = RefStats()
            for x in order:
                ref.update(x)
            arr = np.array(order)
            scale = max(1.0, float(np.max(np.abs(arr))))
            for cuts in chunkings(n, rng):
                rs = RunningStatistics()
                feed(rs, (order,), cuts, rng)
                tag = f"rs n={n} off={offset} spread={spread} cuts={len(cuts)}"
                check(rs.count == ref.count == n, tag + " count")
                check(type(rs.count) is int, tag + " count type")
                for name in ("mean", "M2", "var", "std", "err", "rel_err"):
                    with np.errstate(all="ignore"):
                        try:
                            a = getattr(rs, name)
                        except ZeroDivisionError:
                            a = "zde"
                        try:
                            b = getattr(ref, name)
                        except ZeroDivisionError:
                            b = "zde"
                    check(
                        (a == b == "zde")
                        or (a != "zde" and b != "zde" and same(a, b)),
                        tag + f" {name}: {a!r} != reference {b!r}",
                    )
                for rtol, atol in ((0.02, 0.02), (1e-3, 0.0), (0.5, 1e-9),
                                   (0.0, 0.0), (1e-6, 10.0)):
                    check(
                        bool(rs.converged(rtol, atol))
                        == bool(ref.converged(rtol, atol)),
                        tag + f" converged({rtol},{atol})",
                    )
                # the property itself: whole-sample statistics
                std_np = float(np.std(arr))
                check(abs(rs.mean - np.mean(arr)) <= 64 * eps * scale,
                      tag + " mean vs numpy")
                check(abs(rs.std - std_np) <= 1e3 * eps * scale,
                      tag + f" std vs numpy {rs.std} {std_np}")
                check(
                    abs(rs.var - float(np.var(arr)))
                    <= 1e3 * eps * scale * (std_np + eps * scale),
                    tag + f" var vs numpy {rs.var} {np.var(arr)}",
                )
                check(
                    abs(rs.err - std_np / n**0.5) <= 1e3 * eps * scale,
                    tag + " err vs numpy",
                )
                # repr shows the mean with its error and the count
                if math.isfinite(rs.err):
                    want = (
                        "RunningStatistics(mean="
                        f"{format_number_with_error(rs.mean, rs.err)}, "
                        f"count={n})"
                    )
                    check(repr(rs) == want, tag + f" repr {rs!r} != {want}")

    # a failing update leaves the count already incremented (as ever)
    rs = RunningStatistics()
    rs.update(1.0)
    try:
        rs.update("a")
    except TypeError:
        pass
    else:
        check(False, "update('a') should raise TypeError")
    check(rs.count == 2 and rs.mean == 1.0 and rs.M2 == 0.0,
          f"state after failed update: {rs.count} {rs.mean} {rs.M2}")

    # update_from_it goes through ``update`` (subclasses rely on that)
    class Spy(RunningStatistics):
        seen = ()

        def update(self, x):
            self.seen = self.seen + (x,)
            super().update(x)

    spy = Spy()
    spy.update_from_it([1.0, 2.0, 4.0])
    check(spy.seen == (1.0, 2.0, 4.0) and spy.count == 3, "subclass update")


# --------------------------------------------------------------------------
# 2. RunningCovariance / RunningCovarianceMatrix
# --------------------------------------------------------------------------


def correlated(rng, k, n, offset, spread):
    base = [rng.gauss(0, 1) for _ in range(n)]
    out = []
    for s in range(k):
        w = rng.uniform(-1, 1)
        out.append([
            offset * (s + 1) + spread * (w * b + 0.5 * rng.gauss(0, 1))
            for b in base
        ])
    return out


def test_covariance():
    rng = random.Random(99)
    eps = np.finfo(float).eps

    # empty / single sample corner cases
    rc = RunningCovariance()
    try:
        rc.covar
    except ZeroDivisionError:
        pass
    else:
        check(False, "empty RunningCovariance.covar should raise")
    check(rc.sample_covar == 0.0 and math.copysign(1, rc.sample_covar) < 0,
          "empty RunningCovariance.sample_covar is 0.0 / -1")
    rc.update(1.0, 2.0)
    check(rc.covar == 0.0, "single sample covar")
    try:
        rc.sample_covar
    except ZeroDivisionError:
        pass
    else:
        check(False, "single sample sample_covar should raise")

    rcm = RunningCovarianceMatrix()
    check(rcm.n == 2 and sorted(rcm.rcs) == [(0, 0), (0, 1), (1, 1)],
          "default matrix has n=2 and upper triangle storage")
    check(rcm.count == 0, "empty matrix count")
    try:
        rcm.covar_matrix
    except ZeroDivisionError:
        pass
    else:
        check(False, "empty matrix covar_matrix should raise")
    check(np.array_equal(rcm.sample_covar_matrix, np.zeros((2, 2))),
          "empty matrix sample_covar_matrix is 0.0 / -1 everywhere")
    rcm.update(1.0, 2.0)
    check(np.array_equal(rcm.covar_matrix, np.zeros((2, 2))),
          "one sample covar matrix")
    try:
        rcm.sample_covar_matrix
    except ZeroDivisionError:
        pass
    else:
        check(False, "one sample sample_covar_matrix should raise")
    try:
        RunningCovarianceMatrix(3).update(1.0, 2.0)
    except IndexError:
        pass
    else:
        check(False, "too few values should raise IndexError")

    for k in (2, 3, 4):
        keys = [(i, j) for i in range(k) for j in range(i, k)]
        for n in (2, 3, 10, 77, 300):
            for offset, spread in ((0.0, 1.0), (1e9, 1e-3), (-1e4, 30.0),
                                   (5.0, 1e-3)):
                series = correlated(rng, k, n, offset, spread)
                perm = list(range(n))
                for order_no in range(2):
                    if order_no:
                        rng.shuffle(perm)
                    data = [[s[p] for p in perm] for s in series]
                    refs = {key: RefCov() for key in keys}
                    for t in range(n):
                        for (i, j) in keys:
                            refs[i, j].update(data[i][t], data[j][t])
                    arr = np.array(data)
                    scale = max(1.0, float(np.max(np.abs(arr))))
                    sd = np.std(arr, axis=1)
                    for cuts in chunkings(n, rng):
                        rcm = RunningCovarianceMatrix(n=k)
                        check(list(rcm.rcs) == keys, "storage key order")
                        check(
                            all(type(v) is RunningCovariance
                                for v in rcm.rcs.values())
                            and len({id(v) for v in rcm.rcs.values()})
                            == len(keys),
                            "one accumulator per pair",
                        )
                        feed(rcm, data, cuts, rng)
                        tag = (f"rcm k={k} n={n} off={offset} "
                               f"spread={spread} cuts={len(cuts)}")
                        check(rcm.count == n, tag + " count")
                        for key in keys:
                            a, b = rcm.rcs[key], refs[key]
                            check(
                                a.count == b.count
                                and same(a.xmean, b.xmean)
                                and same(a.ymean, b.ymean)
                                and same(a.C, b.C),
                                tag + f" accumulator {key}",
                            )
                        cm = rcm.covar_matrix
                        scm = rcm.sample_covar_matrix
                        check(cm.shape == (k, k) and scm.shape == (k, k)
                              and cm.dtype == float, tag + " shape")
                        for i in range(k):
                            for j in range(k):
                                key = (i, j) if j >= i else (j, i)
                                check(same(cm[i, j], refs[key].C / n),
                                      tag + f" covar[{i},{j}]")
                                check(same(scm[i, j], refs[key].C / (n - 1)),
                                      tag + f" sample_covar[{i},{j}]")
                                check(same(cm[i, j], rcm.rcs[key].covar),
                                      tag + " matrix vs pair")
                        # the property: whole sample covariance
                        tol = 1e3 * eps * scale * (sd[:, None] + sd[None, :]
                                                   + eps * scale)
                        check(
                            np.all(np.abs(cm - np.cov(arr, bias=True)) <= tol),
                            tag + " covar vs numpy",
                        )
                        check(
                            np.all(np.abs(scm - np.cov(arr)) <= tol * 2),
                            tag + " sample covar vs numpy",
                        )
                    # the stand-alone pair accumulator too
                    rc = RunningCovariance()
                    rc.update_from_it(data[0][:1], data[1][:1])
                    for x, y in zip(data[0][1:], data[1][1:]):
                        rc.update(x, y)
                    check(same(rc.C, refs[0, 1].C) and rc.count == n,
                          "RunningCovariance mixed feeding")

    # series of different lengths: every pair is cut to its shorter member
    rcm = RunningCovarianceMatrix(n=3)
    rcm.update_from_it([1.0, 2.0, 3.0, 4.0], [1.0, 3.0, 2.0], [0.0, 1.0])
    counts = {k_: v.count for k_, v in rcm.rcs.items()}
    check(
        counts == {(0, 0): 4, (0, 1): 3, (0, 2): 2, (1, 1): 3, (1, 2): 2,
                   (2, 2): 2},
        f"ragged series counts {counts}",
    )
    check(rcm.count == 4, "count is that of the first series")


# --------------------------------------------------------------------------
# 3. estimate_from_repeats
# --------------------------------------------------------------------------


class Source:
    """Deterministic 'generator' that records every call."""

    def __init__(self, values, fail_at=None, exc=None):
        self.values = values
        self.calls = []
        self.fail_at = fail_at
        self.exc = exc

    def __call__(self, *args, **kwargs):
        k = len(self.calls)
        if self.fail_at is not None and k == self.fail_at:
            raise self.exc
        self.calls.append((args, kwargs))
        return self.values(k)


def expected_draws(values, rtol, tol_scale, min_samples, max_samples,
                   hard_cap=5000):
    """Simulate the documented stopping rule with the reference recurrences:
    after sample number ``i`` (from 0), stop if more than ``min_samples + 1``
    samples are in and the error is within ``rtol * |mean| + rtol *
    tol_scale``, or if ``max_samples`` are in."""
    ref = RefStats()
    for i in range(hard_cap):
        ref.update(values(i))
        if i > min_samples and ref.err < rtol * abs(ref.mean) + tol_scale * rtol:
            return ref
        if i >= max_samples - 1:
            return ref
    raise AssertionError("reference did not stop")


def run_quiet(*args, **kwargs):
    out, err = io.StringIO(), io.StringIO()
    with contextlib.redirect_stdout(out), contextlib.redirect_stderr(err):
        res = estimate_from_repeats(*args, **kwargs)
    return res, out.getvalue(), err.getvalue()


def test_estimate():
    rng = random.Random(2024)
    noise = [rng.gauss(0, 1) for _ in range(6000)]

    generators = {
        "const": lambda k: 3.25,
        "zero": lambda k: 0.0,
        "alternating": lambda k: 10.0 + (-1.0) ** k,
        "noisy": lambda k: 5.0 + noise[k],
        "noisy-small-mean": lambda k: 0.01 + 0.3 * noise[k],
        "noisy-big": lambda k: 1e6 + 2e4 * noise[k],
        "drift": lambda k: 1.0 + 1.0 / (k + 1),
    }
    settings = []
    for rtol in (0.3, 0.05, 0.02):
        for tol_scale in (1.0,):
            for min_samples in (0, 1, 5, 12):
                for max_samples in (1, 2, 7, 8, 40, 1500):
                    settings.append((rtol, tol_scale, min_samples,
                                     max_samples))
    # other tolerance scales, on generators where the two parts of the
    # tolerance are of comparable size
    for tol_scale in (0.0, 0.5, 3.0):
        for rtol in (0.1, 0.03):
            settings.append((rtol, tol_scale, 5, 1500))

    modes = itertools.cycle(["stats", "samples", "mean"])
    verbs = itertools.cycle([0, 0, 2, 1])
    for gname, values in generators.items():
        for rtol, tol_scale, min_samples, max_samples in settings:
            get, verbosity = next(modes), next(verbs)
            ref = expected_draws(values, rtol, tol_scale, min_samples,
                                 max_samples)
            src = Source(values)
            res, out, err = run_quiet(
                src, "a", rtol=rtol, tol_scale=tol_scale, get=get,
                verbosity=verbosity, min_samples=min_samples,
                max_samples=max_samples, k=1,
            )
            tag = (f"estimate {gname} rtol={rtol} ts={tol_scale} "
                   f"min={min_samples} max={max_samples} get={get} "
                   f"v={verbosity}")
            ndrawn = len(src.calls)
            check(ndrawn == ref.count,
                  tag + f": drew {ndrawn}, rule says {ref.count}")
            check(ndrawn <= max(1, max_samples), tag + " exceeded max_samples")
            check(all(c == (("a",), {"k": 1}) for c in src.calls),
                  tag + " arguments passed to fn")
            drawn = [values(k) for k in range(ndrawn)]
            if get == "mean":
                check(same(res, ref.mean), tag + " mean")
                rs = None
            elif get == "samples":
                rs, xs = res
                check(type(xs) is list and xs == drawn, tag + " samples")
            else:
                rs = res
            if rs is not None:
                check(type(rs) is RunningStatistics, tag + " type")
                check(rs.count == ndrawn, tag + " count == draws")
                check(same(rs.mean, ref.mean) and same(rs.M2, ref.M2),
                      tag + " stats are those of the drawn samples")
                check(abs(rs.mean - np.mean(drawn))
                      <= 1e-12 * max(1.0, abs(rs.mean)), tag + " mean numpy")
                check(abs(rs.std - np.std(drawn))
                      <= 1e-9 * max(1.0, abs(rs.mean)), tag + " std numpy")
                # stopped early only because the requested error was met
                if ndrawn < max_samples:
                    check(rs.err < rtol * abs(rs.mean) + rtol * tol_scale,
                          tag + " stopped before the tolerance was met")
                    check(ndrawn >= min_samples + 2,
                          tag + " stopped before min_samples")
            # what is displayed
            if verbosity == 0:
                check(out == "" and err == "", tag + " should be silent")
            else:
                shown = RefStats()
                for x in drawn:
                    shown.update(x)
                want = (
                    "RunningStatistics(mean="
                    f"{format_number_with_error(ref.mean, ref.err)}, "
                    f"count={ndrawn})\n"
                )
                check(out == want, tag + f" printed {out!r} want {want!r}")
                if verbosity >= 2:
                    last = (f"{ndrawn}: "
                            f"{format_number_with_error(ref.mean, ref.err)}")
                    check(last in err, tag + f" progress label {last!r}")
                    first = RefStats()
                    first.update(drawn[0])
                    check(
                        f"1: {format_number_with_error(first.mean, first.err)}"
                        in err,
                        tag + " first progress label",
                    )
                else:
                    check(": " not in err.replace("it/s", ""),
                          tag + f" no label at verbosity 1: {err!r}")

    # KeyboardInterrupt ends sampling cleanly with what was drawn so far
    for get in ("stats", "samples", "mean"):
        for fail_at in (0, 1, 4):
            src = Source(generators["noisy"], fail_at=fail_at,
                         exc=KeyboardInterrupt())
            res, out, err = run_quiet(src, rtol=1e-9, get=get, verbosity=0)
            ref = RefStats()
            for k in range(fail_at):
                ref.update(generators["noisy"](k))
            if get == "mean":
                check(same(res, ref.mean), "interrupt mean")
            else:
                rs, xs = res if get == "samples" else (res, None)
                check(rs.count == fail_at and same(rs.mean, ref.mean)
                      and same(rs.M2, ref.M2), "interrupt stats")
                if xs is not None:
                    check(xs == [generators["noisy"](k)
                                 for k in range(fail_at)],
                          "interrupt samples")

    # other exceptions propagate, progress bar is closed
    for verbosity in (0, 2):
        src = Source(generators["noisy"], fail_at=3, exc=ValueError("boom"))
        try:
            run_quiet(src, rtol=1e-9, verbosity=verbosity)
        except ValueError as e:
            check(str(e) == "boom" and len(src.calls) == 3, "exception")
        else:
            check(False, "ValueError should propagate")

    # unknown ``get`` falls back to the statistics object
    res, _, _ = run_quiet(Source(generators["const"]), get="other")
    check(type(res) is RunningStatistics and res.count == 7,
          f"constant generator with defaults stops after 7: {res!r}")

    # truly random generator, default settings: the answer is right
    nrng = np.random.default_rng(7)
    rs, xs = estimate_from_repeats(lambda n: nrng.random(n).sum(), 10,
                                   get="samples")
    check(rs.count == len(xs) and rs.rel_err < 0.02 + 0.02 / abs(rs.mean),
          "random generator: tolerance met")
    check(abs(rs.mean - np.mean(xs)) < 1e-12 and
          abs(rs.std - np.std(xs)) < 1e-12, "random generator: stats")
    check(abs(rs.mean - 5.0) < 0.5, "random generator: mean")


def main():
    tmp = tempfile.mkdtemp(prefix="c19_t8_")
    cwd = os.getcwd()
    try:
        test_running_statistics()
        test_covariance()
        test_estimate()
    finally:
        os.chdir(cwd)
        shutil.rmtree(tmp, ignore_errors=True)

    if FAILURES:
        print(f"FAIL: {len(FAILURES)} checks failed, first: {FAILURES[0]}")
        sys.exit(1)
    print("PASS")
    sys.exit(0)


if __name__ == "__main__":
    main()
