"""Demo for C13 (missing-data discovery), aimed at ``find_missing_cases`` and
the harvesting leg of the find -> harvest -> find loop (``Harvester.add_ds``,
``harvest_cases``, ``harvest_combos``).

Run as:  cd <worktree> && /venv/bin/python /path/to/demo.py
"""
import os
import sys
import warnings

sys.path.insert(0, os.getcwd())
warnings.simplefilter('ignore')

import io
import itertools
import shutil
import tempfile
import contextlib

import numpy as np
import xarray as xr

import xyzpy
from xyzpy import (
    find_missing_cases,
    is_case_missing,
    Runner,
    Harvester,
)

assert os.path.dirname(os.path.dirname(os.path.abspath(xyzpy.__file__))) == \
    os.path.abspath(os.getcwd()), xyzpy.__file__

CHECKS = 0


def check(cond, msg=''):
    global CHECKS
    CHECKS += 1
    if not cond:
        raise AssertionError(msg)


def raises(exc, fn, *args, **kwargs):
    try:
        fn(*args, **kwargs)
    except exc as e:
        return e
    except BaseException as e:  # noqa
        raise AssertionError('expected {} got {!r}'.format(exc, e))
    raise AssertionError('expected {} but nothing raised'.format(exc))


def same_cases(got, expected):
    got, expected = list(got), list(expected)
    if len(got) != len(expected):
        return False
    return all(tuple(g) == tuple(e) for g, e in zip(got, expected))


# --------------------------------------------------------------------------- #
# oracle on the raw arrays                                                    #
# --------------------------------------------------------------------------- #

def oracle_missing(ds, fn_args, method):
    test = np.isnan if method == 'isnull' else (lambda x: ~np.isfinite(x))
    sizes = [ds.sizes[a] for a in fn_args]
    out = []
    for idx in itertools.product(*(range(s) for s in sizes)):
        sel = dict(zip(fn_args, idx))
        if all(bool(np.all(test(ds[v].isel(
                {d: i for d, i in sel.items() if d in ds[v].dims}).values)))
               for v in ds.data_vars):
            out.append(tuple(ds[a].values[i] for a, i in zip(fn_args, idx)))
    return tuple(out)


def make_ds(rng, ndim, nvar, internal, strings):
    names = ['a', 'b', 'c', 'd'][:ndim]
    coords = {}
    for i, n in enumerate(names):
        size = int(rng.integers(1, 4))
        if strings and i % 2 == 1:
            coords[n] = ['k{}'.format(j) for j in range(size)]
        else:
            coords[n] = [0.5 * (j + 1) + i for j in range(size)]
    if internal:
        coords['t'] = [0, 1]
        coords['u'] = ['x', 'y', 'z']
    shape = tuple(len(coords[n]) for n in names)
    data_vars = {}
    for v in range(nvar):
        extra = []
        if internal and v != 1:
            extra = ['t'] if v == 0 else ['t', 'u']
        dims = names + extra
        shp = shape + tuple(len(coords[e]) for e in extra)
        data_vars['v{}'.format(v)] = (dims, rng.normal(size=shp))
    ds = xr.Dataset(data_vars, coords=coords)
    for cell in itertools.product(*(range(s) for s in shape)):
        r = rng.random()
        if r < 0.3:                                   # whole cell
            for name in ds.data_vars:
                ds[name].values[cell] = np.nan
        elif r < 0.45:                                # one variable only
            ds['v0'].values[cell] = np.nan
        elif r < 0.6 and internal:                    # part of a cell
            ds['v0'].values[cell + (0,)] = np.nan
        elif r < 0.7:                                 # nothing finite
            for name in ds.data_vars:
                ds[name].values[cell] = np.nan
            ds['v{}'.format(nvar - 1)].values[cell] = np.inf
    return ds, names


rng = np.random.default_rng(4321)

for trial in range(48):
    ndim = 1 + trial % 4
    nvar = 1 + (trial // 4) % 3
    internal = bool((trial // 2) % 2)
    strings = bool(trial % 3)
    ds, names = make_ds(rng, ndim, nvar, internal, strings)
    internal_dims = [d for d in ('t', 'u') if d in ds.dims]

    # every accepted spelling of ignore_dims
    if not internal_dims:
        spellings = [None, (), [], set(), '', 'not-a-dim', ['not-a-dim']]
    elif internal_dims == ['t']:
        spellings = ['t', ['t'], ('t',), {'t'}, iter(['t']),
                     ['t', 'not-a-dim']]
    else:
        spellings = [['t', 'u'], ('u', 't'), {'t', 'u'}, iter(['t', 'u'])]

    for method in ('isnull', 'isfinite'):
        reference = None
        for ignore in spellings:
            if hasattr(ignore, '__next__'):
                ignore = iter(list(internal_dims))
            fn_args, missing = find_missing_cases(ds, ignore_dims=ignore,
                                                  method=method)
            check(isinstance(fn_args, tuple) and isinstance(missing, tuple))
            check(fn_args == tuple(d for d in ds.dims
                                   if d not in internal_dims))
            expected = oracle_missing(ds, fn_args, method)
            check(same_cases(missing, expected),
                  'trial {} {}: {} != {}'.format(trial, method, missing,
                                                 expected))
            check(all(isinstance(m, tuple) for m in missing))
            check(len(set(missing)) == len(missing))
            if reference is None:
                reference = missing
            check(missing == reference)
        # reported <=> predicate, for every location of the grid, grid order
        grid = list(itertools.product(*(ds[a].values for a in fn_args)))
        flags = [is_case_missing(ds, dict(zip(fn_args, c)), method=method)
                 for c in grid]
        check([c for c, f in zip(grid, flags) if f] == list(reference))

    # not ignoring an internal dimension makes it one of the arguments
    if internal_dims:
        fn_args, missing = find_missing_cases(ds)
        check(fn_args == tuple(ds.dims))
        check(same_cases(missing, oracle_missing(ds, fn_args, 'isnull')))
        fn_args, missing = find_missing_cases(ds, 'u', 'isfinite')
        check(fn_args == tuple(d for d in ds.dims if d != 'u'))
        check(same_cases(missing, oracle_missing(ds, fn_args, 'isfinite')))

# the progress bar option only adds output on stderr
ds, names = make_ds(np.random.default_rng(7), 3, 2, True, True)
err = io.StringIO()
with contextlib.redirect_stderr(err):
    with_bar = find_missing_cases(ds, ignore_dims=['t', 'u'],
                                  show_progbar=True)
check(with_bar == find_missing_cases(ds, ignore_dims=['t', 'u']))
check(with_bar == find_missing_cases(ds, ['t', 'u'], 'isnull', False))
check('it' in err.getvalue() or '%' in err.getvalue())
err = io.StringIO()
with contextlib.redirect_stderr(err):
    find_missing_cases(ds, ignore_dims=['t', 'u'])
check(err.getvalue() == '')

# unknown criterion: an error as soon as a location is looked at, none for an
# empty grid
raises(ValueError, find_missing_cases, ds, ['t', 'u'], 'bogus')
empty = xr.Dataset({'v': (('a',), np.zeros(0))}, coords={'a': np.zeros(0)})
check(find_missing_cases(empty, method='bogus') == (('a',), ()))
check(find_missing_cases(empty) == (('a',), ()))
# no dimension at all -> the single empty location
scalar = xr.Dataset({'v': ((), np.nan)})
check(find_missing_cases(scalar) == ((), ((),)))
check(find_missing_cases(xr.Dataset({'v': ((), 1.0)})) == ((), ()))
# all dimensions ignored
one = xr.Dataset({'v': (('t',), [np.nan, np.nan])}, coords={'t': [1, 2]})
check(find_missing_cases(one, 't') == ((), ((),)))
check(find_missing_cases(one) == (('t',), ((1,), (2,))))
# a dimension without coordinate values is indexed by position
nocoord = xr.Dataset({'v': (('a',), [np.nan, 1.0, np.nan])})
check(find_missing_cases(nocoord) == (('a',), ((0,), (2,))))
# duplicated coordinate values: looked up by value
dup = xr.Dataset({'v': (('a',), [np.nan, 1.0, np.nan])},
                 coords={'a': [1, 1, 2]})
check(find_missing_cases(dup) == (('a',), ((2,),)))
# not a dataset
raises(AttributeError, find_missing_cases, None)

# --------------------------------------------------------------------------- #
# harvesting: add_ds in all its option combinations                           #
# --------------------------------------------------------------------------- #


def fn(a, b, t):
    return a + b, (a * b) * np.asarray(t, dtype=float)


def new_runner(f=fn):
    return Runner(f, var_names=['s', 'p'], fn_args=['a', 'b'],
                  var_dims={'p': ['t']}, constants={'t': [1.0, 2.0]})


def listing(d):
    return sorted(os.listdir(d))


def file_missing(path):
    with xyzpy.load_ds(path) as on_disk:
        return find_missing_cases(on_disk, ignore_dims='t')


tmpdir = tempfile.mkdtemp(prefix='xyzpy-c13-demo-')
try:
    # ---- the find -> harvest -> find loop, in memory and on disk -----------
    for k, (data_name, chunks) in enumerate([
        (None, None),
        (os.path.join(tmpdir, 'loop.h5'), None),
        (os.path.join(tmpdir, 'loopchunk.h5'), 1),
    ]):
        h = Harvester(new_runner(), data_name=data_name, chunks=chunks)
        h.harvest_cases([{'a': 1, 'b': 10}, {'a': 2, 'b': 20},
                         {'a': 3, 'b': 10}], verbosity=0)
        rounds = 0
        while True:
            # (data merged with ``chunks`` is lazy: the predicate itself does
            #  not accept that, which the demo also pins down)
            if chunks is not None:
                raises(NotImplementedError, find_missing_cases, h.full_ds,
                       ignore_dims='t')
            fn_args, missing = find_missing_cases(h.full_ds.compute(),
                                                  ignore_dims='t')
            check(fn_args == ('a', 'b'))
            if rounds == 0:
                check(same_cases(missing, [(1, 20), (2, 10), (3, 20)]))
            if not missing:
                break
            # harvest exactly what was reported (as tuples, in that order)
            h.harvest_cases([tuple(int(x) for x in c) for c in missing],
                            verbosity=0)
            # what was just run only has data at exactly those locations
            still = find_missing_cases(h.last_ds, ignore_dims='t')[1]
            check(not set(still) & set(missing))
            check(same_cases(still, [(1, 10), (2, 20), (3, 10)]))
            rounds += 1
        check(rounds == 1)
        full = h.full_ds
        check(full['s'].values.tolist() == [[11, 21], [12, 22], [13, 23]])
        check(full['p'].sel(a=3, b=20).values.tolist() == [60.0, 120.0])
        if data_name is not None:
            check(os.path.basename(data_name) in listing(tmpdir))
            check(not any(f.endswith('.tmp') for f in listing(tmpdir)))
            check(file_missing(data_name) == (('a', 'b'), ()))
        full.close()
    check(listing(tmpdir) == ['loop.h5', 'loopchunk.h5'])

    # ---- harvest_combos, including ``...`` = what the dataset already has --
    path = os.path.join(tmpdir, 'combos.h5')
    h = Harvester(new_runner(), data_name=path)
    h.harvest_combos({'a': [1, 2], 'b': [10]}, verbosity=0)
    h.harvest_combos({'a': [3], 'b': [30]}, verbosity=0)
    check(same_cases(find_missing_cases(h.full_ds, 't')[1],
                     [(1, 30), (2, 30), (3, 10)]))
    h.harvest_combos([('a', ...), ('b', [30])], overwrite=False, verbosity=0)
    check(same_cases(find_missing_cases(h.full_ds, 't')[1], [(3, 10)]))
    h.harvest_combos({'b': ..., 'a': [3]}, overwrite=True, verbosity=0)
    # (the newer data comes first when overwriting: its dimension order wins)
    check(find_missing_cases(h.full_ds, 't') == (('b', 'a'), ()))
    check(file_missing(path) == (('b', 'a'), ()))
    check(h.last_ds['s'].dims == ('b', 'a'))
    h.full_ds.close()

    # ---- overwrite = None / True / False on conflicting data ---------------
    def fn2(a, b, t):
        return 1000 + a + b, -(a * b) * np.asarray(t, dtype=float)

    for sync, data_name in [(True, None), (False, None),
                            (True, os.path.join(tmpdir, 'over.h5')),
                            (False, os.path.join(tmpdir, 'nosync.h5'))]:
        h = Harvester(new_runner(), data_name=data_name)
        h.harvest_cases([(1, 10), (2, 20)], sync=sync, verbosity=0)
        on_disk = sync and data_name is not None
        if data_name is not None:
            check(os.path.exists(data_name) == on_disk)
        h.runner.fn = fn2
        check(h.fn is fn2)
        # (1, 10) clashes, (1, 20) is new
        e = raises(xr.MergeError, h.harvest_cases, [(1, 10), (1, 20)],
                   sync=sync, verbosity=0)
        check(same_cases(find_missing_cases(h.full_ds, 't')[1],
                         [(1, 20), (2, 10)]))
        check(int(h.full_ds['s'].sel(a=1, b=10)) == 11)
        if on_disk:
            check(file_missing(data_name)[1] == ((1, 20), (2, 10)))
        h.harvest_cases([(1, 10), (1, 20)], sync=sync, overwrite=False,
                        verbosity=0)
        check(same_cases(find_missing_cases(h.full_ds, 't')[1], [(2, 10)]))
        check(int(h.full_ds['s'].sel(a=1, b=10)) == 11)
        check(int(h.full_ds['s'].sel(a=1, b=20)) == 1021)
        h.harvest_cases([(1, 10), (2, 10)], sync=sync, overwrite=True,
                        verbosity=0)
        check(find_missing_cases(h.full_ds, 't')[1] == ())
        check(int(h.full_ds['s'].sel(a=1, b=10)) == 1011)
        check(int(h.full_ds['s'].sel(a=2, b=20)) == 22)
        check(h.full_ds['p'].sel(a=2, b=10).values.tolist() == [-20., -40.])
        check(h.last_ds is h.runner.last_ds)
        check(h.full_ds is not h.last_ds)
        if data_name is not None:
            check(os.path.exists(data_name) == on_disk)
        if on_disk:
            check(file_missing(data_name) == (('a', 'b'), ()))
        check(not any(f.endswith('.tmp') for f in listing(tmpdir)))
        if h._full_ds is not None:
            h._full_ds.close()
    check('nosync.h5' not in listing(tmpdir))

    # ---- add_ds directly: DataArray input, first data is deep-copied, the
    #      file is re-read before merging (two harvesters, one file) ----------
    path = os.path.join(tmpdir, 'shared.h5')
    h1 = Harvester(new_runner(), data_name=path)
    h2 = Harvester(new_runner(), data_name=path)
    da = xr.DataArray([[1.0, np.nan], [np.nan, np.nan]], dims=('a', 'b'),
                      coords={'a': [1, 2], 'b': [10, 20]}, name='s')
    check(h1.add_ds(da) is None)
    check(list(h1.full_ds.data_vars) == ['s'])
    check(find_missing_cases(h1.full_ds)[1] == ((1, 20), (2, 10), (2, 20)))
    h1.full_ds.close()
    new = xr.Dataset({'s': (('a', 'b'), [[np.nan, 5.0]])},
                     coords={'a': [2], 'b': [10, 20]})
    h2.add_ds(new)                      # h2 never saw h1's data except on disk
    check(find_missing_cases(h2.full_ds)[1] == ((1, 20), (2, 10)))
    h2.full_ds.close()
    h1.add_ds(xr.Dataset({'s': (('a', 'b'), [[7.0], [8.0]])},
                         coords={'a': [1, 2], 'b': [30]}), sync=False)
    # not synced: h1 still has its own stale view plus the new column
    check(find_missing_cases(h1.full_ds)[1] == ((1, 20), (2, 10), (2, 20)))
    check(file_missing(path)[1] == ((1, 20), (2, 10)))
    h1.full_ds.close()

    mem = Harvester(new_runner())
    first = xr.Dataset({'s': (('a',), [1.0, np.nan])}, coords={'a': [1, 2]})
    mem.add_ds(first)
    check(mem.full_ds is not first and mem.full_ds.identical(first))
    first['s'].values[1] = 3.0
    check(find_missing_cases(mem.full_ds) == (('a',), ((2,),)))
    mem.add_ds(first, chunks={'a': 1})
    check(mem.full_ds.chunks == {'a': (1, 1)})
    check(find_missing_cases(mem.full_ds.compute()) == (('a',), ()))
    raises(AttributeError, mem.add_ds, None)
    raises(AttributeError, mem.add_ds, None, sync=False)

    # errors in preparing the new data come before the file is touched
    path = os.path.join(tmpdir, 'untouched.h5')
    hh = Harvester(new_runner(), data_name=path)
    raises(AttributeError, hh.add_ds, 'not a dataset')
    check(not os.path.exists(path))
    # no data_name at all but asked to save explicitly
    raises(xyzpy.gen.prepare.XYZError, mem.save_full_ds)

    check(listing(tmpdir) == ['combos.h5', 'loop.h5', 'loopchunk.h5',
                              'over.h5', 'shared.h5'])
finally:
    shutil.rmtree(tmpdir, ignore_errors=True)

check(not os.path.exists(tmpdir))
print('{} checks'.format(CHECKS))
print('PASS')
