"""Demo / behaviour check for property C16 (cluster scripts and the grow CLI
grow exactly the intended batches).

Run as:  cd <worktree> && /venv/bin/python /path/to/demo.py

Every generated submission script is really executed with ``bash`` using stub
scheduler variables, all files live in temporary directories.

Focus of refactoring t2: the module level ``cropping.grow`` function (what every
array task and ``Crop.grow`` runs): file locations and MPI rank detection, see
``direct_grow_checks``; the executed scripts of ``main_matrix`` go through it too.
"""
import os
import re
import sys
import shutil
import subprocess
import tempfile
import warnings

WORKTREE = os.getcwd()
sys.path.insert(0, WORKTREE)

import xyzpy  # noqa: E402
from xyzpy.gen import cropping  # noqa: E402
from xyzpy.gen.cropping import Crop, BTCH_NM, RSLT_NM, read_from_disk  # noqa

assert os.path.dirname(os.path.dirname(os.path.abspath(xyzpy.__file__))) == (
    os.path.abspath(WORKTREE)
), xyzpy.__file__

PY = sys.executable
LOGVAR = "XYZ_C16_DEMO_LOG"
TASK_VAR = {
    "sge": "SGE_TASK_ID",
    "pbs": "PBS_ARRAY_INDEX",
    "slurm": "SLURM_ARRAY_TASK_ID",
}
ARRAY_RE = {
    "sge": r"^#\$ -t (\d+)-(\d+)$",
    "pbs": r"^#PBS -J (\d+)-(\d+)$",
    "slurm": r"^#SBATCH --array=(\d+)-(\d+)$",
}
NCHECKS = [0]


def check(cond, msg):
    NCHECKS[0] += 1
    if not cond:
        print("FAIL:", msg)
        sys.exit(1)


def fn(a, b):
    # record every evaluation so that 'each batch grown exactly once' can
    # be checked across processes (pickled by value with cloudpickle)
    import os

    with open(os.environ["XYZ_C16_DEMO_LOG"], "a") as f:
        f.write("%d,%d\n" % (a, b))
    return 100 * a + b + 0.5


def sub_env(tdir, log, **extra):
    env = {
        k: v
        for k, v in os.environ.items()
        if k not in TASK_VAR.values()
        and k not in ("OMPI_COMM_WORLD_RANK", "PMI_RANK")
    }
    env["PYTHONPATH"] = WORKTREE
    env["HOME"] = tdir
    env[LOGVAR] = log
    env.update(extra)
    return env


def make_crop(tdir, name, nb, ragged):
    """Sow a crop with exactly ``nb`` batches."""
    if ragged:
        # last batch is only partially filled
        combos = {"a": list(range(2 * nb - 1)), "b": [7]}
        bs = 2
    else:
        combos = {"a": list(range(nb)), "b": [1, 2, 3]}
        bs = 3
    crop = Crop(fn=fn, name=name, parent_dir=tdir, batchsize=bs)
    crop.sow_combos(combos)
    check(crop.num_batches == nb, "num_batches")
    check(crop.num_sown_batches == nb, "num_sown_batches")
    expected = tuple(
        tuple(100 * a + b + 0.5 for b in combos["b"]) for a in combos["a"]
    )
    return crop, expected


def result_ids(crop):
    ids = set()
    for f in os.listdir(os.path.join(crop.location, "results")):
        m = re.fullmatch(RSLT_NM.format(r"(\d+)"), f)
        check(m is not None, "unexpected file in results: " + f)
        ids.add(int(m.group(1)))
    return ids


def batch_cases(crop, i):
    cases = read_from_disk(
        os.path.join(crop.location, "batches", BTCH_NM.format(i))
    )
    return [(c["a"], c["b"]) for c in cases]


def read_log(log):
    if not os.path.exists(log):
        return []
    with open(log) as f:
        return [tuple(map(int, ln.split(","))) for ln in f.read().split()]


def check_shell_and_python(script, scheduler, task):
    """The script must be valid bash and the embedded program valid python."""
    r = subprocess.run(
        ["bash", "-n"], input=script, text=True, capture_output=True
    )
    check(r.returncode == 0, "bash -n failed: " + r.stderr)
    lines = script.split("\n")
    i0 = lines.index("read -r -d '' SCRIPT << EOM")
    i1 = lines.index("EOM")
    check(i0 < i1, "heredoc")
    prog = "\n".join(lines[i0 + 1:i1])
    prog = prog.replace("$" + TASK_VAR[scheduler], str(task))
    check("$" not in prog, "unexpanded shell variable in python program")
    compile(prog, "<embedded>", "exec")
    check(lines[0] == "#!/bin/bash -l", "shebang")
    check(lines[i1 + 1].endswith(' -c "$SCRIPT"'), "launcher line")
    check(lines[i1 + 2] == "echo 'XYZPY script finished'", "last line")


def run_script(script, tdir, log, scheduler, task=None):
    path = os.path.join(tdir, "job-%s.sh" % scheduler)
    with open(path, "w") as f:
        f.write(script)
    extra = {}
    if task is not None:
        extra[TASK_VAR[scheduler]] = str(task)
    r = subprocess.run(
        ["bash", path],
        env=sub_env(tdir, log, **extra),
        capture_output=True,
        text=True,
        cwd=tdir,
    )
    os.remove(path)
    ok = (
        r.returncode == 0
        and "Traceback" not in r.stderr
        and "XYZPY script starting..." in r.stdout
        and "XYZPY script finished" in r.stdout
        and "WORKTREE-OK" in r.stdout
    )
    check(ok, "script run failed:\n%s\n%s\n%s" % (script, r.stdout, r.stderr))
    return r


SETUP = (
    "import xyzpy, os; print('WORKTREE-OK' if "
    "os.path.dirname(os.path.dirname(os.path.abspath(xyzpy.__file__))) == "
    "os.environ['PYTHONPATH'] else 'WRONG-XYZPY')"
)


CLI_PROG = (
    "import os, sys, xyzpy.gen.xyzpy_grow_cli as m\n"
    "sys.argv[0] = 'xyzpy-grow'\n"
    "ok = os.path.abspath(m.__file__).startswith(os.environ['PYTHONPATH'])\n"
    "print('WORKTREE-OK' if ok else 'WRONG-XYZPY')\n"
    "m.main()\n"
)


def run_config(scheduler, mode, state, nb, ragged, explicit, pre, opts,
               header_checks=()):
    """Generate + execute the script(s) for one configuration.

    state: 'fresh' (no results), 'some' (``pre`` already grown),
    explicit: None or tuple of batch ids to request explicitly.
    """
    tdir = tempfile.mkdtemp(prefix="xyz-c16-")
    try:
        name = "crop_%s_%s" % (scheduler, mode)
        crop, expected = make_crop(tdir, name, nb, ragged)
        log = os.path.join(tdir, "calls.log")
        prelog = os.path.join(tdir, "pre.log")

        check(crop.missing_results() == tuple(range(1, nb + 1)), "missing0")
        check(crop.num_results == 0, "num_results0")
        check(not crop.is_ready_to_reap(), "ready0")

        if pre:
            os.environ[LOGVAR] = prelog
            crop.grow(tuple(pre))
            del os.environ[LOGVAR]
        check(result_ids(crop) == set(pre), "pre-grown")
        check(crop.num_results == len(pre), "num_results1")
        missing = tuple(i for i in range(1, nb + 1) if i not in pre)
        check(crop.missing_results() == missing, "missing1")

        target = tuple(explicit) if explicit is not None else missing

        kws = dict(
            mode=mode,
            conda_env=False,
            launcher=PY,
            setup=SETUP,
            output_directory=os.path.join(tdir, "sched_output"),
        )
        kws.update(opts)
        with warnings.catch_warnings():
            warnings.simplefilter("ignore")
            script = crop.gen_cluster_script(
                scheduler=scheduler, batch_ids=explicit, **kws
            )
            # the scheduler specific shortcuts must agree
            script_b = getattr(crop, "gen_%s_script" % scheduler)(
                batch_ids=explicit, **kws
            )
            script_c = cropping.gen_cluster_script(
                crop, scheduler.upper(), explicit, **kws
            )
        check(script == script_b == script_c, "shortcut methods differ")
        for hc in header_checks:
            check(hc in script.split("\n"), "missing header line %r in\n%s"
                  % (hc, script))

        # header range
        ms = re.findall(ARRAY_RE[scheduler], script, flags=re.M)
        if mode == "single":
            check(ms == [], "array header in single mode")
            check(TASK_VAR[scheduler] not in script, "task var, single mode")
            tasks = [None]
        elif scheduler == "pbs" and len(target) == 1:
            check(ms == [], "pbs size-1 array must have no -J header")
            check("PBS_ARRAY_INDEX" not in script, "pbs size-1 index")
            tasks = [None]
        else:
            check(len(ms) == 1, "exactly one array header")
            lo, hi = map(int, ms[0])
            check((lo, hi) == (1, len(target)), "array range %s" % (ms,))
            tasks = list(range(lo, hi + 1))

        check_shell_and_python(script, scheduler, tasks[0] or 1)

        # run every task, in reversed order for good measure
        grown = []
        for t in reversed(tasks):
            before = result_ids(crop)
            r = run_script(script, tdir, log, scheduler, task=t)
            new = result_ids(crop) - before
            check(result_ids(crop) >= before, "results vanished")
            if mode == "array":
                check(len(new) == 1, "array task grew %s" % (new,))
                (i,) = new
                check(i == target[(t or 1) - 1], "wrong batch for task")
                check("xyzpy: loaded batch %d of %s." % (i, name) in r.stdout,
                      "loaded message")
                check("xyzpy: success - batch %d completed." % i in r.stdout,
                      "success message")
            grown.extend(sorted(new))
        check(sorted(grown) == sorted(set(target)), "grown %s vs target %s"
              % (grown, target))
        check(result_ids(crop) == set(pre) | set(target), "final result set")

        # each requested batch evaluated exactly once
        want = sorted(c for i in target for c in batch_cases(crop, i))
        check(sorted(read_log(log)) == want, "call log %s != %s"
              % (sorted(read_log(log)), want))

        # now use the command line grower for anything left over
        still = tuple(
            i for i in range(1, nb + 1) if i not in set(pre) | set(target)
        )
        check(crop.missing_results() == still, "missing2")
        check(crop.is_ready_to_reap() == (not still), "ready2")
        if still:
            clilog = os.path.join(tdir, "cli.log")
            r = subprocess.run(
                [PY, "-c", CLI_PROG, name,
                 "--parent-dir", tdir, "--verbosity", "0"],
                env=sub_env(tdir, clilog), capture_output=True, text=True,
                cwd=tdir,
            )
            check(r.returncode == 0 and "Done!" in r.stdout
                  and "WORKTREE-OK" in r.stdout and "Growing:" in r.stdout,
                  "cli failed: " + r.stdout + r.stderr)
            want = sorted(c for i in still for c in batch_cases(crop, i))
            check(sorted(read_log(clilog)) == want, "cli call log")

        check(crop.missing_results() == (), "missing3")
        check(crop.num_results == nb, "num_results3")
        check(crop.is_ready_to_reap(), "ready3")
        # nothing was evaluated twice overall
        allcalls = read_log(log) + read_log(prelog) + read_log(
            os.path.join(tdir, "cli.log"))
        check(len(allcalls) == len(set(allcalls)) == sum(map(len, expected)),
              "some case evaluated more than once")
        got = crop.reap_combos()
        check(got == expected, "reaped results %s != %s" % (got, expected))
        check(not os.path.exists(crop.location), "crop cleaned up")
    finally:
        shutil.rmtree(tdir, ignore_errors=True)


def main_matrix():
    scheds = ("sge", "pbs", "slurm")
    # (mode, state, nb, ragged, explicit, pre, opts, header_checks by sched)
    table = [
        ("array", "fresh", 3, False, None, (), dict(minutes=20), {
            "sge": ["#$ -l h_rt=0:20:0,mem=NoneG"],
            "pbs": ["#PBS -lwalltime=00:20:00"],
            "slurm": ["#SBATCH --time=00:20:00"]}),
        ("array", "fresh", 1, True, None, (), dict(
            hours=2, seconds=5, gigabytes=4, num_procs=1, num_nodes=1), {
            "sge": ["#$ -l h_rt=2:0:5,mem=4G", "#$ -pe smp 1"],
            "pbs": ["#PBS -lselect=1:ncpus=1:mem=4gb",
                    "#PBS -lwalltime=02:00:05"],
            "slurm": ["#SBATCH --time=02:00:05", "#SBATCH --mem=4G",
                      "#SBATCH --nodes=1", "#SBATCH --cpus-per-task=1"]}),
        ("array", "some", 4, True, None, (2,), dict(
            time=3, mem=8, gpu=1, requeue=None, exclusive=True), {
            "sge": ["#$ -l h_rt=3:0:0,mem=8G", "#$ -l gpu=1",
                    "#$ -l requeue", "#$ -l exclusive"],
            "pbs": ["#PBS -lwalltime=03:00:00", "#PBS -l gpu=1",
                    "#PBS -l requeue", "#PBS -l exclusive"],
            "slurm": ["#SBATCH --time=03:00:00", "#SBATCH --mem=8G",
                      "#SBATCH --gpu=1", "#SBATCH --requeue",
                      "#SBATCH --exclusive"]}),
        ("array", "some", 5, False, None, (1, 2, 3, 5), dict(mpi=True), {
            "sge": ["#$ -pe mpi None"]}),
        ("array", "explicit", 4, False, (3, 1), (), dict(
            num_workers=2, num_procs=2, hours=1), {
            "sge": ["#$ -pe smp 2"],
            "slurm": ["#SBATCH --cpus-per-task=2"]}),
        ("array", "explicit", 2, True, [2], (1,), dict(
            debugging=True, shell_setup="export FOO=1"), {
            "sge": ["export FOO=1"], "pbs": ["export FOO=1"],
            "slurm": ["export FOO=1"]}),
        ("array", "explicit", 3, True, (1, 2, 3), (), {}, {}),
        ("single", "fresh", 2, False, None, (), dict(
            time=1.5, mem_per_cpu=2), {
            "slurm": ["#SBATCH --time=1.5:00:00",
                      "#SBATCH --mem-per-cpu=2G"]}),
        ("single", "some", 8, True, None, (1, 4, 6, 7, 8), dict(
            num_workers=2, num_procs=4, num_threads=2), {
            "sge": ["export OMP_NUM_THREADS=2"]}),
        ("single", "explicit", 3, False, (3,), (), dict(mem="16"), {
            "sge": ["#$ -l h_rt=1:0:0,mem=16G"],
            "slurm": ["#SBATCH --mem=16"]}),
        ("single", "explicit", 3, True, [2, 3], (1,), dict(
            num_procs=3), {"slurm": ["export NUMBA_NUM_THREADS=3"]}),
    ]
    n = 0
    for mode, state, nb, ragged, explicit, pre, opts, hcs in table:
        for s in scheds:
            run_config(s, mode, state, nb, ragged, explicit, pre, opts,
                       hcs.get(s, ()))
            n += 1
    return n


def argument_checks():
    tdir = tempfile.mkdtemp(prefix="xyz-c16-")
    try:
        crop, _ = make_crop(tdir, "argc", 2, False)
        for bad in (dict(scheduler="lsf"), dict(scheduler="sge", mode="x"),
                    dict(scheduler="slurm", time=1, hours=1),
                    dict(scheduler="slurm", mem=1, gigabytes=1),
                    dict(scheduler="pbs", mem=1, gigabytes=1),
                    dict(scheduler="sge", conda_env=3)):
            try:
                crop.gen_cluster_script(**bad)
            except ValueError:
                check(True, "")
            else:
                check(False, "no ValueError for %s" % (bad,))
        # batch ids text, all three array flavours
        kw = dict(conda_env=False, output_directory=tdir)
        for s in TASK_VAR:
            v = "$" + TASK_VAR[s]
            a = crop.gen_cluster_script(s, **kw)
            check("    grow(%s, **grow_kwargs)\n" % v in a, "all line " + s)
            check("batch_ids" not in a, "no batch_ids in 'all' script")
            p = crop.gen_cluster_script(s, [2, 1], **kw)
            check("    batch_ids = (2, 1)\n    grow(batch_ids[%s - 1], "
                  "**grow_kwargs)\n" % v in p, "partial lines " + s)
            g = ("    grow_kwargs = dict(crop=crop, debugging=False, "
                 "num_workers=None)\n")
            check(g in a and g in p, "grow_kwargs line")
            q = crop.gen_cluster_script(s, [2, 1], mode="single", **kw)
            check("    batch_ids = (2, 1)\n    crop.grow(batch_ids, "
                  "num_workers=None)\nEOM\n" in q, "single explicit " + s)
            q = crop.gen_cluster_script(s, mode="single", **kw)
            check("    batch_ids = crop.missing_results()\n    crop.grow("
                  "batch_ids, num_workers=None)\nEOM\n" in q, "single dyn")
            check(("    crop = Crop(name='argc', parent_dir='%s')\n"
                   % os.path.realpath(tdir)) in q, "crop line")
            check("cd %s\n" % os.path.realpath(tdir) in q, "cd line")
    finally:
        shutil.rmtree(tdir, ignore_errors=True)


def direct_grow_checks():
    """Call ``cropping.grow`` (what every array task runs) directly."""
    import io
    import logging
    import contextlib
    from xyzpy.gen.cropping import XYZError

    def grow_out(*args, **kwargs):
        buf = io.StringIO()
        with contextlib.redirect_stdout(buf), contextlib.redirect_stderr(
            io.StringIO()
        ):
            cropping.grow(*args, **kwargs)
        return buf.getvalue()

    def res_file(crop, i):
        return os.path.join(crop.location, "results", RSLT_NM.format(i))

    def want(crop, i, f=lambda a, b: 100 * a + b + 0.5):
        return tuple(f(a, b) for a, b in batch_cases(crop, i))

    tdir = tempfile.mkdtemp(prefix="xyz-c16-")
    cwd = os.getcwd()
    saved = {k: os.environ.pop(k, None)
             for k in ("OMPI_COMM_WORLD_RANK", "PMI_RANK")}
    os.environ[LOGVAR] = os.path.join(tdir, "direct.log")
    root_level = logging.getLogger().level
    try:
        crop, expected = make_crop(tdir, "direct", 5, True)

        # default: sequential, function loaded from disk, verbose
        out = grow_out(1, crop=crop)
        check(out == "xyzpy: loaded batch 1 of direct.\n"
              "xyzpy: success - batch 1 completed.\n", "messages: %r" % out)
        check(read_from_disk(res_file(crop, 1)) == want(crop, 1), "res 1")
        check(result_ids(crop) == {1}, "only batch 1")

        # explicit function, quiet, debugging
        out = grow_out(2, crop=crop, fn=lambda a, b: (b, a), verbosity=0,
                       debugging=True)
        check(out == "", "quiet")
        check(logging.getLogger().level == logging.DEBUG, "debug level")
        logging.getLogger().setLevel(root_level)
        check(read_from_disk(res_file(crop, 2))
              == want(crop, 2, lambda a, b: (b, a)), "res 2 custom fn")
        os.remove(res_file(crop, 2))

        # mpi rank detection: only rank 0 saves
        os.environ["OMPI_COMM_WORLD_RANK"] = "1"
        os.environ["PMI_RANK"] = "0"
        out = grow_out(2, crop=crop, verbosity=1)
        check("xyzpy: detected mpi rank 1.\n" in out, "ompi rank 1: " + out)
        check(result_ids(crop) == {1}, "rank 1 must not save")
        out = grow_out(2, crop=crop, verbosity=1, check_mpi=False)
        check("detected mpi" not in out, "check_mpi=False")
        check(result_ids(crop) == {1, 2}, "check_mpi=False saves")
        del os.environ["OMPI_COMM_WORLD_RANK"]
        out = grow_out(3, crop=crop, verbosity=1)
        check("xyzpy: detected mpi rank 0.\n" in out, "pmi rank 0")
        check(result_ids(crop) == {1, 2, 3}, "pmi rank 0 saves")
        os.environ["PMI_RANK"] = "3"
        out = grow_out(4, crop=crop, verbosity=0)
        check(out == "" and result_ids(crop) == {1, 2, 3}, "pmi rank 3")
        del os.environ["PMI_RANK"]
        os.environ["OMPI_COMM_WORLD_RANK"] = "0"
        out = grow_out(4, crop=crop, num_workers=2)
        check("xyzpy: detected mpi rank 0.\n" in out, "ompi rank 0")
        check(read_from_disk(res_file(crop, 4)) == want(crop, 4), "res 4")
        del os.environ["OMPI_COMM_WORLD_RANK"]

        # no crop given: location inferred from the working directory
        os.chdir(tdir)
        try:
            grow_out(5)
        except XYZError:
            check(True, "")
        else:
            check(False, "XYZError expected outside crop folder")
        check(result_ids(crop) == {1, 2, 3, 4}, "nothing grown")
        os.chdir(crop.location)
        out = grow_out(5, verbosity=1)
        check(out == "xyzpy: loaded batch 5 of direct.\n"
              "xyzpy: success - batch 5 completed.\n", "cwd msgs: %r" % out)
        os.chdir(cwd)
        check(read_from_disk(res_file(crop, 5)) == want(crop, 5), "res 5")
        for i in (2, 3):
            check(read_from_disk(res_file(crop, i)) == want(crop, i), "res")
        check(crop.is_ready_to_reap(), "ready")
        check(crop.reap_combos() == expected, "direct reap")
    finally:
        os.chdir(cwd)
        logging.getLogger().setLevel(root_level)
        os.environ.pop(LOGVAR, None)
        for k, v in saved.items():
            os.environ.pop(k, None)
            if v is not None:
                os.environ[k] = v
        shutil.rmtree(tdir, ignore_errors=True)


def progress_checks():
    """Bookkeeping that decides which batches are 'currently missing'."""
    tdir = tempfile.mkdtemp(prefix="xyz-c16-")
    os.environ[LOGVAR] = os.path.join(tdir, "progress.log")
    try:
        ghost = Crop(name="ghost", parent_dir=tdir)
        ghost.calc_progress()
        check(ghost._num_sown_batches == -1 and ghost._num_results == -1,
              "unprepared crop")
        check(ghost.num_results == -1 and ghost.num_sown_batches == -1, "-1")
        check(not ghost.is_ready_to_reap() and not ghost.is_prepared(), "gh")

        for nb in range(1, 9):
            crop, expected = make_crop(tdir, "prog%d" % nb, nb, nb % 2 == 0)
            done = set()
            for i in list(range(nb, 0, -2)) + list(range(nb - 1, 0, -2)):
                miss = tuple(j for j in range(1, nb + 1) if j not in done)
                check(crop.missing_results() == miss, "missing")
                check(isinstance(crop.missing_results(), tuple), "tuple")
                check(crop.num_results == len(done), "num_results")
                check(crop.num_sown_batches == nb, "num_sown")
                check(not crop.is_ready_to_reap(), "not ready")
                crop.grow(i)
                done.add(i)
            check(crop.missing_results() == (), "none missing")
            check(crop.is_ready_to_reap(), "ready")
            # a second Crop object looking at the same folder agrees
            other = Crop(name="prog%d" % nb, parent_dir=tdir)
            check(other.missing_results() == (), "other missing")
            check(other.num_results == nb == other.num_sown_batches, "other")
            # removing a result makes it missing again -> grow_missing
            k = (nb + 1) // 2
            os.remove(os.path.join(crop.location, "results",
                                   RSLT_NM.format(k)))
            check(other.missing_results() == (k,), "missing again")
            check(not other.is_ready_to_reap(), "not ready again")
            other.grow_missing()
            check(other.missing_results() == (), "regrown")
            check(crop.reap_combos() == expected, "progress reap")
    finally:
        os.environ.pop(LOGVAR, None)
        shutil.rmtree(tdir, ignore_errors=True)


if __name__ == "__main__":
    # progress bars go to stderr: silence them, report errors on stdout
    sys.stderr = open(os.devnull, "w")
    try:
        argument_checks()
        progress_checks()
        direct_grow_checks()
        n = main_matrix()
    except Exception:
        import traceback

        traceback.print_exc(file=sys.stdout)
        print("FAIL")
        sys.exit(1)
    print("configurations executed: %d, checks: %d" % (n, NCHECKS[0]))
    print("PASS")
