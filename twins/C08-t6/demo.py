"""Demo for the C08 twin t6 (progress queries / check_bad path helpers).

Run as:  cd <worktree> && /venv/bin/python /path/to/demo.py

Drives crops of 1..8 batches through random sequences of sow / re-sow /
grow / grow subset / grow_missing / failing grow / delete result /
check_bad / reload / query, and after every step compares everything the
crop reports against a model and against the files really on disk.
"""
import os
import sys

sys.path.insert(0, os.getcwd())

import glob
import pickle
import random
import shutil
import tempfile

import xyzpy
from xyzpy.gen import cropping
from xyzpy.gen.farming import XYZError

assert os.path.dirname(os.path.abspath(xyzpy.__file__)).startswith(
    os.getcwd()
), xyzpy.__file__


class Boom(Exception):
    pass


def make_fn(version, bad=()):
    bad = tuple(bad)

    def fn(a):
        if a in bad:
            raise Boom(a)
        return (version, a, a * a)

    return fn


def listing(crop, sub):
    return sorted(os.listdir(os.path.join(crop.location, sub)))


def chunks(n_batches, batchsize, remainder, n):
    """Settings (values of ``a``) expected in every batch."""
    out, start = {}, 0
    for i in range(1, n_batches + 1):
        size = batchsize + (1 if (i - 1) < remainder else 0)
        out[i] = list(range(start, min(start + size, n)))
        start += size
    assert start >= n
    return {i: v for i, v in out.items() if v}


class Model:
    """What must be true on disk."""

    def __init__(self):
        self.batches = {}  # id -> list of a
        self.results = {}  # id -> expected tuple of results (or 'BAD')


def check_state(crop, model, where):
    nb = len(model.batches)
    want_batches = sorted("xyz-batch-{}.jbdmp".format(i) for i in model.batches)
    want_results = sorted("xyz-result-{}.jbdmp".format(i) for i in model.results)
    assert listing(crop, "batches") == want_batches, (where, listing(crop, "batches"))
    assert listing(crop, "results") == want_results, (where, listing(crop, "results"))
    # no temporary files, nothing else in the crop directory
    assert sorted(os.listdir(crop.location)) == sorted(
        ["batches", "results", "xyz-settings.jbdmp", "xyz-function.clpkl"]
    ), (where, os.listdir(crop.location))

    for i, a_s in model.batches.items():
        with open(os.path.join(crop.location, "batches", "xyz-batch-{}.jbdmp".format(i)), "rb") as f:
            assert pickle.load(f) == [{"a": a} for a in a_s], (where, i)
    for i, res in model.results.items():
        if isinstance(res, tuple):
            with open(os.path.join(crop.location, "results", "xyz-result-{}.jbdmp".format(i)), "rb") as f:
                got = pickle.load(f)
            assert got == res and isinstance(got, tuple), (where, i, got, res)

    missing = tuple(i for i in range(1, nb + 1) if i not in model.results)
    assert crop.num_sown_batches == nb, (where, crop.num_sown_batches, nb)
    assert crop.num_results == len(model.results), where
    assert crop._num_sown_batches == nb and crop._num_results == len(model.results)
    got_missing = crop.missing_results()
    assert got_missing == missing and isinstance(got_missing, tuple), (where, got_missing, missing)
    ready = crop.is_ready_to_reap()
    assert ready is (len(missing) == 0 and nb > 0), (where, ready, missing)
    assert crop.is_prepared() is True
    assert crop.num_batches == nb, (where, crop.num_batches, nb)

    text = str(crop)
    assert "{} / {} batches of size {} completed".format(
        len(model.results), nb, crop.batchsize
    ) in text, (where, text)
    pct = 100 * len(model.results) / nb
    assert ": {:.1f}%".format(pct) in text, (where, text)
    assert "[" + "#" * int(pct * 20 / 100) + " " * (20 - int(pct * 20 / 100)) + "]" in text


def sow(crop, model, n, version, keep_results, **opts):
    crop.fn = make_fn(version)
    crop.sow_combos({"a": list(range(n))}, verbosity=0, **opts)
    model.batches = chunks(crop.num_batches, crop.batchsize, crop._batch_remainder, n)
    assert len(model.batches) == crop.num_batches
    if not keep_results:
        model.results = {}


def expected_result(model, i, version):
    return tuple((version, a, a * a) for a in model.batches[i])


def run_sequence(rng, tmp, seq_no):
    n_batches = rng.randint(1, 8)
    per = rng.randint(1, 3)
    n = n_batches * per - (rng.randint(0, per - 1) if n_batches > 1 else 0)
    n = max(n, n_batches)
    name = "seq{}".format(seq_no)
    version = 0
    model = Model()

    crop = xyzpy.Crop(name=name, parent_dir=tmp, fn=make_fn(version))
    # before any sow nothing is reported
    assert crop.is_prepared() is False
    assert crop.num_sown_batches == -1 and crop.num_results == -1
    assert crop.is_ready_to_reap() is False
    assert "Not yet sown" in str(crop)
    try:
        crop.missing_results()
    except TypeError:
        pass
    else:
        raise AssertionError("missing_results of an unsown crop")

    if rng.random() < 0.5:
        sow(crop, model, n, version, False, num_batches=n_batches)
    else:
        sow(crop, model, n, version, False, batchsize=per)
    check_state(crop, model, (seq_no, "sow"))
    nb = len(model.batches)

    ops = ["resow", "grow", "subset", "grow_missing", "fail", "delete",
           "check_bad", "reload", "query", "corrupt"]
    for step in range(rng.randint(4, 12)):
        op = rng.choice(ops)
        where = (seq_no, step, op)
        if op == "resow":
            version += 1
            sow(crop, model, n, version, True)
            assert len(model.batches) == nb
        elif op == "grow":
            i = rng.randint(1, nb)
            if rng.random() < 0.5:
                crop.grow(i)
            else:
                cropping.grow(i, crop=crop, verbosity=0)
            model.results[i] = expected_result(model, i, version)
        elif op == "subset":
            ids = rng.sample(range(1, nb + 1), rng.randint(0, nb))
            crop.grow(tuple(ids))
            for i in ids:
                model.results[i] = expected_result(model, i, version)
        elif op == "grow_missing":
            before = dict(model.results)
            stamps = {
                f: os.stat(os.path.join(crop.location, "results", f)).st_mtime_ns
                for f in listing(crop, "results")
            }
            crop.grow_missing()
            for i in range(1, nb + 1):
                if i not in before:
                    model.results[i] = expected_result(model, i, version)
            # results that existed were not rewritten
            for f, t in stamps.items():
                assert os.stat(os.path.join(crop.location, "results", f)).st_mtime_ns == t, where
            check_state(crop, model, where)
            assert crop.is_ready_to_reap() is True and crop.missing_results() == ()
        elif op == "fail":
            ids = rng.sample(range(1, nb + 1), rng.randint(1, nb))
            k = rng.randrange(len(ids))
            bad_a = rng.choice(model.batches[ids[k]])
            for i in ids[k:]:
                # the failing batch and everything after it: keep what is there
                pass
            stamps = {
                f: os.stat(os.path.join(crop.location, "results", f)).st_mtime_ns
                for f in listing(crop, "results")
            }
            failing = make_fn(version, bad=(bad_a,))
            try:
                if rng.random() < 0.5:
                    old = crop._fn
                    crop._fn = failing
                    try:
                        xyzpy.gen.cropping.combo_runner_core(
                            cropping.grow,
                            combos=(("batch_number", tuple(ids)),),
                            constants={"verbosity": 0, "crop": crop, "fn": failing},
                        )
                    finally:
                        crop._fn = old
                else:
                    for i in ids:
                        cropping.grow(i, crop=crop, fn=failing, verbosity=0)
            except Boom as e:
                assert e.args == (bad_a,)
            else:
                raise AssertionError("failing function did not raise")
            for i in ids[:k]:
                model.results[i] = expected_result(model, i, version)
            # failing batch: untouched
            f = "xyz-result-{}.jbdmp".format(ids[k])
            if f in stamps and ids[k] not in ids[:k]:
                assert os.stat(os.path.join(crop.location, "results", f)).st_mtime_ns == stamps[f]
        elif op == "delete":
            if model.results:
                i = rng.choice(sorted(model.results))
                os.remove(os.path.join(crop.location, "results", "xyz-result-{}.jbdmp".format(i)))
                del model.results[i]
        elif op == "corrupt":
            # a result of the wrong length, or one that cannot be loaded
            if model.results:
                i = rng.choice(sorted(model.results))
                fname = os.path.join(crop.location, "results", "xyz-result-{}.jbdmp".format(i))
                if rng.random() < 0.5:
                    with open(fname, "wb") as f:
                        pickle.dump(expected_result(model, i, version) + ("extra",), f)
                else:
                    with open(fname, "wb") as f:
                        f.write(b"not a pickle")
                model.results[i] = "BAD"
        elif op == "check_bad":
            delete_bad = rng.random() < 0.6
            bad_model = sorted(str(i) for i, r in model.results.items() if r == "BAD")
            import io
            import contextlib
            buf = io.StringIO()
            with contextlib.redirect_stdout(buf):
                bad = crop.check_bad(delete_bad=delete_bad)
            assert isinstance(bad, tuple) and sorted(bad) == bad_model, (where, bad, bad_model)
            lines = buf.getvalue().splitlines()
            assert len(lines) == len(bad_model), (where, lines)
            for line, i in zip(lines, bad):
                fname = os.path.join(crop.location, "results", "xyz-result-{}.jbdmp".format(i))
                start = "result {} is bad".format(fname) + (" - deleting it." if delete_bad else ".")
                assert line.startswith(start), (where, line)
                assert line == start or line.startswith(start + " Error was: "), (where, line)
            if delete_bad:
                for i in bad:
                    del model.results[int(i)]
        elif op == "reload":
            crop = xyzpy.Crop(name=name, parent_dir=tmp)
            assert crop.num_batches == nb
            assert crop.fn(2)[1:] == (2, 4)
        elif op == "query":
            pass
        check_state(crop, model, where)

    # finish: clear bad ones, grow the rest, everything is there
    import io
    import contextlib
    with contextlib.redirect_stdout(io.StringIO()):
        bad = crop.check_bad()
    for i in bad:
        del model.results[int(i)]
    check_state(crop, model, (seq_no, "final check_bad"))
    crop.grow_missing()
    for i in range(1, nb + 1):
        model.results.setdefault(i, expected_result(model, i, version))
    check_state(crop, model, (seq_no, "final"))
    assert crop.is_ready_to_reap() is True
    with contextlib.redirect_stdout(io.StringIO()):
        assert crop.check_bad() == ()
    crop.delete_all()
    assert not os.path.exists(crop.location)
    assert crop.num_sown_batches == -1 and crop.is_ready_to_reap() is False


def special_cases(tmp):
    import io
    import contextlib

    # a location with glob metacharacters
    parent = os.path.join(tmp, "we[i]rd*dir")
    os.makedirs(parent)
    crop = xyzpy.Crop(name="g[1]", parent_dir=parent, fn=make_fn(0), num_batches=3)
    crop.sow_combos({"a": [0, 1, 2, 3, 4]}, verbosity=0)
    assert crop.num_sown_batches == 3 and crop.num_results == 0
    assert crop.missing_results() == (1, 2, 3)
    crop.grow(2)
    assert crop.missing_results() == (1, 3) and crop.num_results == 1
    assert crop.is_ready_to_reap() is False
    with contextlib.redirect_stdout(io.StringIO()):
        assert crop.check_bad() == ()

    # check_bad: result whose batch file is missing -> the batch is read first
    os.remove(os.path.join(crop.location, "batches", "xyz-batch-2.jbdmp"))
    try:
        crop.check_bad()
    except FileNotFoundError as e:
        assert e.filename.endswith(os.path.join("batches", "xyz-batch-2.jbdmp")), e.filename
    else:
        raise AssertionError("check_bad with a missing batch file")
    assert os.path.exists(os.path.join(crop.location, "results", "xyz-result-2.jbdmp"))
    assert crop.num_sown_batches == 2 and crop.num_results == 1
    # ids are still looked for by number, not by sown files
    assert crop.missing_results() == (1, 3)
    assert crop.is_ready_to_reap() is False

    # settings file removed: not prepared any more, progress is -1
    os.remove(os.path.join(crop.location, "xyz-settings.jbdmp"))
    assert crop.num_sown_batches == -1 and crop.num_results == -1
    assert crop.is_ready_to_reap() is False
    # missing_results still answers from the remembered number of batches
    assert crop.missing_results() == (1, 3)
    assert "-1 / 3 batches of size" in str(crop)
    shutil.rmtree(parent)

    # an unreadable bad result, not deleted: message carries the error
    crop = xyzpy.Crop(name="bad", parent_dir=tmp, fn=make_fn(0), batchsize=2)
    crop.sow_combos({"a": [0, 1, 2]}, verbosity=0)
    crop.grow_missing()
    assert crop.is_ready_to_reap() is True
    f2 = os.path.join(crop.location, "results", "xyz-result-2.jbdmp")
    with open(f2, "wb") as f:
        f.write(b"")
    buf = io.StringIO()
    with contextlib.redirect_stdout(buf):
        assert crop.check_bad(delete_bad=False) == ("2",)
    assert buf.getvalue().startswith("result {} is bad. Error was: ".format(f2)), buf.getvalue()
    assert os.path.exists(f2)
    # a bad result still counts as a result file until it is deleted
    assert crop.num_results == 2 and crop.is_ready_to_reap() is True
    buf = io.StringIO()
    with contextlib.redirect_stdout(buf):
        assert crop.check_bad() == ("2",)
    assert buf.getvalue().startswith("result {} is bad - deleting it. Error was: ".format(f2))
    assert not os.path.exists(f2)
    assert crop.missing_results() == (2,) and crop.is_ready_to_reap() is False
    # a too short result
    f1 = os.path.join(crop.location, "results", "xyz-result-1.jbdmp")
    with open(f1, "wb") as f:
        pickle.dump(((0, 0, 0),), f)
    buf = io.StringIO()
    with contextlib.redirect_stdout(buf):
        assert crop.check_bad() == ("1",)
    assert buf.getvalue() == "result {} is bad - deleting it.\n".format(f1)
    assert crop.missing_results() == (1, 2) and crop.num_results == 0
    assert crop.is_ready_to_reap() is False
    crop.grow_missing()
    assert crop.is_ready_to_reap() is True and crop.missing_results() == ()
    crop.delete_all()

    # a crop made from a Runner; a second handle sees the same progress
    runner = xyzpy.Runner(make_fn(7), var_names=["v", "same", "sq"])
    crop = runner.Crop(name="run", parent_dir=tmp, batchsize=2)
    crop.sow_combos({"a": [1, 2, 3, 4, 5]}, verbosity=0)
    other = xyzpy.Crop(name="run", parent_dir=tmp)
    assert other.num_batches == 3 and other.batchsize == 2
    assert other.farmer is not None and other.farmer.fn is other.fn
    other.grow((3, 1))
    assert crop.missing_results() == (2,) and crop.num_results == 2
    assert not crop.is_ready_to_reap()
    crop.grow_missing()
    assert other.is_ready_to_reap() and other.missing_results() == ()
    ds = crop.reap()
    assert ds["sq"].values.tolist() == [1, 4, 9, 16, 25]
    assert not os.path.exists(crop.location)


def main():
    tmp = tempfile.mkdtemp(prefix="c08-t6-")
    try:
        rng = random.Random(8006)
        for seq_no in range(40):
            run_sequence(rng, tmp, seq_no)
        special_cases(tmp)
        leftovers = glob.glob(os.path.join(tmp, "**", "*.tmp"), recursive=True)
        assert not leftovers, leftovers
    finally:
        shutil.rmtree(tmp, ignore_errors=True)
    print("PASS")


if __name__ == "__main__":
    main()
