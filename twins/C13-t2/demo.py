"""Demo / check for refactoring t2 (``find_missing_cases``).

Run as ``cd <worktree> && /venv/bin/python /path/to/demo.py``.

Checks property C13 -- missing-data discovery reports exactly the locations
that have no data -- with the emphasis on ``xyzpy.find_missing_cases``: every
accepted form of ``ignore_dims``, both null criteria, the progress bar switch,
grid ordering / uniqueness / element types of the reported cases, degenerate
grids, and the find -> harvest -> find loop, all against an independent brute
force numpy oracle.
"""
import itertools
import os
import sys
import tempfile
import warnings

sys.path.insert(0, os.getcwd())

import numpy as np
import pandas as pd
import xarray as xr

import xyzpy
from xyzpy import find_missing_cases, is_case_missing, parse_into_cases

assert os.path.abspath(xyzpy.__file__).startswith(os.getcwd()), xyzpy.__file__
warnings.filterwarnings('ignore')


# ------------------------------ the oracle --------------------------------- #

def nodata_mask(values, method):
    """Independent elementwise 'no data' test on a raw numpy array."""
    values = np.asarray(values)
    if method == 'isnull':
        return np.asarray(pd.isnull(values))
    if method == 'isfinite':
        return ~np.isfinite(values.astype(float))
    raise AssertionError(method)


def oracle_is_missing(ds, setting, method):
    """Brute force: positional indexing only, no ``.sel``."""
    if isinstance(ds, xr.DataArray):
        variables = [ds]
    else:
        variables = list(ds.data_vars.values())
    for k, v in setting.items():
        if k in ds.dims and v not in list(ds[k].values):
            return True
    for da in variables:
        index = tuple(
            list(ds[d].values).index(setting[d]) if d in setting
            else slice(None)
            for d in da.dims
        )
        if not nodata_mask(da.values[index], method).all():
            return False
    return True


def oracle_find_missing(ds, ignore, method):
    fn_args = tuple(d for d in ds.dims if d not in ignore)
    grid = itertools.product(*(list(ds[d].values) for d in fn_args))
    return fn_args, tuple(
        case for case in grid
        if oracle_is_missing(ds, dict(zip(fn_args, case)), method)
    )


# --------------------------- random datasets ------------------------------- #

def random_dataset(rng, method, strings=False):
    ndim = rng.integers(1, 5)
    names = ['a', 'b', 'c', 'd'][:ndim]
    coords = {}
    for i, n in enumerate(names):
        size = rng.integers(1, 4)
        if strings and i % 2 == 0:
            coords[n] = ['p', 'q', 'r'][:size]
        else:
            coords[n] = [10 * (i + 1) + j for j in range(size)]
    coords['t'] = [0.1, 0.2, 0.3]
    ds = xr.Dataset(coords=coords)
    shape = tuple(len(coords[n]) for n in names)

    nvar = rng.integers(1, 4)
    for v in range(nvar):
        internal = bool(rng.integers(0, 2))
        kind = rng.integers(0, 3) if method == 'isnull' else 0
        dims = tuple(names) + (('t',) if internal else ())
        shp = shape + ((3,) if internal else ())
        if kind == 2:
            # object (string / None) variable
            data = np.empty(shp, dtype=object)
            data[...] = 'z'
            null = None
        else:
            data = rng.normal(size=shp)
            null = np.nan
        # whole-cell nulls (shared between variables with prob.)
        cellmask = rng.random(shape) < 0.5
        if internal:
            data[cellmask, :] = null
            # partial-cell nulls
            part = rng.random(shp) < 0.2
            data[part] = null
        else:
            data[cellmask] = null
        if method == 'isfinite' and kind == 0:
            # infinities count as no data for isfinite (but not isnull)
            infm = rng.random(shp) < 0.15
            data[infm] = np.inf
        ds['v{}'.format(v)] = (dims, data)

    # make some cells null in every variable so something is missing
    allmask = rng.random(shape) < 0.4
    for name in list(ds.data_vars):
        da = ds[name]
        arr = da.values.copy()
        arr[allmask] = None if arr.dtype == object else np.nan
        ds[name] = (da.dims, arr)
    return ds


def same_cases(got, want):
    assert len(got) == len(want), (got, want)
    for g, w in zip(got, want):
        assert tuple(g) == tuple(w), (got, want)


def check_dataset(ds, method):
    # 1. is_case_missing at every grid location, Dataset and DataArray forms
    fn_args = tuple(d for d in ds.dims if d != 't')
    nmiss = 0
    for case in itertools.product(*(list(ds[d].values) for d in fn_args)):
        setting = dict(zip(fn_args, case))
        want = oracle_is_missing(ds, setting, method)
        got = is_case_missing(ds, setting, method=method)
        assert isinstance(got, bool) and got == want, (setting, got, want)
        nmiss += want
        for name in ds.data_vars:
            want_v = oracle_is_missing(ds[name], setting, method)
            got_v = is_case_missing(ds[name], setting, method=method)
            assert isinstance(got_v, bool) and got_v == want_v
        # partial setting (fewer keys than dimensions)
        part = dict(list(setting.items())[:1])
        assert (is_case_missing(ds, part, method=method) ==
                oracle_is_missing(ds, part, method))
    # 2. absent coordinate -> missing
    first = fn_args[0]
    absent = {first: 'nope' if ds[first].dtype.kind in 'UO' else -999}
    assert is_case_missing(ds, absent, method=method) is True
    # 3. find_missing_cases == oracle (order, no duplicates)
    args, cases = find_missing_cases(ds, ignore_dims='t', method=method)
    o_args, o_cases = oracle_find_missing(ds, {'t'}, method)
    assert args == o_args and isinstance(cases, tuple)
    same_cases(cases, o_cases)
    assert len(set(cases)) == len(cases) == nmiss
    return nmiss


# --------------------------------- tests ----------------------------------- #

def test_random():
    rng = np.random.default_rng(1302)
    total = 0
    for i in range(60):
        method = ('isnull', 'isfinite')[i % 2]
        ds = random_dataset(rng, method, strings=(i % 3 == 0))
        total += check_dataset(ds, method)
        # without ignoring 't' the internal dimension is part of the grid
        args, cases = find_missing_cases(ds, method=method,
                                         show_progbar=bool(i % 7 == 0))
        o_args, o_cases = oracle_find_missing(ds, set(), method)
        assert args == o_args == tuple(ds.dims)
        same_cases(cases, o_cases)
    assert total > 50


def example():
    ds = xr.Dataset(coords={'a': [1, 2, 3], 'b': ['u', 'v'],
                            't': [0.1, 0.2, 0.3]})
    ds['x'] = (('a', 'b'), np.array([[0.1, np.nan],
                                     [np.inf, 0.2],
                                     [np.nan, np.nan]]))
    ds['y'] = (('a', 'b', 't'), np.array([[[0.2] * 3, [np.nan] * 3],
                                          [[np.nan] * 3, [0.4, np.nan, 0.4]],
                                          [[np.nan] * 3, [np.nan] * 3]]))
    return ds


def test_ignore_dims_forms():
    ds = example()
    want = ((1, 'v'), (3, 'u'), (3, 'v'))
    for ignore in ('t', ['t'], ('t',), {'t'}, frozenset({'t'}),
                   {'t': None}, ['t', 'zzz'], iter(['t'])):
        args, cases = find_missing_cases(ds, ignore_dims=ignore)
        assert args == ('a', 'b'), args
        same_cases(cases, want)
    args, cases = find_missing_cases(ds, 't', 'isfinite', False)
    assert args == ('a', 'b')
    # (2, 'u') only holds an inf and nans: no data for 'isfinite'
    same_cases(cases, ((1, 'v'), (2, 'u'), (3, 'u'), (3, 'v')))
    # nothing ignored, in every 'empty' spelling
    full = oracle_find_missing(ds, set(), 'isnull')
    assert full[0] == ('a', 'b', 't')
    for ignore in (None, (), [], set(), '', {}):
        if ignore == '':
            # a str is always taken as a single name
            args, cases = find_missing_cases(ds, ignore_dims=ignore)
        else:
            args, cases = find_missing_cases(ds, ignore)
        assert args == full[0]
        same_cases(cases, full[1])
    # multi-character name is one dimension, not a set of characters
    ds2 = ds.rename({'t': 'ab'})
    args, cases = find_missing_cases(ds2, ignore_dims='ab')
    assert args == ('a', 'b')
    same_cases(cases, want)
    args, cases = find_missing_cases(ds2, ignore_dims=['a', 'b'])
    assert args == ('ab',) and cases == ()
    # ignoring parameter dimensions as well
    args, cases = find_missing_cases(ds, ignore_dims=['t', 'b'])
    assert args == ('a',)
    same_cases(cases, ((3,),))
    args, cases = find_missing_cases(ds, ignore_dims=['a', 't'])
    assert args == ('b',) and cases == ()
    # ignoring everything: a single empty case, missing iff all data null
    args, cases = find_missing_cases(ds, ignore_dims=['a', 'b', 't'])
    assert args == () and cases == ()
    args, cases = find_missing_cases(ds.sel(a=[3]), ['a', 'b', 't'])
    assert args == () and cases == ((),)


def test_output_shape_and_types():
    ds = example()
    for show in (False, True):
        out = find_missing_cases(ds, ignore_dims='t', show_progbar=show)
        assert isinstance(out, tuple) and len(out) == 2
        args, cases = out
        assert isinstance(args, tuple) and isinstance(cases, tuple)
        for case in cases:
            assert isinstance(case, tuple) and len(case) == 2
            # elements are the coordinate array entries themselves
            assert isinstance(case[0], np.integer), type(case[0])
            assert isinstance(case[1], np.str_), type(case[1])
        # grid (row-major) order, no duplicates
        grid = list(itertools.product(ds['a'].values, ds['b'].values))
        pos = [grid.index(c) for c in cases]
        assert pos == sorted(set(pos))
    # dimension order follows the dataset, not alphabetical order
    ds3 = xr.Dataset(coords={'z': [1, 2], 'a': [5, 6, 7]})
    ds3['v'] = (('z', 'a'), np.array([[np.nan, 1, np.nan],
                                      [np.nan, np.nan, 3]]))
    args, cases = find_missing_cases(ds3)
    assert args == tuple(ds3.dims)
    same_cases(cases, oracle_find_missing(ds3, set(), 'isnull')[1])
    assert len(cases) == 4
    # nothing missing / everything missing
    full = ds3.fillna(0.0)
    assert find_missing_cases(full) == (args, ())
    empty = ds3.where(ds3 > 100)
    args_e, cases_e = find_missing_cases(empty)
    same_cases(cases_e, list(itertools.product(*(ds3[d].values
                                                 for d in args))))
    # any data at all at a location means it is never reported
    assert all(np.isnan(ds3['v'].sel(dict(zip(args, c))).item())
               for c in cases)


def test_unknown_method_propagates():
    ds = example()
    try:
        find_missing_cases(ds, 't', method='bogus')
    except ValueError as e:
        assert str(e) == 'Unknown method: bogus'
    else:
        raise AssertionError('expected ValueError')


def test_find_harvest_find():
    def fn(a, b):
        return a + len(b), np.array([a, len(b), a * len(b)], dtype=float)

    runner = xyzpy.Runner(fn, var_names=['s', 'p'],
                          var_dims={'p': ['t']},
                          var_coords={'t': [0.1, 0.2, 0.3]})
    with tempfile.TemporaryDirectory() as tmp:
        cwd = os.getcwd()
        os.chdir(tmp)
        try:
            for method in ('isnull', 'isfinite'):
                for ignore in ('t', ['t'], {'t'}):
                    h = xyzpy.Harvester(runner, data_name=None)
                    h.harvest_cases([(1, 'x'), (2, 'yy'), (3, 'x'),
                                     (4, 'zzz')], verbosity=0)
                    ds = h.full_ds
                    args, cases = find_missing_cases(ds, ignore_dims=ignore,
                                                     method=method)
                    assert args == ('a', 'b')
                    same_cases(cases,
                               oracle_find_missing(ds, {'t'}, method)[1])
                    assert len(cases) == 8
                    h.harvest_cases(cases, fn_args=args, verbosity=0)
                    assert find_missing_cases(
                        h.full_ds, ignore, method) == (args, ())
                    assert not h.full_ds['s'].isnull().any()
        finally:
            os.chdir(cwd)


if __name__ == '__main__':
    test_ignore_dims_forms()
    test_output_shape_and_types()
    test_unknown_method_propagates()
    test_random()
    test_find_harvest_find()
    print('PASS')
