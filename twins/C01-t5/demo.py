"""Demo for C01 twin 2: enumerating the settings and slotting the results in
``combo_runner_core`` (``_unflatten`` and friends).

Run as ``cd <worktree> && /venv/bin/python /path/to/demo.py``.
Checks that a grid sweep evaluates every combination exactly once and puts
each result at the position indexed by its argument values.
"""
import os
import sys

sys.path.insert(0, os.getcwd())

import itertools
import math
import multiprocessing
import random
import shutil
import tempfile
from concurrent.futures import ThreadPoolExecutor, ProcessPoolExecutor

import numpy as np

import xyzpy
from xyzpy.gen.combo_runner import combo_runner_core, _unflatten

assert os.path.dirname(os.path.dirname(os.path.abspath(xyzpy.__file__))) == \
    os.getcwd(), xyzpy.__file__


# --------------------------------------------------------------------------- #
#                         functions that get swept over                       #
# --------------------------------------------------------------------------- #

def tag(kws):
    return repr(sorted(kws.items()))


def fn_scalar(**kws):
    return tag(kws)


def fn_number(**kws):
    return float(sum(map(ord, tag(kws))))


def fn_tuple(**kws):
    t = tag(kws)
    return t, len(t), [1.0, float(len(t))]


def fn_array(**kws):
    t = tag(kws)
    return np.array([[len(t), 2], [sum(map(ord, t)), 3]])


def fn_touch(a, b, folder):
    """Leave a trace on disk of every call (works across processes)."""
    name = "call-{}-{}-{}".format(a, b, os.urandom(4).hex())
    with open(os.path.join(folder, name), "w") as f:
        f.write("x")
    return 10 * a + b


FNS = {
    "scalar": (fn_scalar, 0),
    "number": (fn_number, 0),
    "tuple": (fn_tuple, 3),
    "array": (fn_array, 2),
}


def same(x, y):
    """Strict structural equality (types, nesting, nan == nan)."""
    if isinstance(x, np.ndarray) or isinstance(y, np.ndarray):
        return (
            isinstance(x, np.ndarray) and isinstance(y, np.ndarray) and
            x.shape == y.shape and x.dtype == y.dtype and
            bool(np.all((x == y) | ((x != x) & (y != y))))
        )
    if isinstance(x, (tuple, list)) or isinstance(y, (tuple, list)):
        return (
            type(x) is type(y) and len(x) == len(y) and
            all(same(p, q) for p, q in zip(x, y))
        )
    if isinstance(x, float) and isinstance(y, float) and math.isnan(x):
        return math.isnan(y)
    return type(x) is type(y) and x == y


# --------------------------------------------------------------------------- #
#                    the independent statement of the property                #
# --------------------------------------------------------------------------- #

def expected_nested(leaf, values):
    """Nested tuples with ``leaf(chosen)`` at the slot of each combination."""
    def rec(i, chosen):
        if i == len(values):
            return leaf(chosen)
        return tuple(rec(i + 1, chosen + (v,)) for v in values[i])
    return rec(0, ())


def check_outputs(got, fn, nout, names, values, constants, split, flat, what):
    def leaf_for(pick):
        def leaf(chosen):
            r = fn(**dict(zip(names, chosen)), **constants)
            return r if pick is None else r[pick]
        return leaf

    def exp(pick):
        if flat:
            leaf = leaf_for(pick)
            return tuple(leaf(c) for c in itertools.product(*values))
        return expected_nested(leaf_for(pick), values)

    if split:
        assert isinstance(got, tuple) and len(got) == nout, what
        for i in range(nout):
            assert same(got[i], exp(i)), (what, i)
    else:
        assert same(got, exp(None)), what


GRIDS = [
    # (combos spelling, names, values)
    ({"a": [1, 2, 3]}, ("a",), ([1, 2, 3],)),
    (("a", (2.5, -1.0)), ("a",), ([2.5, -1.0],)),
    ({"a": ["only"]}, ("a",), (["only"],)),
    ([("a", ["x", "yy"]), ("b", [3, 1, 2])], ("a", "b"),
     (["x", "yy"], [3, 1, 2])),
    ({"b": (7,), "a": (1.5, "s", 3, -2)}, ("b", "a"), ([7], [1.5, "s", 3, -2])),
    (
        {"a": range(4, 0, -2), "b": ["q"], "c": [0.5, 0.25, 0.125, 8.0]},
        ("a", "b", "c"),
        ([4, 2], ["q"], [0.5, 0.25, 0.125, 8.0]),
    ),
    (
        (("d", ["u", "v"]), ("c", [9]), ("b", [0.1, 0.2]), ("a", [3, 2, 1])),
        ("d", "c", "b", "a"),
        (["u", "v"], [9], [0.1, 0.2], [3, 2, 1]),
    ),
    (
        (("e", [1, 2]), ("d", ["u", "v"]), ("c", [9]), ("b", [0.1, 0.2]),
         ("a", [3, 2, 1])),
        ("e", "d", "c", "b", "a"),
        ([1, 2], ["u", "v"], [9], [0.1, 0.2], [3, 2, 1]),
    ),
]

CONSTANTS = [None, {"k1": 10}, {"k1": "z", "k2": 2.5}, [("k2", 5), ("k0", 1)]]


def reference_permutation(n, shuffle):
    random.seed(int(shuffle))
    order = list(range(n))
    random.shuffle(order)
    return order


# --------------------------------------------------------------------------- #
#                                   checks                                    #
# --------------------------------------------------------------------------- #

def check_grids():
    n = 0
    for (combos, names, values), constants in itertools.product(GRIDS, CONSTANTS):
        cdict = dict(constants) if constants else {}
        want = [
            {**dict(zip(names, chosen)), **cdict}
            for chosen in itertools.product(*values)
        ]
        for kind, (fn, nout) in FNS.items():
            for shuffle, split, flat in itertools.product(
                [False, True, 6], [False, True], [False, True]
            ):
                if split and not nout:
                    continue
                calls = []

                def recording(**kws):
                    calls.append(kws)
                    return fn(**kws)

                got = xyzpy.combo_runner(
                    recording, combos, constants=constants, split=split,
                    flat=flat, shuffle=shuffle, verbosity=0,
                )
                what = (combos, constants, kind, shuffle, split, flat)
                check_outputs(got, fn, nout, names, values, cdict, split,
                              flat, what)
                # exactly once per combination, the constants added and
                # nothing else, grid arguments first then the constants
                if shuffle:
                    order = reference_permutation(len(want), shuffle)
                else:
                    order = range(len(want))
                assert calls == [want[i] for i in order], what
                assert [list(c) for c in calls] == \
                    [list(want[i]) for i in order], what
                n += 1
    return n


def check_unflatten():
    n = 0
    # zero dimensional
    store = {(): "r"}
    assert _unflatten(store, ()) == "r" and store == {}
    store = {(): "r"}
    assert _unflatten(store, [], "fill") == "r" and store == {}
    n += 2

    for values in [
        ([1, 2, 3],),
        (["x"], [1.5, 2.5]),
        ((3, 1), "pq", [None, True]),
        ([1], [2], [3], [4, 5], [6]),
        ([], [1, 2]),
        ([1, 2], []),
    ]:
        for as_list in [False, True]:
            for missing in [0, 1, 3]:
                locs = list(itertools.product(*values))
                rng = random.Random(missing)
                gone = set(rng.sample(locs, min(missing, len(locs))))
                store = {loc: ("res", loc) for loc in locs if loc not in gone}
                # insertion order must not matter
                items = list(store.items())
                rng.shuffle(items)
                store = dict(items)
                vals = list(values) if as_list else values
                got = _unflatten(store, vals, "FILL")
                exp = expected_nested(
                    lambda c: "FILL" if c in gone else ("res", c), values
                )
                assert same(got, exp), (values, missing, got)
                assert store == {}, store
                assert vals == (list(values) if as_list else values)
                n += 1

    # the default fill is None, stray keys are left alone
    store = {(1, "a"): 0, (2, "b"): 1, (9, 9, 9): "stray"}
    assert _unflatten(store, ([1, 2], ["a", "b"])) == ((0, None), (None, 1))
    assert store == {(9, 9, 9): "stray"}
    n += 1

    # nothing to return
    try:
        _unflatten({}, ())
    except KeyError as e:
        assert e.args == ((),)
    else:
        raise AssertionError("no KeyError")
    n += 1
    return n


def check_core_direct():
    """``combo_runner_core`` called the way the rest of the library does."""
    n = 0
    # values of various sequence types, not parsed
    combos = (("a", (1, 2)), ("b", "xy"), ("c", np.array([0.5, 1.5])))
    calls = []

    def rec(**kws):
        calls.append(kws)
        return fn_tuple(**kws)

    for flat, split in itertools.product([False, True], [False, True]):
        del calls[:]
        info = {}
        got = combo_runner_core(rec, combos, {"k": 1}, flat=flat, split=split,
                                verbosity=0, info=info)
        names = ("a", "b", "c")
        values = ([1, 2], ["x", "y"], list(combos[2][1]))
        check_outputs(got, fn_tuple, 3, names, values, {"k": 1}, split, flat,
                      ("core", flat, split))
        want = [{"a": a, "b": b, "c": c, "k": 1}
                for a in [1, 2] for b in "xy" for c in [0.5, 1.5]]
        assert calls == want
        if flat:
            assert list(info) == ["settings"] and info["settings"] == want
        else:
            assert list(info) == ["fn_args", "all_combo_values"]
            assert info["fn_args"] == names
            assert info["all_combo_values"][:2] == ((1, 2), "xy")
            assert info["all_combo_values"][2] is combos[2][1]
        n += 1

    # a constant with the name of a grid argument replaces its value in
    # the call, but not the slot the result goes to
    del calls[:]
    got = combo_runner_core(rec, (("a", [1, 2]), ("b", [3])), {"a": 7},
                            verbosity=0)
    assert calls == [{"a": 7, "b": 3}] * 2
    assert same(got, ((fn_tuple(a=7, b=3),), (fn_tuple(a=7, b=3),)))
    n += 1

    # repeated values (only possible without parsing): each call is still
    # made, the last result for a location fills its first slot
    del calls[:]
    count = iter(range(100))
    got = combo_runner_core(lambda a: (a, next(count)), (("a", [5, 6, 5]),),
                            {}, verbosity=0)
    assert got == ((5, 2), (6, 1), None), got
    got = combo_runner_core(lambda a: (a, next(count)), (("a", [5, 6, 5]),),
                            {}, verbosity=0, flat=True)
    assert got == ((5, 3), (6, 4), (5, 5)), got
    n += 2

    # no arguments at all
    for constants in [{}, {"k": 2}]:
        info = {}
        got = combo_runner_core(fn_scalar, (), constants, verbosity=0,
                                info=info)
        assert got == fn_scalar(**constants)
        assert info == {"fn_args": (), "all_combo_values": ()}
        got = combo_runner_core(fn_tuple, (), constants, verbosity=0,
                                split=True)
        assert same(got, fn_tuple(**constants))
        got = combo_runner_core(fn_scalar, (), constants, verbosity=0,
                                flat=True)
        assert got == (fn_scalar(**constants),)
        n += 3

    # empty grids
    assert combo_runner_core(fn_scalar, (("a", []),), {}, verbosity=0) == ()
    assert combo_runner_core(fn_scalar, (("a", []), ("b", [1, 2])), {},
                             verbosity=0) == ()
    assert combo_runner_core(fn_scalar, (("a", [1, 2]), ("b", [])), {},
                             verbosity=0) == ((), ())
    assert combo_runner_core(fn_scalar, (("a", [1, 2]), ("b", [])), {},
                             verbosity=0, flat=True) == ()
    assert combo_runner_core(fn_tuple, (("a", [1, 2]), ("b", [])), {},
                             verbosity=0, split=True) == ()
    n += 5

    # bad input is reported the same way
    for bad, exc in [
        ((("a", 3),), TypeError),               # values not iterable
        ((("a", [[1], [2]]),), TypeError),      # unhashable values, nested
    ]:
        try:
            combo_runner_core(fn_scalar, bad, {}, verbosity=0)
        except exc:
            pass
        else:
            raise AssertionError(("no error", bad))
        n += 1
    # ... but unhashable values are fine for a flat list
    assert combo_runner_core(lambda a: a[0], (("a", [[1], [2]]),), {},
                             verbosity=0, flat=True) == (1, 2)
    try:
        combo_runner_core(fn_scalar, (("a", [1]),), 5, verbosity=0)
    except TypeError:
        pass
    else:
        raise AssertionError("no error for constants=5")
    # constants given as pairs are accepted by the core runner
    assert combo_runner_core(fn_scalar, (("a", [1]),), [("k", 2)],
                             verbosity=0) == (fn_scalar(a=1, k=2),)
    n += 3
    return n


def check_cases():
    n = 0
    nan = float("nan")
    cases = [{"a": 2, "b": "u"}, {"a": 1, "b": "v"}, {"a": 2, "b": "w"}]
    combos = {"c": [6, 5]}
    ran = {(2, "u"), (1, "v"), (2, "w")}

    def expected(fn, fill, pick=None):
        def leaf(chosen):
            a, b, c = chosen
            if (a, b) not in ran:
                return fill
            r = fn(a=a, b=b, c=c, k=0)
            return r if pick is None else r[pick]
        return expected_nested(leaf, ([1, 2], ["u", "v", "w"], [6, 5]))

    for shuffle in [False, 4]:
        calls = []

        def rec(**kws):
            calls.append(kws)
            return fn_number(**kws)

        got = xyzpy.combo_runner(rec, combos, cases=cases,
                                 constants={"k": 0}, shuffle=shuffle,
                                 verbosity=0)
        assert same(got, expected(fn_number, nan)), got
        want = [{**case, "c": c, "k": 0} for case in cases for c in [6, 5]]
        order = reference_permutation(6, shuffle) if shuffle else range(6)
        assert calls == [want[i] for i in order]
        assert [list(c) for c in calls] == [["a", "b", "c", "k"]] * 6

        # strings are filled with None
        got = xyzpy.combo_runner(fn_scalar, combos, cases=cases,
                                 constants={"k": 0}, shuffle=shuffle,
                                 verbosity=0)
        assert same(got, expected(fn_scalar, None)), got

        # sequences with a sequence of nan arrays of matching shapes
        got = xyzpy.combo_runner(fn_tuple, combos, cases=cases,
                                 constants={"k": 0}, shuffle=shuffle,
                                 verbosity=0)
        fill = (np.broadcast_to(nan, ()), np.broadcast_to(nan, ()),
                np.broadcast_to(nan, (2,)))
        assert same(got, expected(fn_tuple, fill)), got

        # split: each output is filled after its own first result
        got = xyzpy.combo_runner(fn_tuple, combos, cases=cases, split=True,
                                 constants={"k": 0}, shuffle=shuffle,
                                 verbosity=0)
        assert len(got) == 3
        assert same(got[0], expected(fn_tuple, None, 0)), got[0]
        assert same(got[1], expected(fn_tuple, nan, 1)), got[1]
        assert same(got[2], expected(
            fn_tuple, (np.broadcast_to(nan, ()),) * 2, 2)), got[2]

        # flat: nothing is filled in
        got = xyzpy.combo_runner(fn_number, combos, cases=cases, flat=True,
                                 constants={"k": 0}, shuffle=shuffle,
                                 verbosity=0)
        assert same(got, tuple(fn_number(**kws) for kws in want))
        n += 5

    # only cases, one of them
    got = xyzpy.combo_runner(fn_number, cases={"a": 1, "b": 2}, verbosity=0)
    assert same(got, ((fn_number(a=1, b=2),),))
    # unsortable union of case values: every run value has exactly one slot
    info = {}
    mixed = ({"a": 1}, {"a": "s"}, {"a": 2.5})
    got = combo_runner_core(fn_number, (("b", [1, 2]),), {}, cases=mixed,
                            verbosity=0, info=info)
    assert info["fn_args"] == ("a", "b")
    coords_a, coords_b = info["all_combo_values"]
    assert sorted(map(repr, coords_a)) == sorted(map(repr, [1, "s", 2.5]))
    assert coords_b == [1, 2]
    for va, row in zip(coords_a, got):
        assert same(row, (fn_number(a=va, b=1), fn_number(a=va, b=2)))
    # an arg can't be in both
    try:
        xyzpy.combo_runner(fn_number, {"a": [1]}, cases=[{"a": 2}],
                           verbosity=0)
    except ValueError as e:
        assert "both ``cases`` and ``combos``" in str(e)
    else:
        raise AssertionError("no ValueError")
    # case_runner gives the flat results
    got = xyzpy.case_runner(lambda a, b, c: (a, b, c), ("a", "b"),
                            [(1, 2), (3, 4)], combos={"c": [0, 9]},
                            verbosity=0)
    assert got == ((1, 2, 0), (1, 2, 9), (3, 4, 0), (3, 4, 9))
    n += 4
    return n


def check_pools(tmp):
    n = 0
    combos = {"a": [3, 1, 2, 4], "b": [7, 5, 6]}
    exp = tuple(tuple(10 * a + b for b in [7, 5, 6]) for a in [3, 1, 2, 4])

    def run(label, **opts):
        nonlocal n
        for shuffle, flat in [(False, False), (3, False), (True, True)]:
            folder = tempfile.mkdtemp(dir=tmp)
            got = xyzpy.combo_runner(fn_touch, combos, flat=flat,
                                     constants={"folder": folder},
                                     shuffle=shuffle, verbosity=0, **opts)
            if flat:
                assert got == tuple(itertools.chain(*exp)), label
            else:
                assert got == exp, label
            traces = sorted(x.rsplit("-", 1)[0] for x in os.listdir(folder))
            assert traces == sorted(
                "call-{}-{}".format(a, b)
                for a in combos["a"] for b in combos["b"]
            ), (label, traces)
            n += 1
        got = xyzpy.combo_runner(fn_tuple, {"a": ["p", "q"], "b": [2.5, 1]},
                                 constants={"k": 1}, split=True, verbosity=0,
                                 **opts)
        check_outputs(got, fn_tuple, 3, ("a", "b"), (["p", "q"], [2.5, 1]),
                      {"k": 1}, True, False, label)
        n += 1

    run("sequential")
    run("parallel", parallel=True)
    run("num_workers", num_workers=2)
    with ThreadPoolExecutor(3) as ex:
        run("ThreadPoolExecutor", executor=ex)
    with ProcessPoolExecutor(2) as ex:
        run("ProcessPoolExecutor", executor=ex)
    with multiprocessing.Pool(2) as ex:
        run("multiprocessing.Pool", executor=ex)
    return n


def check_dataset():
    n = 0
    for opts in [dict(), dict(shuffle=2), dict(parallel=2)]:
        ds = xyzpy.combo_runner_to_ds(
            fn_tuple, {"a": [3, 1, 2], "b": ["p", "q"]},
            var_names=["t", "n", "v"], var_dims={"v": ["i"]},
            constants={"k1": 1}, verbosity=0, **opts
        )
        assert list(ds["a"].values) == [3, 1, 2]
        assert list(ds["b"].values) == ["p", "q"]
        for a in [3, 1, 2]:
            for b in ["p", "q"]:
                t, ln, v = fn_tuple(a=a, b=b, k1=1)
                sel = ds.sel(a=a, b=b)
                assert sel["t"].item() == t and sel["n"].item() == ln
                assert list(sel["v"].values) == v
        n += 1

    ds = xyzpy.combo_runner_to_ds(
        fn_number, {"c": [6, 5]}, var_names="x",
        cases=[{"a": 2, "b": "u"}, {"a": 1, "b": "v"}], verbosity=0,
    )
    assert ds["x"].dims == ("a", "b", "c")
    assert list(ds["a"].values) == [1, 2]
    for a in [1, 2]:
        for b in ["u", "v"]:
            for c in [6, 5]:
                x = ds["x"].sel(a=a, b=b, c=c).item()
                if (a, b) in [(2, "u"), (1, "v")]:
                    assert x == fn_number(a=a, b=b, c=c)
                else:
                    assert math.isnan(x)
    df = xyzpy.combo_runner_to_ds(
        fn_number, {"a": [2, 1], "b": ["u", "v"]}, var_names="x",
        to_df=True, verbosity=0,
    )
    assert [tuple(r) for r in df[["a", "b", "x"]].values.tolist()] == [
        (a, b, fn_number(a=a, b=b)) for a in [2, 1] for b in ["u", "v"]
    ]
    n += 2
    return n


def main():
    tmp = tempfile.mkdtemp(prefix="c01-t2-demo-")
    try:
        counts = [
            check_grids(),
            check_unflatten(),
            check_core_direct(),
            check_cases(),
            check_pools(tmp),
            check_dataset(),
        ]
    finally:
        shutil.rmtree(tmp, ignore_errors=True)
    print("checked", counts)
    print("PASS")


if __name__ == "__main__":
    main()
