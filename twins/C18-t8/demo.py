"""C18 demo: infiniplot draws each data slice once, correctly styled and placed.

Run as:  cd <worktree> && /venv/bin/python /path/to/demo.py

An independent oracle (plain numpy / xarray, no xyzpy code) computes, for a
range of datasets and option combinations, which lines / meshes / histograms
should appear in which panel with which data, and compares with what
``xyzpy.infiniplot`` actually drew.  Prints PASS and exits 0 when everything
agrees, prints FAIL (with the first few discrepancies) and exits 1 otherwise.
"""
import os
import sys

sys.path.insert(0, os.getcwd())

import itertools
import shutil
import tempfile
import warnings

_tmp = tempfile.mkdtemp(prefix="c18demo_")
os.environ["MPLCONFIGDIR"] = _tmp

import matplotlib

matplotlib.use("Agg")

import numpy as np
import xarray as xr
from matplotlib import pyplot as plt
from matplotlib.collections import LineCollection, PolyCollection, QuadMesh
from matplotlib.colors import to_hex

import xyzpy

warnings.filterwarnings("ignore")

PROBLEMS = []
NCHECKS = [0]


def problem(case, msg):
    PROBLEMS.append(f"[{case}] {msg}")


def check(cond, case, msg):
    NCHECKS[0] += 1
    if not cond:
        problem(case, msg)
    return cond


# ----------------------------------------------------------------- datasets

A = ["p", "q", "r"]
B = [1, 2, 3, 4]
C = [10.0, 20.0]
D = [0, 1, 2]
X = np.array([0.0, 0.5, 1.0, 1.5, 2.0, 2.5, 3.0])


def make_ds(dead_b=None, dead_pairs=(), nan_points=True, seed=7):
    """4 mapped-able dims (a, b, c, d) and x; every slice has distinct data.

    dead_b     : a coordinate of ``b`` that has no data at all (all NaN)
    dead_pairs : (a, b) pairs whose slices have no data
    nan_points : sprinkle isolated NaNs inside otherwise valid lines
    """
    rng = np.random.default_rng(seed)
    shape = (len(A), len(B), len(C), len(D), len(X))
    ia, ib, ic, id_, ix = np.meshgrid(*map(np.arange, shape), indexing="ij")
    y = (
        1000.0 * (ia + 1)
        + 100.0 * (ib + 1)
        + 10.0 * (ic + 1)
        + 1.0 * (id_ + 1) ** 2  # skewed, so the spread is asymmetric
        + 0.01 * (ix + 1) ** 2
    )
    if nan_points:
        y[rng.random(shape) < 0.12] = np.nan
        # a gap in the middle of one line and a missing end point of another
        y[0, 0, 0, 0, 3] = np.nan
        y[1, 1, 1, 1, -1] = np.nan
    if dead_b is not None:
        y[:, B.index(dead_b)] = np.nan
    for a, b in dead_pairs:
        y[A.index(a), B.index(b)] = np.nan
    yerr = 0.3 + 0.05 * ix + 0.01 * ib
    ds = xr.Dataset(
        {
            "y": (("a", "b", "c", "d", "x"), y),
            "yerr": (("a", "b", "c", "d", "x"), yerr.astype(float)),
            "junk": (("a",), np.arange(3.0)),
        },
        coords={"a": A, "b": B, "c": C, "d": D, "x": X},
    )
    return ds


# ------------------------------------------------------------------ oracle

STYLE_PROPS = (
    "hue",
    "color",
    "marker",
    "markersize",
    "markeredgecolor",
    "linestyle",
    "linewidth",
)
MAP_ORDER = STYLE_PROPS + ("col", "row")
# order in which the coordinates appear in a line's label
LABEL_ORDER = (
    "hue",
    "color",
    "marker",
    "markersize",
    "markeredgecolor",
    "linewidth",
    "linestyle",
)


def fused_name(dim):
    if isinstance(dim, (tuple, list)):
        return ", ".join(dim)
    return dim


def oracle_lines(ds, yvar, kw):
    """Return (nrow, ncol, row_dom, col_dom, expected) where expected is a
    list of dicts(panel, coords, label, x, y[, lo, hi])."""
    kw = dict(kw)
    if kw.get("hue") is not None and kw.get("color") is None:
        kw["color"], kw["color_order"] = kw["hue"], kw.get("hue_order")
        kw["hue"] = kw["hue_order"] = None

    work = ds[[yvar] + ([kw["err"]] if isinstance(kw.get("err"), str) else [])]
    mapping = {}
    for prop in MAP_ORDER:
        dim = kw.get(prop)
        if dim is None:
            continue
        name = fused_name(dim)
        if name not in work.dims:
            work = work.stack({name: tuple(dim)})
        order = kw.get(f"{prop}_order")
        if order is not None:
            work = work.sel({name: list(order)})
        mapping[prop] = name

    # coordinates that have any data at all, per mapped dimension
    kept = {}
    for name in set(mapping.values()):
        da = work[yvar]
        other = [d for d in da.dims if d != name]
        has = da.notnull().any(other).values
        kept[name] = [i for i in range(da.sizes[name]) if has[i]]

    agg = kw.get("aggregate")
    mapped_dims = []
    for prop in MAP_ORDER:
        if prop in mapping and mapping[prop] not in mapped_dims:
            mapped_dims.append(mapping[prop])
    da = work[yvar]
    lo = hi = None
    if agg:
        if agg is True:
            agg = [d for d in da.dims if d not in mapped_dims and d != "x"]
        elif isinstance(agg, str):
            agg = [agg]
        axes = tuple(da.dims.index(d) for d in agg)
        vals = da.values
        rng_opt = kw.get("aggregate_err_range", 0.5)
        if rng_opt == "std":
            m, s = np.nanmean(vals, axes), np.nanstd(vals, axes)
            lo_v, hi_v = m - s, m + s
        elif rng_opt == "stderr":
            m, s = np.nanmean(vals, axes), np.nanstd(vals, axes)
            n = np.sum(~np.isnan(vals), axes)
            lo_v, hi_v = m - s / np.sqrt(n), m + s / np.sqrt(n)
        else:
            r = min(max(0.0, rng_opt), 1.0)
            lo_v = np.nanquantile(vals, 0.5 - r / 2, axes)
            hi_v = np.nanquantile(vals, 0.5 + r / 2, axes)
        method = kw.get("aggregate_method", "median")
        mid = {"median": np.nanmedian, "mean": np.nanmean}[method](vals, axes)
        rdims = [d for d in da.dims if d not in agg]
        coords = {d: da.coords[d] for d in rdims}
        da = xr.DataArray(mid, dims=rdims, coords=coords)
        lo = xr.DataArray(lo_v, dims=rdims, coords=coords)
        hi = xr.DataArray(hi_v, dims=rdims, coords=coords)

    free = [d for d in da.dims if d != "x" and d not in mapped_dims]
    assert not free, f"demo only uses fully mapped / aggregated data: {free}"

    row, col = mapping.get("row"), mapping.get("col")
    row_dom = [work[row].values[i] for i in kept[row]] if row else [None]
    col_dom = [work[col].values[i] for i in kept[col]] if col else [None]

    join = kw.get("join_across_missing", False)
    expected = []
    for idx in itertools.product(*(kept[d] for d in mapped_dims)):
        loc = dict(zip(mapped_dims, idx))
        yv = da.isel(loc).values
        if np.all(np.isnan(yv)):
            continue
        xv = da.isel(loc)["x"].values
        sel = ~np.isnan(yv) if join else slice(None)
        coords = {d: work[d].values[i] for d, i in loc.items()}
        label_dims = []
        for prop in LABEL_ORDER:
            if prop in mapping and mapping[prop] not in label_dims:
                label_dims.append(mapping[prop])
        label = ", ".join(str(coords[d]) for d in label_dims)
        e = dict(
            panel=(
                kept[row].index(loc[row]) if row else 0,
                kept[col].index(loc[col]) if col else 0,
            ),
            coords=coords,
            label=label,
            x=xv[sel],
            y=yv[sel],
        )
        if lo is not None:
            e["lo"] = lo.isel(loc).values[sel]
            e["hi"] = hi.isel(loc).values[sel]
        elif isinstance(kw.get("err"), str):
            ev = work[kw["err"]].isel(loc).values[sel]
            e["lo"], e["hi"] = e["y"] - ev, e["y"] + ev
        expected.append(e)
    return len(row_dom), len(col_dom), row_dom, col_dom, mapping, expected


def same(a, b):
    a, b = np.asarray(a, float), np.asarray(b, float)
    return a.shape == b.shape and np.allclose(a, b, equal_nan=True, rtol=1e-12)


def line_style(line):
    dash = getattr(line, "_unscaled_dash_pattern", None)
    if dash is not None:
        off, seq = dash
        dash = (off, None if seq is None else tuple(seq))
    return dict(
        color=to_hex(line.get_color(), keep_alpha=True),
        marker=str(line.get_marker()),
        markersize=float(line.get_markersize()),
        markeredgecolor=to_hex(line.get_markeredgecolor(), keep_alpha=True),
        linewidth=float(line.get_linewidth()),
        linestyle=(line.get_linestyle(), dash),
    )


def panel_title(ax):
    ts = [t.get_text() for t in ax.texts]
    return ts[0] if ts else ""


def run_lines_case(case, ds, kw, custom=None):
    """Plot with infiniplot, compare with the oracle."""
    before = ds.copy(deep=True)
    fig, axs = xyzpy.infiniplot(ds, "x", "y", show_and_close=False, **kw)
    try:
        check(ds.identical(before), case, "input dataset was modified")
        nrow, ncol, row_dom, col_dom, mapping, expected = oracle_lines(
            ds, "y", kw
        )
        if not check(
            axs.shape == (nrow, ncol),
            case,
            f"grid of panels is {axs.shape}, expected {(nrow, ncol)}",
        ):
            return
        drawn = {}  # label -> (panel, line)
        for (i, j), ax in np.ndenumerate(axs):
            # panel titles name the right coordinates
            title = panel_title(ax)
            want = []
            if col_dom[j] is not None:
                want.append(str(col_dom[j]))
            if row_dom[i] is not None:
                want.append(str(row_dom[i]))
            if want:
                check(
                    title.endswith("=" + want[-1])
                    and all(f"={w}, " in title for w in want[:-1]),
                    case,
                    f"panel {(i, j)} is titled {title!r}, expected "
                    f"coordinates {want}",
                )
            exp_here = [e for e in expected if e["panel"] == (i, j)]
            lines = [
                ln for ln in ax.get_lines() if not ln.get_label().startswith("_")
            ]
            check(
                len(lines) == len(exp_here),
                case,
                f"panel {(i, j)}: {len(lines)} lines drawn, "
                f"{len(exp_here)} slices have data",
            )
            by_label = {}
            for ln in lines:
                if ln.get_label() in by_label:
                    problem(
                        case,
                        f"panel {(i, j)}: slice {ln.get_label()!r} drawn twice",
                    )
                by_label[ln.get_label()] = ln
            for e in exp_here:
                ln = by_label.get(e["label"])
                if not check(
                    ln is not None,
                    case,
                    f"panel {(i, j)}: no line for slice {e['label']!r} "
                    f"(drawn: {sorted(by_label)})",
                ):
                    continue
                check(
                    same(ln.get_xdata(), e["x"]),
                    case,
                    f"slice {e['label']!r}: wrong x data",
                )
                check(
                    same(ln.get_ydata(), e["y"]),
                    case,
                    f"slice {e['label']!r}: line carries "
                    f"{np.asarray(ln.get_ydata())[:3]}..., the slice's data "
                    f"is {e['y'][:3]}...",
                )
                drawn[e["label"]] = (e, ln)
            # error ranges
            if "lo" in (exp_here[0] if exp_here else {}):
                check_err(case, ax, exp_here, kw)

        # styles: equal coordinates share, different coordinates differ
        for prop, dim in mapping.items():
            if prop in ("row", "col"):
                continue
            mpl_prop = "color" if prop == "hue" else prop
            groups = {}
            for e, ln in drawn.values():
                key = e["coords"][dim]
                if mpl_prop == "color" and "hue" in mapping and "color" in mapping:
                    key = (e["coords"][mapping["hue"]], e["coords"][mapping["color"]])
                groups.setdefault(key, set()).add(
                    repr(line_style(ln)[mpl_prop])
                )
            for key, vals in groups.items():
                check(
                    len(vals) == 1,
                    case,
                    f"{prop}: coordinate {key!r} drawn with several styles "
                    f"{sorted(vals)}",
                )
            firsts = [sorted(v)[0] for v in groups.values()]
            check(
                len(set(firsts)) == len(firsts),
                case,
                f"{prop}: different coordinates share a style: "
                f"{dict(zip(map(str, groups), firsts))}",
            )
        # custom values are assigned in (ordered) domain order
        for prop, (dim_vals, style_vals, conv) in (custom or {}).items():
            dim = mapping[prop]
            # (values are handed out to the coordinates that have data)
            present = {e["coords"][dim] for e, _ in drawn.values()}
            dim_vals = [v for v in dim_vals if v in present]
            for e, ln in drawn.values():
                k = dim_vals.index(e["coords"][dim])
                got = line_style(ln)[prop]
                check(
                    conv(got) == conv(style_vals[k]),
                    case,
                    f"{prop}: coordinate {e['coords'][dim]!r} should use "
                    f"{style_vals[k]!r}, drawn with {got!r}",
                )
    finally:
        plt.close(fig)


def check_err(case, ax, exp_here, kw):
    style = kw.get("err_style")
    if style is None:
        style = "band" if kw.get("aggregate") else "bars"
    if style == "bars":
        segs = []
        for coll in ax.collections:
            if isinstance(coll, LineCollection):
                segs.extend(np.asarray(s) for s in coll.get_segments())
        have = {
            (round(s[0, 0], 9), round(min(s[:, 1]), 9), round(max(s[:, 1]), 9))
            for s in segs
            if s.shape == (2, 2) and np.all(np.isfinite(s))
        }
        for e in exp_here:
            for xx, l, h in zip(e["x"], e["lo"], e["hi"]):
                if np.isnan(l) or np.isnan(h):
                    continue
                check(
                    (round(xx, 9), round(min(l, h), 9), round(max(l, h), 9))
                    in have,
                    case,
                    f"slice {e['label']!r}: error bar at x={xx} should span "
                    f"[{l}, {h}]",
                )
    else:
        verts = set()
        for coll in ax.collections:
            if isinstance(coll, PolyCollection):
                for p in coll.get_paths():
                    for vx, vy in p.vertices:
                        verts.add((round(vx, 9), round(vy, 9)))
        for e in exp_here:
            for xx, l, h in zip(e["x"], e["lo"], e["hi"]):
                if np.isnan(l) or np.isnan(h):
                    continue
                check(
                    (round(xx, 9), round(l, 9)) in verts
                    and (round(xx, 9), round(h, 9)) in verts,
                    case,
                    f"slice {e['label']!r}: error band at x={xx} should span "
                    f"[{l}, {h}]",
                )


# ------------------------------------------------------------ line cases


def lines_suite():
    hexc = lambda c: to_hex(c, keep_alpha=True)
    ident = lambda v: v

    ds_plain = make_ds()
    ds_dead = make_ds(dead_b=2, dead_pairs=[("q", 3)])
    ds_dead_first = make_ds(dead_b=1, nan_points=False)

    for name, ds in [
        ("plain", ds_plain),
        ("b=2 empty", ds_dead),
        ("b=1 empty", ds_dead_first),
    ]:
        for join in (False, True):
            j = f"{name}, join={join}"
            run_lines_case(
                f"color=a marker=b row=c col=d; {j}",
                ds,
                dict(color="a", marker="b", row="c", col="d",
                     join_across_missing=join),
            )
            run_lines_case(
                f"hue=a color=b linestyle=c linewidth=d; {j}",
                ds,
                dict(hue="a", color="b", linestyle="c", linewidth="d",
                     join_across_missing=join),
            )
            run_lines_case(
                f"row=b col=a markersize=c markeredgecolor=d; {j}",
                ds,
                dict(row="b", col="a", markersize="c", markeredgecolor="d",
                     join_across_missing=join),
            )
            run_lines_case(
                f"marker=b linestyle=b color=a row=c agg d; {j}",
                ds,
                dict(marker="b", linestyle="b", color="a", row="c",
                     aggregate="d", join_across_missing=join),
            )
        # hue alone acts as colour, with a palette and without
        for palette in (None, "viridis"):
            run_lines_case(
                f"hue=b row=a col=c agg d palette={palette}; {name}",
                ds,
                dict(hue="b", row="a", col="c", aggregate=True,
                     palette=palette),
            )
        # fused dimensions
        run_lines_case(
            f"color=(a,b) marker=c row=d; {name}",
            ds,
            dict(color=("a", "b"), marker="c", row="d"),
        )
        run_lines_case(
            f"row=[b,c] color=a linestyle=d; {name}",
            ds,
            dict(row=["b", "c"], color="a", linestyle="d", height=1),
        )
        # explicit orders and custom values
        border = [4, 1, 3]
        run_lines_case(
            f"marker=b (order, custom) color=a (order, custom) row=c col=d; {name}",
            ds,
            dict(
                marker="b", marker_order=border, markers=["s", "^", "D"],
                color="a", color_order=["r", "p"], colors=["#ff0000", "#00ff00"],
                row="c", row_order=[20.0, 10.0], col="d",
            ),
            custom={
                "marker": (border, ["s", "^", "D"], ident),
                "color": (["r", "p"], ["#ff0000", "#00ff00"], hexc),
            },
        )
        run_lines_case(
            f"linewidth=b (custom) markersize=a (custom) col=c agg d; {name}",
            ds,
            dict(
                linewidth="b", linewidth_order=[3, 4, 1],
                linewidths=[0.5, 1.5, 2.5],
                markersize="a", markersizes=[2.0, 4.0, 8.0],
                col="c", aggregate=True,
            ),
            custom={
                "linewidth": ([3, 4, 1], [0.5, 1.5, 2.5], float),
                "markersize": (A, [2.0, 4.0, 8.0], float),
            },
        )

    # aggregation with every error-range option, as bands and as bars
    for ds_name, ds in [("plain", ds_plain), ("b=2 empty", ds_dead)]:
        for rng_opt in ("std", "stderr", 0.5, 0.8, 1.0):
            for style in (None, "band", "bars"):
                for join in (False, True):
                    run_lines_case(
                        f"aggregate d, range={rng_opt}, err_style={style}, "
                        f"join={join}; {ds_name}",
                        ds,
                        dict(color="a", col="b", row="c", aggregate="d",
                             aggregate_err_range=rng_opt, err_style=style,
                             join_across_missing=join),
                    )
        run_lines_case(
            f"aggregate c and d with mean; {ds_name}",
            ds,
            dict(color="a", marker="b", aggregate=["c", "d"],
                 aggregate_method="mean", aggregate_err_range="std"),
        )
        # explicit error variable
        for style in (None, "bars", "band"):
            for join in (False, True):
                run_lines_case(
                    f"err=yerr err_style={style} join={join}; {ds_name}",
                    ds,
                    dict(color="a", marker="b", row="c", col="d", err="yerr",
                         err_style=style, join_across_missing=join),
                )


# --------------------------------------------------------------- heatmaps


def heatmap_suite():
    rng = np.random.default_rng(3)
    xs = np.array([0.0, 1.0, 2.0, 3.0, 4.0])
    ys = np.array([10.0, 20.0, 30.0])
    z = rng.normal(size=(3, 2, 4, 5, 3)) + 3.0
    z[rng.random(z.shape) < 0.1] = np.nan
    z[0, 0, :, 2, 1] = np.nan  # a cell with no data in any repeat
    ds = xr.Dataset(
        {"z": (("a", "c", "r", "x", "yy"), z)},
        coords={"a": A, "c": C, "r": np.arange(4), "x": xs, "yy": ys},
    )
    from xyzpy.plot.plotter_matplotlib import to_colors

    ds_full = ds
    for palette, aggregate, method, dead in itertools.product(
        (None, "magma"), (False, True), ("median", "mean"), (False, True)
    ):
        case = (
            f"heatmap palette={palette} aggregate={aggregate}/{method}"
            + (", a=q empty" if dead else "")
        )
        ds = ds_full
        rows = list(A)
        if dead:
            # row coordinate 'q' has no data at all -> no panel for it
            ds = ds_full.copy(deep=True)
            ds["z"][dict(a=1)] = np.nan
            rows.remove("q")
        if aggregate:
            dsi, kw = ds, dict(aggregate=True, aggregate_method=method)
            fn = {"median": np.nanmedian, "mean": np.nanmean}[method]
            zexp = fn(ds["z"].values, axis=2)  # a, c, x, yy
        else:
            dsi, kw = ds.isel(r=1, drop=True), {}
            zexp = dsi["z"].values
        zexp = zexp[[A.index(a) for a in rows]]
        before = dsi.copy(deep=True)
        fig, axs = xyzpy.infiniplot(
            dsi, "x", "yy", "z", row="a", col="c", palette=palette,
            show_and_close=False, **kw,
        )
        try:
            check(dsi.identical(before), case, "input dataset was modified")
            if not check(
                axs.shape == (len(rows), 2),
                case,
                f"grid of panels is {axs.shape}, expected {(len(rows), 2)}",
            ):
                continue
            finite = zexp[np.isfinite(zexp)]
            max_mag = max(abs(finite.max()), abs(finite.min()))
            for (i, j), ax in np.ndenumerate(axs):
                meshes = [c for c in ax.collections if isinstance(c, QuadMesh)]
                if not check(
                    len(meshes) == 1, case, f"panel {(i, j)}: {len(meshes)} meshes"
                ):
                    continue
                title = panel_title(ax)
                check(
                    title.endswith(f"={rows[i]}") and f"={C[j]}, " in title,
                    case,
                    f"panel {(i, j)} is titled {title!r}, expected "
                    f"coordinates c={C[j]}, a={rows[i]}",
                )
                want = zexp[i, j].T  # (yy, x)
                arr = meshes[0].get_array()
                corners = np.asarray(meshes[0].get_coordinates())
                check(
                    corners.shape == (4, 6, 2)
                    and same(
                        (corners[0, :-1, 0] + corners[0, 1:, 0]) / 2, xs
                    )
                    and same(
                        (corners[:-1, 0, 1] + corners[1:, 0, 1]) / 2, ys
                    ),
                    case,
                    f"panel {(i, j)}: mesh is not centred on the x, y values",
                )
                if palette is not None:
                    got = np.ma.filled(
                        np.ma.asarray(arr, dtype=float), np.nan
                    ).reshape(want.shape)
                    check(
                        same(got, want),
                        case,
                        f"panel {(i, j)}: mesh values differ from the z data",
                    )
                else:
                    got = np.asarray(arr, dtype=float).reshape(want.shape + (4,))
                    ok = np.isfinite(want)
                    exp = np.empty(want.shape + (4,))
                    exp[ok] = to_colors(
                        want[ok], alpha_pow=0.0, max_mag=max_mag
                    )[0]
                    exp[~ok] = (0.5, 0.5, 0.5, 0.5)
                    check(
                        same(got, exp),
                        case,
                        f"panel {(i, j)}: cell colours differ from the z data",
                    )
        finally:
            plt.close(fig)


# ------------------------------------------------------------- histograms


def histogram_suite():
    rng = np.random.default_rng(11)
    v = rng.normal(size=(3, 4, 40)) + np.arange(3)[:, None, None]
    ds = xr.Dataset(
        {"v": (("a", "b", "r"), v)}, coords={"a": A, "b": B, "r": np.arange(40)}
    )
    edges = [-3.0, -1.0, 0.0, 0.5, 1.0, 2.0, 3.5, 6.0]
    # (bins=None / bins=<int> fail inside numpy.linspace with the installed
    # numpy + xarray on the unmodified tree as well, so only explicit edges)
    for bins, density in itertools.product(
        (edges, np.linspace(-4.0, 7.0, 12)), (True, False)
    ):
        case = f"histogram bins={type(bins).__name__} density={density}"
        before = ds.copy(deep=True)
        fig, axs = xyzpy.infiniplot(
            ds, "v", color="a", row="b", bins=bins, bins_density=density,
            show_and_close=False,
        )
        try:
            check(ds.identical(before), case, "input dataset was modified")
            be = np.asarray(bins)
            centres = (be[1:] + be[:-1]) / 2
            if not check(axs.shape == (4, 1), case, f"grid {axs.shape}"):
                continue
            for ib in range(4):
                lines = {ln.get_label(): ln for ln in axs[ib, 0].get_lines()}
                check(
                    sorted(lines) == sorted(A),
                    case,
                    f"panel {ib}: lines {sorted(lines)}",
                )
                for ia, a in enumerate(A):
                    if a not in lines:
                        continue
                    want = np.histogram(v[ia, ib], bins=be, density=density)[0]
                    check(
                        same(lines[a].get_xdata(), centres),
                        case,
                        f"slice a={a}, b={B[ib]}: wrong bin centres",
                    )
                    check(
                        same(lines[a].get_ydata(), want),
                        case,
                        f"slice a={a}, b={B[ib]}: drawn "
                        f"{np.asarray(lines[a].get_ydata())[:3]}..., true "
                        f"{'density' if density else 'counts'} "
                        f"{want[:3]}...",
                    )
            ylabel = axs[0, 0].get_ylabel()
            check(
                ylabel == ("prob(v)" if density else "count(v)"),
                case,
                f"y axis labelled {ylabel!r}",
            )
        finally:
            plt.close(fig)


def main():
    try:
        lines_suite()
        heatmap_suite()
        histogram_suite()
    finally:
        plt.close("all")
        shutil.rmtree(_tmp, ignore_errors=True)

    if PROBLEMS:
        print(f"FAIL: {len(PROBLEMS)} discrepancies in {NCHECKS[0]} checks")
        for p in PROBLEMS[:12]:
            print("  -", p)
        return 1
    print(f"PASS ({NCHECKS[0]} checks)")
    return 0


if __name__ == "__main__":
    sys.exit(main())
