"""Demo for C08 / refactoring 3 (``Crop.check_bad``): bad result files (wrong
length or unloadable) are detected, reported, optionally deleted, and the
crop's progress always agrees with what is then on disk.

Run as:  cd <worktree> && /venv/bin/python /path/to/demo.py
"""
import os
import sys

sys.path.insert(0, os.getcwd())

import contextlib
import io
import pickle
import random
import tempfile

import xyzpy
from xyzpy.gen import cropping
from xyzpy.gen.cropping import Crop

assert os.path.abspath(xyzpy.__file__).startswith(os.getcwd()), xyzpy.__file__


def fn(a, b=0):
    return 10 * a + b


def failing(a, b=0):
    raise RuntimeError("boom")


CHECKS = [0]
STATS = {"bad_wrong_length": 0, "bad_unloadable": 0, "deleted": 0, "kept": 0}


def check(cond, msg):
    CHECKS[0] += 1
    if not cond:
        raise AssertionError(msg)


def read_pickle(fname):
    with open(fname, "rb") as f:
        return pickle.load(f)


def rfile(crop, i):
    return os.path.join(
        crop.location, "results", "xyz-result-{}.jbdmp".format(i)
    )


def bfile(crop, i):
    return os.path.join(
        crop.location, "batches", "xyz-batch-{}.jbdmp".format(i)
    )


def snapshot(crop):
    d = os.path.join(crop.location, "results")
    return {f: open(os.path.join(d, f), "rb").read() for f in os.listdir(d)}


def load_error_text(fname):
    """The text of the error that unpickling ``fname`` gives."""
    try:
        read_pickle(fname)
    except Exception as e:
        return str(e)
    raise AssertionError("expected {} to be unloadable".format(fname))


def run_check_bad(crop, *args, **kwargs):
    out = io.StringIO()
    with contextlib.redirect_stdout(out):
        bad = crop.check_bad(*args, **kwargs)
    return bad, out.getvalue()


def check_progress(crop, n, present, tag):
    check(
        sorted(os.listdir(os.path.join(crop.location, "results")))
        == sorted("xyz-result-{}.jbdmp".format(i) for i in present),
        tag + ": files on disk",
    )
    check(crop.num_sown_batches == n, tag + ": sown")
    check(crop.num_results == len(present), tag + ": num_results")
    check(
        crop.missing_results()
        == tuple(i for i in range(1, n + 1) if i not in present),
        tag + ": missing",
    )
    check(crop.is_ready_to_reap() == (len(present) == n), tag + ": ready")


CORRUPTIONS = ("short", "long", "empty_tuple", "garbage", "truncated",
               "zero_bytes")


def corrupt(crop, i, kind, good):
    """Make result ``i`` bad, return whether it is unloadable."""
    f = rfile(crop, i)
    if kind == "short":
        pickle.dump(good[:-1], open(f, "wb"))
    elif kind == "long":
        pickle.dump(good + (0,), open(f, "wb"))
    elif kind == "empty_tuple":
        pickle.dump((), open(f, "wb"))
    elif kind == "garbage":
        open(f, "wb").write(b"this is not a pickle")
    elif kind == "truncated":
        data = pickle.dumps(good)
        open(f, "wb").write(data[: len(data) // 2])
    elif kind == "zero_bytes":
        open(f, "wb").close()
    return kind in ("garbage", "truncated", "zero_bytes")


def run_sequence(seed, n, batchsize, tmp):
    rng = random.Random(seed)
    name = "cb_{}_{}_{}".format(seed, n, batchsize)
    crop = Crop(fn=fn, name=name, parent_dir=tmp, batchsize=batchsize)
    combos = {"a": list(range(n * batchsize))}
    crop.sow_combos(combos, verbosity=0)
    expected = {
        i: tuple(fn(**c) for c in read_pickle(bfile(crop, i)))
        for i in range(1, n + 1)
    }

    # nothing grown: nothing to check
    check(run_check_bad(crop) == ((), ""), name + ": empty crop")

    present = set()  # result file exists
    bad = {}  # batch id -> unloadable?

    for step in range(12):
        op = rng.choice(
            ["grow", "grow_subset", "grow_missing", "grow_failing", "corrupt",
             "corrupt", "delete", "check_bad_delete", "check_bad_keep",
             "check_bad_positional", "resow", "reload"]
        )
        tag = "{} step {} ({})".format(name, step, op)

        if op == "grow":
            i = rng.randint(1, n)
            crop.grow(i, verbosity=0)
            present.add(i)
            bad.pop(i, None)
        elif op == "grow_subset":
            ids = rng.sample(range(1, n + 1), rng.randint(0, n))
            crop.grow(ids, verbosity=0)
            present.update(ids)
            for i in ids:
                bad.pop(i, None)
        elif op == "grow_missing":
            crop.grow_missing(verbosity=0)
            present = set(range(1, n + 1))
            # bad results that still exist are *not* regrown by this
            check(crop.is_ready_to_reap(), tag + ": ready")
        elif op == "grow_failing":
            i = rng.randint(1, n)
            before = snapshot(crop)
            try:
                cropping.grow(i, crop=crop, fn=failing, verbosity=0)
            except RuntimeError:
                pass
            else:
                raise AssertionError(tag + ": should raise")
            check(snapshot(crop) == before, tag + ": nothing written")
        elif op == "corrupt":
            if present:
                i = rng.choice(sorted(present))
                kind = rng.choice(CORRUPTIONS)
                if batchsize == 1 and kind == "short":
                    kind = "empty_tuple"
                bad[i] = corrupt(crop, i, kind, expected[i])
        elif op == "delete":
            i = rng.randint(1, n)
            if i in present:
                os.remove(rfile(crop, i))
                present.discard(i)
                bad.pop(i, None)
        elif op.startswith("check_bad"):
            if op == "check_bad_delete":
                delete, call = True, lambda: run_check_bad(crop)
            elif op == "check_bad_keep":
                delete, call = False, lambda: run_check_bad(
                    crop, delete_bad=False
                )
            else:
                delete = rng.choice([True, False, 1, 0, "yes", ""])
                call = lambda: run_check_bad(crop, delete)

            # what should be printed, one line per bad result
            lines = set()
            for i, unloadable in bad.items():
                line = "result {} is bad".format(rfile(crop, i))
                line += " - deleting it." if delete else "."
                if unloadable:
                    line += " Error was: " + load_error_text(rfile(crop, i))
                lines.add(line)
            before = snapshot(crop)

            bad_ids, out = call()
            STATS["bad_unloadable"] += sum(bad.values())
            STATS["bad_wrong_length"] += len(bad) - sum(bad.values())
            STATS["deleted" if delete else "kept"] += len(bad)

            check(type(bad_ids) is tuple, tag + ": returns a tuple")
            check(
                all(type(b) is str for b in bad_ids), tag + ": ids are str"
            )
            check(
                sorted(bad_ids) == sorted(str(i) for i in bad),
                "{}: bad ids {} != {}".format(tag, bad_ids, sorted(bad)),
            )
            check(len(set(bad_ids)) == len(bad_ids), tag + ": no duplicates")
            out_lines = out.split("\n")
            check(out_lines[-1] == "", tag + ": output ends with newline")
            check(
                len(out_lines) - 1 == len(bad) and set(out_lines[:-1]) == lines,
                "{}: printed {!r} != {!r}".format(tag, out, lines),
            )
            # order of reports == order of returned ids
            for b, line in zip(bad_ids, out_lines):
                check(
                    "xyz-result-{}.jbdmp is bad".format(b) in line,
                    tag + ": order",
                )

            after = snapshot(crop)
            if delete:
                present -= set(bad)
                check(
                    after
                    == {
                        f: c
                        for f, c in before.items()
                        if f
                        not in {
                            "xyz-result-{}.jbdmp".format(i) for i in bad
                        }
                    },
                    tag + ": exactly the bad ones deleted",
                )
                bad.clear()
                # now a second check finds nothing
                check(run_check_bad(crop) == ((), ""), tag + ": clean after")
            else:
                check(after == before, tag + ": nothing deleted / changed")
        elif op == "resow":
            crop.sow_combos(combos, verbosity=0)
        elif op == "reload":
            crop = Crop(name=name, parent_dir=tmp)

        check_progress(crop, n, present, tag)
        for i in present:
            if i not in bad:
                check(
                    read_pickle(rfile(crop, i)) == expected[i],
                    tag + ": good result content",
                )

    # standard recovery: drop bad results, regrow what is missing, reap
    bad_ids, _ = run_check_bad(crop)
    check(sorted(bad_ids) == sorted(map(str, bad)), name + ": final bad ids")
    present -= set(bad)
    check_progress(crop, n, present, name + " after final check_bad")
    missing = crop.missing_results()
    before = snapshot(crop)
    crop.grow_missing(verbosity=0)
    after = snapshot(crop)
    check(
        set(after) - set(before)
        == {"xyz-result-{}.jbdmp".format(i) for i in missing},
        name + ": grow_missing grew exactly the missing",
    )
    check(all(after[f] == before[f] for f in before), name + ": others kept")
    check_progress(crop, n, set(range(1, n + 1)), name + " final")
    check(run_check_bad(crop) == ((), ""), name + ": final all good")
    with contextlib.redirect_stderr(io.StringIO()):
        res = crop.reap()
    check(
        tuple(res) == tuple(fn(a) for a in range(n * batchsize)),
        name + ": reaped values",
    )


def test_missing_batch_file(tmp):
    # a result whose batch file vanished: check_bad raises (before and after)
    crop = Crop(fn=fn, name="nobatch", parent_dir=tmp, batchsize=1)
    crop.sow_combos({"a": [1, 2]}, verbosity=0)
    crop.grow_missing(verbosity=0)
    os.remove(bfile(crop, 2))
    before = snapshot(crop)
    try:
        run_check_bad(crop)
    except FileNotFoundError:
        pass
    else:
        raise AssertionError("missing batch file should raise")
    check(snapshot(crop) == before, "nobatch: nothing deleted")


def test_unsized_result(tmp):
    # a loadable result without a length: TypeError propagates
    crop = Crop(fn=fn, name="unsized", parent_dir=tmp, batchsize=1)
    crop.sow_combos({"a": [1]}, verbosity=0)
    pickle.dump(3, open(rfile(crop, 1), "wb"))
    try:
        run_check_bad(crop)
    except TypeError:
        pass
    else:
        raise AssertionError("unsized result should raise TypeError")
    check(os.path.exists(rfile(crop, 1)), "unsized: file kept")


def test_non_tuple_same_length(tmp):
    # only the length is compared
    crop = Crop(fn=fn, name="listres", parent_dir=tmp, batchsize=2)
    crop.sow_combos({"a": [1, 2, 3, 4]}, verbosity=0)
    pickle.dump(["x", "y"], open(rfile(crop, 1), "wb"))
    pickle.dump("ab", open(rfile(crop, 2), "wb"))
    check(run_check_bad(crop) == ((), ""), "same length => fine")
    check(crop.is_ready_to_reap(), "listres: ready")


def main():
    with tempfile.TemporaryDirectory() as tmp:
        seed = 0
        for n in range(1, 9):
            for batchsize in (1, 2, 3):
                for _ in range(8):
                    seed += 1
                    run_sequence(seed, n, batchsize, tmp)
        test_missing_batch_file(tmp)
        test_unsized_result(tmp)
        test_non_tuple_same_length(tmp)

    print("checks:", CHECKS[0], STATS)
    check(all(v > 20 for v in STATS.values()), "demo covers all cases")
    print("PASS")


if __name__ == "__main__":
    main()
