"""Demo for C01 / t6: how calls are handed to the execution strategy and how
their results are gathered (``_submit``, ``_get_result``,
``_run_linear_executor``, ``_run_linear_sequential``) and, through them,
``combo_runner``.

Run as:  cd <worktree> && /venv/bin/python /path/to/demo.py
"""
import sys
import os

sys.path.insert(0, os.getcwd())

import io
import glob
import random
import shutil
import tempfile
import itertools
import contextlib
import warnings
import multiprocessing
import multiprocessing.pool
from concurrent.futures import ThreadPoolExecutor, ProcessPoolExecutor

warnings.simplefilter("ignore")

import numpy as np

import xyzpy
from xyzpy.gen import combo_runner as cr

assert os.path.abspath(xyzpy.__file__).startswith(os.getcwd()), xyzpy.__file__


# --------------------------------------------------------------------------- #
# functions that are swept (module level so that process pools can use them)

def mark(logdir, tag):
    # one file per call, O_EXCL makes a second identical call noticeable
    if logdir is None:
        return
    n = 0
    while True:
        try:
            fd = os.open(os.path.join(logdir, f"{tag}.{n}"),
                         os.O_CREAT | os.O_EXCL | os.O_WRONLY)
            os.close(fd)
            return
        except FileExistsError:
            n += 1


def fn_scalar(logdir=None, scale=1, **kws):
    mark(logdir, "_".join(f"{k}={kws[k]!r}" for k in sorted(kws)))
    return repr(tuple(sorted(kws.items()))) + f"*{scale}"


def fn_tuple(logdir=None, scale=1, **kws):
    mark(logdir, "_".join(f"{k}={kws[k]!r}" for k in sorted(kws)))
    return repr(tuple(sorted(kws.items()))), len(kws) * scale


def fn_array(logdir=None, scale=1, **kws):
    mark(logdir, "_".join(f"{k}={kws[k]!r}" for k in sorted(kws)))
    return np.array([float(sum(map(ord, repr(sorted(kws.items())))) % 1000), scale])


def fn_boom(a, b):
    if (a, b) == (2, "y"):
        raise ValueError("boom 2 y")
    return (a, b)


def expected_nested(fn, combos, constants, pick=None):
    """Nested tuple built directly from the definition of the property."""
    args = [a for a, _ in combos]
    vals = [v for _, v in combos]

    def rec(i, chosen):
        if i == len(args):
            res = fn(**dict(zip(args, chosen)), **constants)
            return res if pick is None else res[pick]
        return tuple(rec(i + 1, chosen + (v,)) for v in vals[i])

    return rec(0, ())


def same(x, y):
    if isinstance(x, np.ndarray) or isinstance(y, np.ndarray):
        return (isinstance(x, np.ndarray) and isinstance(y, np.ndarray)
                and x.shape == y.shape and bool((x == y).all()))
    if isinstance(x, tuple) or isinstance(y, tuple):
        return (type(x) is type(y) and len(x) == len(y)
                and all(same(p, q) for p, q in zip(x, y)))
    return type(x) is type(y) and x == y


# --------------------------------------------------------------------------- #
# stand-in executors

class RecFuture:
    def __init__(self, log, i, value, how):
        self.log, self.i, self.value = log, i, value
        setattr(self, how, self._take)

    def _take(self):
        self.log.append(("take", self.i))
        return self.value


class SubmitOnly:
    """concurrent.futures spelling, evaluates eagerly, records every event."""

    def __init__(self, how="result"):
        self.log, self.how = [], how

    def submit(self, fn, *args, **kwds):
        i = sum(1 for e in self.log if e[0] == "submit")
        self.log.append(("submit", i, args, dict(kwds)))
        return RecFuture(self.log, i, fn(*args, **kwds), self.how)


class ApplyAsyncOnly:
    """ipyparallel view spelling: apply_async(fn, *args, **kwds)."""

    def __init__(self):
        self.log = []

    def apply_async(self, fn, *args, **kwds):
        i = sum(1 for e in self.log if e[0] == "submit")
        self.log.append(("submit", i, args, dict(kwds)))
        return RecFuture(self.log, i, fn(*args, **kwds), "get")


class Both(SubmitOnly):
    """Has both spellings: ``submit`` must be the one that is used."""

    def apply_async(self, fn, *args, **kwds):
        raise AssertionError("apply_async used although submit exists")


class Neither:
    def __repr__(self):
        return "<Neither>"


class LateFuture:
    """Completion in reverse order of submission (results arrive 'late')."""

    def __init__(self, pool, i, thunk):
        self.pool, self.i, self.thunk = pool, i, thunk

    def result(self):
        # everything submitted after this one completes first
        for j in reversed(range(self.i, len(self.pool.futs))):
            f = self.pool.futs[j]
            if not hasattr(f, "value"):
                f.value = f.thunk()
                self.pool.done.append(j)
        return self.value


class ReversedCompletion:
    def __init__(self):
        self.futs, self.done = [], []

    def submit(self, fn, *args, **kwds):
        f = LateFuture(self, len(self.futs), lambda: fn(*args, **kwds))
        self.futs.append(f)
        return f


class BothGetters:
    def result(self):
        return "from-result"

    def get(self):
        raise AssertionError("get used although result exists")


class GetOnly:
    def get(self):
        return "from-get"


class RaisingFuture:
    def result(self):
        raise TypeError("raised by the future itself")


# --------------------------------------------------------------------------- #

def quiet(f, *args, **kwargs):
    err = io.StringIO()
    with contextlib.redirect_stderr(err):
        out = f(*args, **kwargs)
    return out, err.getvalue()


def check_helpers():
    # ---- _submit: which method and how the arguments are passed ----------- #
    def f(*args, **kwds):
        return ("f", args, kwds)

    ex = SubmitOnly()
    fut = cr._submit(ex, f, 1, 2, x=3)
    assert ex.log == [("submit", 0, (1, 2), {"x": 3})]
    assert cr._get_result(fut) == ("f", (1, 2), {"x": 3})

    ex = ApplyAsyncOnly()
    fut = cr._submit(ex, f, 1, x=3, pool=4, args=5, kwds=6)
    assert ex.log == [
        ("submit", 0, (1,), {"x": 3, "pool": 4, "args": 5, "kwds": 6})]
    assert cr._get_result(fut) == (
        "f", (1,), {"x": 3, "pool": 4, "args": 5, "kwds": 6})

    ex = Both()
    assert cr._get_result(cr._submit(ex, f, y=1)) == ("f", (), {"y": 1})

    with multiprocessing.pool.ThreadPool(2) as tp:
        fut = cr._submit(tp, f, 7, z=8)
        assert isinstance(fut, multiprocessing.pool.AsyncResult)
        assert cr._get_result(fut) == ("f", (7,), {"z": 8})

    try:
        cr._submit(Neither(), f, a=1)
    except TypeError as e:
        assert str(e) == ("The executor supplied, <Neither>, does not have a "
                          "``submit`` or ``apply_async`` method."), str(e)
    else:
        raise AssertionError("no TypeError for an executor without methods")

    # an argument named like the helper's own parameters collides as before
    for bad in ({"executor": 1}, {"fn": 1}):
        try:
            cr._submit(SubmitOnly(), f, **bad)
        except TypeError as e:
            assert "multiple values" in str(e)
        else:
            raise AssertionError("expected a collision")

    # ---- _get_result ------------------------------------------------------ #
    assert cr._get_result(BothGetters()) == "from-result"
    assert cr._get_result(GetOnly()) == "from-get"
    try:
        cr._get_result(object())
    except TypeError as e:
        assert str(e) == "Future does not have a `result` or `get` method."
    else:
        raise AssertionError("no TypeError for a future without methods")
    try:
        cr._get_result(RaisingFuture())
    except TypeError as e:
        assert str(e) == "raised by the future itself"
    else:
        raise AssertionError("the future's own error was swallowed")

    # ---- _run_linear_sequential ------------------------------------------ #
    calls = []

    def g(**kws):
        calls.append(dict(kws))
        return sorted(kws.items())

    settings = [{"a": i, "b": s} for i in (3, 1, 2) for s in "xy"]
    for verbosity in (0, 1, 2):
        for seq in (settings, tuple(settings)):
            del calls[:]
            out, err = quiet(cr._run_linear_sequential, g, seq,
                             verbosity=verbosity)
            assert type(out) is list
            assert out == [sorted(k.items()) for k in settings]
            assert calls == settings
            if verbosity == 0:
                assert err == ""
            else:
                assert "6/6" in err
            if verbosity == 2:
                assert str(settings[-1]) in err
            else:
                assert "'a'" not in err

    out, err = quiet(cr._run_linear_sequential, g, [], verbosity=1)
    assert out == []

    # an exception of the function propagates unchanged, later calls not made
    del calls[:]

    def h(**kws):
        calls.append(kws)
        if len(calls) == 3:
            raise KeyError("third")
        return 0

    try:
        quiet(cr._run_linear_sequential, h, settings, verbosity=1)
    except KeyError as e:
        assert e.args == ("third",)
    else:
        raise AssertionError
    assert len(calls) == 3

    # ---- _run_linear_executor -------------------------------------------- #
    for make in (SubmitOnly, ApplyAsyncOnly, Both,
                 lambda: SubmitOnly(how="get")):
        for verbosity in (0, 1, 2):
            del calls[:]
            ex = make()
            out, err = quiet(cr._run_linear_executor, ex, g, settings,
                             verbosity=verbosity)
            assert type(out) is list
            assert out == [sorted(k.items()) for k in settings]
            assert calls == settings
            n = len(settings)
            # everything is submitted (in order, keywords only) before the
            # first result is taken, results are taken in submission order
            assert ex.log == (
                [("submit", i, (), settings[i]) for i in range(n)] +
                [("take", i) for i in range(n)]
            ), ex.log
            if verbosity == 0:
                assert err == ""
            else:
                assert "6/6" in err
            if verbosity == 2:
                assert "Submitting to executor..." in err
                assert str(settings[-1]) in err
            else:
                assert "Submitting" not in err

    # nothing to run: an unusable executor is not even looked at
    out, err = quiet(cr._run_linear_executor, Neither(), g, [], verbosity=2)
    assert out == []
    try:
        quiet(cr._run_linear_executor, Neither(), g, settings[:1], verbosity=0)
    except TypeError as e:
        assert "<Neither>" in str(e)
    else:
        raise AssertionError

    # results that complete in reverse order still land in submission order
    ex = ReversedCompletion()
    del calls[:]
    out, _ = quiet(cr._run_linear_executor, ex, g, settings, verbosity=0)
    assert out == [sorted(k.items()) for k in settings]
    assert ex.done == list(reversed(range(len(settings))))
    assert calls == list(reversed(settings))


def shuffled_order(n, seed):
    random.seed(int(seed))
    idx = list(range(n))
    random.shuffle(idx)
    return idx


def check_combo_runner(tmp):
    grids = [
        {"a": [1, 2, 3]},
        (("a", [2, 1]), ("b", ["x", "y", "z"])),
        {"a": [1.5, -2.0], "b": ["p"], "c": [3, 1, 2, 0]},
        ("a", [4, 5]),
        {"a": [1, 2], "b": [3.0, 4.0], "c": ["u", "v"], "d": [0, 9],
         "e": ["k"]},
    ]
    constant_sets = [None, {"scale": 3}]
    fns = [(fn_scalar, None), (fn_tuple, 2), (fn_array, None)]

    # the forking pools first, before this process has any threads
    mpp = multiprocessing.Pool(2)
    ppe = ProcessPoolExecutor(2)
    assert ppe.submit(fn_scalar, a=1).result() == "(('a', 1),)*1"
    tpe = ThreadPoolExecutor(3)
    mtp = multiprocessing.pool.ThreadPool(3)

    strategies = [
        ("seq", lambda: {}),
        ("shuffle-true", lambda: {"shuffle": True}),
        ("shuffle-7", lambda: {"shuffle": 7}),
        ("submit", lambda: {"executor": SubmitOnly()}),
        ("apply_async", lambda: {"executor": ApplyAsyncOnly()}),
        ("reversed", lambda: {"executor": ReversedCompletion(),
                              "shuffle": 3}),
        ("threads", lambda: {"executor": tpe}),
        ("procs", lambda: {"executor": ppe, "shuffle": 11}),
        ("mp.Pool", lambda: {"executor": mpp}),
        ("mp.ThreadPool", lambda: {"executor": mtp, "shuffle": 2}),
        ("parallel", lambda: {"parallel": True}),
        ("num_workers", lambda: {"num_workers": 2, "shuffle": 5}),
        ("parallel-int", lambda: {"parallel": 2}),
    ]
    heavy = {"procs", "mp.Pool", "parallel", "num_workers", "parallel-int"}

    n_checked = 0
    try:
        for gi, grid in enumerate(grids):
            parsed = xyzpy.gen.prepare.parse_combos(grid)
            names = [a for a, _ in parsed]
            all_settings = [dict(zip(names, p)) for p in
                            itertools.product(*(v for _, v in parsed))]
            for constants in constant_sets:
                for fn, nout in fns:
                    for sname, opts in strategies:
                        if sname in heavy and (gi % 2 == 0) == (nout is None):
                            # keep the run time reasonable
                            continue
                        for split, flat in ((False, False), (False, True),
                                            (True, False), (True, True)):
                            if split and nout is None:
                                continue
                            logdir = tempfile.mkdtemp(dir=tmp)
                            consts = dict(constants or {}, logdir=logdir)
                            kw = opts()
                            out, _ = quiet(
                                xyzpy.combo_runner, fn, grid,
                                constants=consts, split=split, flat=flat,
                                verbosity=1, **kw)

                            ref_consts = dict(constants or {})

                            def want(pick=None):
                                if flat:
                                    rs = [fn(**s, **ref_consts)
                                          for s in all_settings]
                                    if pick is not None:
                                        rs = [r[pick] for r in rs]
                                    return tuple(rs)
                                return expected_nested(
                                    fn, parsed, ref_consts, pick)

                            if split:
                                exp = tuple(want(i) for i in range(nout))
                            else:
                                exp = want()
                            assert same(out, exp), (sname, grid, split, flat)

                            # exactly one call per combination, nothing else
                            made = sorted(os.path.basename(p) for p in
                                          glob.glob(os.path.join(
                                              glob.escape(logdir), "*")))
                            tags = sorted(
                                "_".join(f"{k}={s[k]!r}" for k in sorted(s))
                                + ".0" for s in all_settings)
                            assert made == tags, (sname, made, tags)

                            ex = kw.get("executor")
                            if isinstance(ex, (SubmitOnly, ApplyAsyncOnly)):
                                n = len(all_settings)
                                order = (shuffled_order(n, kw["shuffle"])
                                         if kw.get("shuffle") else range(n))
                                assert ex.log == (
                                    [("submit", i, (),
                                      dict(all_settings[j], **consts))
                                     for i, j in enumerate(order)] +
                                    [("take", i) for i in range(n)])
                            if isinstance(ex, ReversedCompletion):
                                assert ex.done == list(
                                    reversed(range(len(all_settings))))
                            shutil.rmtree(logdir)
                            n_checked += 1

        # call order of the sequential strategies
        for shuffle in (False, True, 1, 5, 123):
            seen = []

            def rec(a, b, k):
                seen.append((a, b, k))
                return a * 10 + b

            out, _ = quiet(xyzpy.combo_runner, rec,
                           {"a": [3, 1, 2], "b": [0, 5]},
                           constants={"k": "c"}, shuffle=shuffle)
            assert out == ((30, 35), (10, 15), (20, 25))
            full = [(a, b, "c") for a in (3, 1, 2) for b in (0, 5)]
            order = shuffled_order(6, shuffle) if shuffle else range(6)
            assert seen == [full[j] for j in order], (shuffle, seen)

        # an exception of the function comes back through every strategy
        for kw in ({}, {"executor": tpe}, {"executor": ppe},
                   {"executor": mpp}, {"executor": SubmitOnly()},
                   {"parallel": True}, {"shuffle": 4}):
            try:
                quiet(xyzpy.combo_runner, fn_boom,
                      {"a": [1, 2], "b": ["x", "y"]}, **kw)
            except ValueError as e:
                assert str(e) == "boom 2 y"
            else:
                raise AssertionError(kw)

        # unusable executor
        try:
            quiet(xyzpy.combo_runner, fn_boom, {"a": [1], "b": ["x"]},
                  executor=Neither())
        except TypeError as e:
            assert "<Neither>" in str(e)
        else:
            raise AssertionError
    finally:
        tpe.shutdown()
        ppe.shutdown()
        mpp.close()
        mpp.join()
        mtp.close()
        mtp.join()
        from joblib.externals.loky import get_reusable_executor
        get_reusable_executor().shutdown(wait=True)

    assert n_checked > 150, n_checked
    return n_checked


def main():
    tmp = tempfile.mkdtemp(prefix="c01_t6_")
    try:
        check_helpers()
        n = check_combo_runner(tmp)
    finally:
        shutil.rmtree(tmp, ignore_errors=True)
    print(f"checked {n} sweep configurations")
    print("PASS")


if __name__ == "__main__":
    main()
