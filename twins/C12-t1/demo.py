"""Demo / check for property C12: a crop is deleted only after its data has
been safely delivered.

Run as:  cd <worktree> && /venv/bin/python /path/to/demo.py

Focus of this demo: the resolution of the ``clean_up`` / ``allow_incomplete``
settings (``calc_clean_up_default_res``, ``Crop.reap_combos``,
``Crop.reap_combos_to_ds``, ``Crop.reap_harvest``, ``Crop.reap_samples``) for
every farmer kind, plus failure injection at every stage of the reap followed
by a corrected retry.
"""
import itertools
import math
import os
import shutil
import sys
import tempfile
import threading
import time
import warnings

sys.path.insert(0, os.getcwd())
warnings.filterwarnings("ignore")

import numpy as np  # noqa: E402
import pandas as pd  # noqa: E402
import xarray as xr  # noqa: E402

import xyzpy  # noqa: E402
from xyzpy.gen import cropping  # noqa: E402
from xyzpy.gen.cropping import Crop, write_to_disk  # noqa: E402
from xyzpy.utils import XYZError  # noqa: E402

# silence the progress bars (cosmetic only)
import xyzpy.gen.combo_runner as _cr  # noqa: E402

_progbar = _cr.progbar
_cr.progbar = lambda *a, **k: _progbar(*a, **dict(k, disable=True))

assert os.path.dirname(os.path.abspath(xyzpy.__file__)).startswith(
    os.path.abspath(os.getcwd())
), xyzpy.__file__

NCHECK = [0]


def check(cond, msg):
    NCHECK[0] += 1
    if not cond:
        print("FAIL:", msg)
        sys.exit(1)


def fn(a, b):
    return a + 10 * b


def fn2(a, b):
    return a + 10 * b, float(a) / b


COMBOS = (("a", [1, 2, 3]), ("b", [10, 20]))
EXPECTED = tuple(tuple(fn(a, b) for b in [10, 20]) for a in [1, 2, 3])


def snapshot(d):
    """Map of every file (relative path) in ``d`` to its bytes."""
    out = {}
    for root, dirs, files in os.walk(d):
        for dn in dirs:
            out[os.path.relpath(os.path.join(root, dn), d) + os.sep] = None
        for f in files:
            p = os.path.join(root, f)
            with open(p, "rb") as fh:
                out[os.path.relpath(p, d)] = fh.read()
    return out


def effective(clean_up, allow_incomplete):
    return (not allow_incomplete) if clean_up is None else bool(clean_up)


def raises(excs, f, *args, **kwargs):
    try:
        f(*args, **kwargs)
    except excs as e:
        return e
    except BaseException as e:  # wrong kind
        print("FAIL: unexpected exception type", type(e), e)
        raise
    return None


def nested_equal(x, y):
    if isinstance(x, tuple):
        return (
            isinstance(y, tuple)
            and len(x) == len(y)
            and all(nested_equal(p, q) for p, q in zip(x, y))
        )
    if isinstance(x, float) and math.isnan(x):
        return isinstance(y, float) and math.isnan(y)
    return x == y


def new_plain_crop(tmp, name, grow=(1, 2, 3), **kw):
    kw.setdefault("batchsize", 2)
    c = Crop(fn=fn, name=name, parent_dir=tmp, **kw)
    c.sow_combos(COMBOS, verbosity=0)
    for i in grow:
        cropping.grow(i, crop=c, verbosity=0)
    return c


BOOLS = (False, True)
CLEAN = (None, True, False)

# --------------------------------------------------------------------------- #
# 0. the helper that chooses the clean-up setting and default result
# --------------------------------------------------------------------------- #


def part_helper(tmp):
    c = new_plain_crop(tmp, "helper")
    for cu, ai in itertools.product(CLEAN, BOOLS):
        got_cu, got_default = cropping.calc_clean_up_default_res(c, cu, ai)
        check(bool(got_cu) == effective(cu, ai), ("helper clean", cu, ai))
        if cu is not None:
            check(got_cu is cu, ("explicit passed through", cu, ai))
        if ai:
            check(
                isinstance(got_default, float) and math.isnan(got_default),
                ("nan default", cu, ai, got_default),
            )
        else:
            check(got_default is cropping._NO_DEFAULT, ("no default", cu, ai))
    # default result for an incomplete reap requires one finished result
    c2 = new_plain_crop(tmp, "helper2", grow=())
    check(
        raises(XYZError, cropping.calc_clean_up_default_res, c2, None, True)
        is not None,
        "all-nan result needs at least one result",
    )
    check(os.path.isdir(c2.location), "crop kept")


# --------------------------------------------------------------------------- #
# 1. plain crops (no farmer), complete and incomplete
# --------------------------------------------------------------------------- #


def part_plain(tmp):
    n = 0
    for cu, ai, wait, via in itertools.product(
        CLEAN, BOOLS, BOOLS, ("reap", "reap_combos")
    ):
        n += 1
        c = new_plain_crop(tmp, "plain{}".format(n))
        res = getattr(c, via)(clean_up=cu, allow_incomplete=ai, wait=wait)
        check(res == EXPECTED, ("plain results", cu, ai, wait, via, res))
        check(
            os.path.exists(c.location) == (not effective(cu, ai)),
            ("plain deletion", cu, ai, wait, via),
        )
        shutil.rmtree(c.location, ignore_errors=True)

    # incomplete crop, not allowed -> raises, nothing touched, retry exact
    for cu in CLEAN:
        n += 1
        c = new_plain_crop(tmp, "plain{}".format(n), grow=(1, 3))
        before = snapshot(c.location)
        e = raises(XYZError, c.reap, clean_up=cu)
        check(e is not None and "not ready" in str(e), ("not ready", cu))
        check(snapshot(c.location) == before, ("untouched not ready", cu))
        c.grow_missing(verbosity=0)
        res = c.reap(clean_up=cu)
        check(res == EXPECTED, ("retry exact", cu))
        check(
            os.path.exists(c.location) == (not effective(cu, False)),
            ("retry deletion", cu),
        )
        shutil.rmtree(c.location, ignore_errors=True)

    # incomplete crop, allowed -> nan for the missing batch
    nan = float("nan")
    for cu, missing in itertools.product(CLEAN, (1, 2, 3)):
        n += 1
        grow = tuple(i for i in (1, 2, 3) if i != missing)
        c = new_plain_crop(tmp, "plain{}".format(n), grow=grow)
        before = snapshot(c.location)
        res = c.reap(clean_up=cu, allow_incomplete=True)
        flat = [fn(a, b) for a in [1, 2, 3] for b in [10, 20]]
        flat[2 * (missing - 1): 2 * missing] = [nan, nan]
        exp = tuple(tuple(flat[2 * i: 2 * i + 2]) for i in range(3))
        check(nested_equal(res, exp), ("incomplete results", cu, missing, res))
        kept = not effective(cu, True)
        check(os.path.exists(c.location) == kept, ("incomplete del", cu))
        if kept:
            check(snapshot(c.location) == before, "incomplete keeps files")
            c.grow_missing(verbosity=0)
            check(c.reap() == EXPECTED, "complete after incomplete")
            check(not os.path.exists(c.location), "deleted at the end")
        shutil.rmtree(c.location, ignore_errors=True)

    # uneven batches (num_batches=4 over 6 cases -> sizes 2, 2, 1, 1)
    for missing in (1, 2, 3, 4):
        n += 1
        grow = tuple(i for i in (1, 2, 3, 4) if i != missing)
        c = new_plain_crop(
            tmp, "plain{}".format(n), grow=grow, batchsize=None, num_batches=4
        )
        res = c.reap(allow_incomplete=True)
        flat = [fn(a, b) for a in [1, 2, 3] for b in [10, 20]]
        sl = {1: (0, 2), 2: (2, 4), 3: (4, 5), 4: (5, 6)}[missing]
        flat[sl[0]: sl[1]] = [nan] * (sl[1] - sl[0])
        exp = tuple(tuple(flat[2 * i: 2 * i + 2]) for i in range(3))
        check(nested_equal(res, exp), ("uneven incomplete", missing, res))
        check(os.path.exists(c.location), "uneven incomplete kept")
        c.grow_missing(verbosity=0)
        check(c.reap() == EXPECTED, "uneven complete")
        check(not os.path.exists(c.location), "uneven deleted")

    # wait=True on an incomplete crop: blocks until the result appears
    c = new_plain_crop(tmp, "plainwait", grow=(1, 2))

    def late():
        time.sleep(0.6)
        cropping.grow(3, crop=c, verbosity=0)

    t = threading.Thread(target=late)
    t0 = time.time()
    t.start()
    res = c.reap(wait=True)
    t.join()
    check(res == EXPECTED, "waited results")
    check(time.time() - t0 >= 0.5, "really waited")
    check(not os.path.exists(c.location), "waited crop deleted")


# --------------------------------------------------------------------------- #
# 2. unreadable / empty / too many results
# --------------------------------------------------------------------------- #


def part_bad_results(tmp):
    n = 0
    for cu, ai, wait, kind in itertools.product(
        CLEAN, BOOLS, BOOLS, ("garbage", "empty", "none", "long", "dir")
    ):
        n += 1
        c = new_plain_crop(tmp, "bad{}".format(n))
        rfile = os.path.join(c.location, "results", cropping.RSLT_NM.format(2))
        if kind == "garbage":
            with open(rfile, "wb") as f:
                f.write(b"this is not a pickle")
        elif kind == "empty":
            write_to_disk((), rfile)
        elif kind == "none":
            write_to_disk(None, rfile)
        elif kind == "long":
            write_to_disk((1, 2, 3), rfile)
        elif kind == "dir":
            os.remove(rfile)
            os.mkdir(rfile)
        before = snapshot(c.location)
        e = raises(
            Exception, c.reap, clean_up=cu, allow_incomplete=ai, wait=wait
        )
        if kind == "dir" and ai and not wait and e is None:
            # the directory is not a result *file* -> may be filled with nan
            # (depends on which result the nan-template is inferred from)
            kept = not effective(cu, ai)
            check(os.path.exists(c.location) == kept, "dir/missing deletion")
        else:
            check(e is not None, ("bad result raises", cu, ai, wait, kind))
            check(
                snapshot(c.location) == before,
                ("bad result leaves crop", cu, ai, wait, kind),
            )
            if kind == "long":
                check(isinstance(e, XYZError), "not all results reaped")
            if kind in ("empty", "none") and not ai:
                check(
                    isinstance(e, ValueError) and "no data" in str(e),
                    ("no data error", cu, ai, wait, kind, repr(e)),
                )
            if kind == "dir" and wait and not ai:
                check(
                    isinstance(e, ValueError) and "not a file" in str(e),
                    "not a file error",
                )
            # correct the cause and retry -> exact results
            if kind == "dir":
                os.rmdir(rfile)
            else:
                os.remove(rfile)
            c.grow_missing(verbosity=0)
            res = c.reap(clean_up=cu, allow_incomplete=ai, wait=wait)
            check(res == EXPECTED, ("bad result retry", cu, ai, wait, kind))
            check(
                os.path.exists(c.location) == (not effective(cu, ai)),
                ("bad result retry deletion", cu, ai, wait, kind),
            )
        shutil.rmtree(c.location, ignore_errors=True)


# --------------------------------------------------------------------------- #
# 3. Runner: wrong output description
# --------------------------------------------------------------------------- #


def expected_ds():
    return xr.Dataset(
        {"x": (("a", "b"), np.array(EXPECTED))},
        coords={"a": [1, 2, 3], "b": [10, 20]},
    )


def part_runner(tmp):
    n = 0
    for cu, ai, wait, to_df in itertools.product(CLEAN, BOOLS, BOOLS, BOOLS):
        n += 1
        # wrong description: fn returns one number, two are declared
        # (or, for dataframes, an internal dimension is declared)
        if to_df:
            bad = xyzpy.Runner(
                fn, var_names=["x"], var_dims={"x": ["t"]},
                var_coords={"t": [1, 2]},
            )
        else:
            bad = xyzpy.Runner(fn, var_names=["x", "y"])
        c = bad.Crop(name="run{}".format(n), parent_dir=tmp, batchsize=4)
        c.sow_combos(COMBOS, verbosity=0)
        c.grow_missing(verbosity=0)
        before = snapshot(c.location)
        kw = dict(clean_up=cu, allow_incomplete=ai, wait=wait)
        if to_df:
            e = raises(Exception, c.reap_runner, bad, to_df=True, **kw)
        else:
            e = raises(Exception, c.reap, **kw)
        check(e is not None, ("wrong description raises", cu, ai, wait, to_df))
        check(
            snapshot(c.location) == before,
            ("wrong description leaves crop", cu, ai, wait, to_df),
        )
        # corrected retry
        good = xyzpy.Runner(fn, var_names="x")
        c2 = good.Crop(name="run{}".format(n), parent_dir=tmp)
        if to_df:
            df = c2.reap_runner(good, to_df=True, **kw)
            check(good._last_df is df, "last_df set")
            got = {(r.a, r.b): r.x for r in df.itertuples()}
            exp = {(a, b): fn(a, b) for a in [1, 2, 3] for b in [10, 20]}
            check(got == exp, ("df exact", got))
        else:
            ds = c2.reap(**kw)
            check(good.last_ds is ds, "last_ds set")
            check(ds.identical(expected_ds()), ("ds exact", cu, ai, wait))
        check(
            os.path.exists(c2.location) == (not effective(cu, ai)),
            ("runner deletion", cu, ai, wait, to_df),
        )
        shutil.rmtree(c2.location, ignore_errors=True)

    # incomplete runner crop
    for cu in CLEAN:
        n += 1
        r = xyzpy.Runner(fn, var_names="x")
        c = r.Crop(name="run{}".format(n), parent_dir=tmp, batchsize=2)
        c.sow_combos(COMBOS, verbosity=0)
        cropping.grow(1, crop=c, verbosity=0)
        cropping.grow(2, crop=c, verbosity=0)
        before = snapshot(c.location)
        check(raises(XYZError, c.reap, clean_up=cu) is not None, "not ready")
        check(snapshot(c.location) == before, "runner not ready untouched")
        ds = c.reap(clean_up=cu, allow_incomplete=True)
        check(bool(np.isnan(ds["x"].sel(a=3)).all()), "nan filled")
        check(
            bool((ds["x"].sel(a=[1, 2]) == expected_ds()["x"].sel(a=[1, 2]))
                 .all()),
            "finished part exact",
        )
        kept = not effective(cu, True)
        check(os.path.exists(c.location) == kept, ("runner inc. del", cu))
        if kept:
            c.grow_missing(verbosity=0)
            check(c.reap().identical(expected_ds()), "runner complete exact")
            check(not os.path.exists(c.location), "runner complete deleted")


# --------------------------------------------------------------------------- #
# 4. Harvester: merge conflict, save error, ordering of save and delete
# --------------------------------------------------------------------------- #


def part_harvester(tmp):
    n = 0
    real_delete_all = Crop.delete_all
    for cu, ai, wait, failure in itertools.product(
        CLEAN, BOOLS, BOOLS, ("conflict", "save", "describe", "none")
    ):
        n += 1
        data_name = os.path.join(tmp, "harv{}.h5".format(n))
        r = xyzpy.Runner(fn, var_names="x")
        h = xyzpy.Harvester(r, data_name=data_name, engine="h5netcdf")
        existing = None
        if failure == "conflict":
            # existing on-disk data that conflicts with the new results
            existing = xr.Dataset(
                {"x": (("a", "b"), np.array([[-1.0]]))},
                coords={"a": [1], "b": [10]},
            )
            h.save_full_ds(existing)
            h._full_ds = None
        c = h.Crop(name="harv{}".format(n), parent_dir=tmp, batchsize=3)
        c.sow_combos(COMBOS, verbosity=0)
        c.grow_missing(verbosity=0)
        before = snapshot(c.location)
        kw = dict(clean_up=cu, allow_incomplete=ai, wait=wait)

        if failure == "conflict":
            e = raises(xr.MergeError, c.reap, **kw)
            check(e is not None, ("conflict raises", cu, ai, wait))
            retry_kw = dict(kw, overwrite=True)
        elif failure == "save":
            real_save = h.save_full_ds

            def broken_save(*args, **kwargs):
                raise OSError("disk full (injected)")

            h.save_full_ds = broken_save
            e = raises(OSError, c.reap, **kw)
            check(e is not None and "injected" in str(e), "save error raises")
            h.save_full_ds = real_save
            h._full_ds = None
            retry_kw = kw
        elif failure == "describe":
            r._var_names = ("x", "y")
            e = raises(Exception, c.reap, **kw)
            check(e is not None, "harvester wrong description raises")
            r._var_names = ("x",)
            retry_kw = kw
        else:
            retry_kw = kw

        if failure != "none":
            check(
                snapshot(c.location) == before,
                ("harvester failure leaves crop", cu, ai, wait, failure),
            )
            if failure == "conflict":
                on_disk = xr.load_dataset(data_name, engine="h5netcdf")
                check(on_disk.identical(existing), "existing data untouched")
            else:
                check(not os.path.exists(data_name), "nothing saved")

        # (corrected) reap: record what is on disk when the crop is deleted
        seen = []

        def spying_delete_all(self):
            ok = os.path.isfile(data_name)
            if ok:
                saved = xr.load_dataset(data_name, engine="h5netcdf")
                ok = bool((saved["x"] == expected_ds()["x"]).all())
            seen.append(ok)
            return real_delete_all(self)

        Crop.delete_all = spying_delete_all
        try:
            ds = c.reap(**retry_kw)
        finally:
            Crop.delete_all = real_delete_all
        check(ds.identical(expected_ds()), ("harvest exact", cu, ai, failure))
        check(h.last_ds is ds, "harvester last_ds")
        saved = xr.load_dataset(data_name, engine="h5netcdf")
        check(
            bool((saved["x"] == expected_ds()["x"]).all())
            and saved["x"].shape == (3, 2),
            ("saved exact", cu, ai, wait, failure),
        )
        deleted = effective(cu, ai)
        check(
            os.path.exists(c.location) == (not deleted),
            ("harvester deletion", cu, ai, wait, failure),
        )
        check(
            seen == ([True] if deleted else []),
            ("deleted once, only after save", cu, ai, wait, failure, seen),
        )
        h._full_ds = None
        shutil.rmtree(c.location, ignore_errors=True)

    # sync=False: no merging, but clean_up still honoured
    for cu, ai in itertools.product(CLEAN, BOOLS):
        n += 1
        data_name = os.path.join(tmp, "harv{}.h5".format(n))
        h = xyzpy.Harvester(
            xyzpy.Runner(fn, var_names="x"), data_name=data_name
        )
        c = h.Crop(name="harv{}".format(n), parent_dir=tmp, batchsize=3)
        c.sow_combos(COMBOS, verbosity=0)
        c.grow_missing(verbosity=0)
        ds = c.reap(sync=False, clean_up=cu, allow_incomplete=ai)
        check(ds.identical(expected_ds()), "nosync exact")
        check(not os.path.exists(data_name), "nosync nothing saved")
        check(
            os.path.exists(c.location) == (not effective(cu, ai)),
            ("nosync deletion", cu, ai),
        )
        shutil.rmtree(c.location, ignore_errors=True)

    # no harvester given
    c = new_plain_crop(tmp, "noharv")
    before = snapshot(c.location)
    check(raises(ValueError, c.reap_harvest, None) is not None, "no harvester")
    check(raises(ValueError, c.reap_samples, None) is not None, "no sampler")
    check(snapshot(c.location) == before, "untouched")

    # incomplete harvester crop
    for cu in CLEAN:
        n += 1
        data_name = os.path.join(tmp, "harv{}.h5".format(n))
        h = xyzpy.Harvester(
            xyzpy.Runner(fn, var_names="x"), data_name=data_name
        )
        c = h.Crop(name="harv{}".format(n), parent_dir=tmp, batchsize=2)
        c.sow_combos(COMBOS, verbosity=0)
        cropping.grow(2, crop=c, verbosity=0)
        cropping.grow(3, crop=c, verbosity=0)
        before = snapshot(c.location)
        check(raises(XYZError, c.reap, clean_up=cu) is not None, "h not ready")
        check(snapshot(c.location) == before, "h not ready untouched")
        check(not os.path.exists(data_name), "h not ready nothing saved")
        c.grow_missing(verbosity=0)
        ds = c.reap(clean_up=cu)
        check(ds.identical(expected_ds()), "h retry exact")
        check(
            os.path.exists(c.location) == (not effective(cu, False)),
            "h retry deletion",
        )
        h._full_ds = None
        shutil.rmtree(c.location, ignore_errors=True)


# --------------------------------------------------------------------------- #
# 5. Sampler
# --------------------------------------------------------------------------- #


def part_sampler(tmp):
    n = 0
    real_delete_all = Crop.delete_all
    for cu, ai, wait, failure in itertools.product(
        CLEAN, BOOLS, BOOLS, ("save", "none")
    ):
        n += 1
        data_name = os.path.join(tmp, "samp{}.pkl".format(n))
        r = xyzpy.Runner(fn, var_names="x")
        s = xyzpy.Sampler(
            r, data_name=data_name,
            default_combos={"a": [1, 2, 3], "b": [10, 20]},
        )
        c = s.Crop(name="samp{}".format(n), parent_dir=tmp, batchsize=3)
        c.sow_samples(7, verbosity=0)
        c.grow_missing(verbosity=0)
        before = snapshot(c.location)
        kw = dict(clean_up=cu, allow_incomplete=ai, wait=wait)

        if failure == "save":
            real_save = s.save_full_df

            def broken_save(*args, **kwargs):
                raise OSError("disk full (injected)")

            s.save_full_df = broken_save
            e = raises(OSError, c.reap, **kw)
            check(e is not None and "injected" in str(e), "df save raises")
            check(snapshot(c.location) == before, "df save leaves crop")
            check(not os.path.exists(data_name), "df nothing saved")
            s.save_full_df = real_save
            s._full_df = None

        seen = []

        def spying_delete_all(self):
            ok = os.path.isfile(data_name)
            if ok:
                saved = pd.read_pickle(data_name)
                ok = len(saved) == 7 and bool(
                    (saved["x"] == saved["a"] + 10 * saved["b"]).all()
                )
            seen.append(ok)
            return real_delete_all(self)

        Crop.delete_all = spying_delete_all
        try:
            df = c.reap(**kw)
        finally:
            Crop.delete_all = real_delete_all
        check(len(df) == 7, "7 samples")
        check(bool((df["x"] == df["a"] + 10 * df["b"]).all()), "samples exact")
        check(s.last_df is df, "sampler last_df")
        saved = pd.read_pickle(data_name)
        check(saved.equals(df.copy(deep=True)[saved.columns]), "saved df")
        deleted = effective(cu, ai)
        check(
            os.path.exists(c.location) == (not deleted),
            ("sampler deletion", cu, ai, wait, failure),
        )
        check(
            seen == ([True] if deleted else []),
            ("sampler deleted once, after save", cu, ai, wait, failure, seen),
        )
        shutil.rmtree(c.location, ignore_errors=True)


def main():
    tmp = tempfile.mkdtemp(prefix="c12demo_")
    try:
        part_helper(tmp)
        part_plain(tmp)
        part_bad_results(tmp)
        part_runner(tmp)
        part_harvester(tmp)
        part_sampler(tmp)
    finally:
        shutil.rmtree(tmp, ignore_errors=True)
    print("checks:", NCHECK[0])
    print("PASS")


if __name__ == "__main__":
    main()
