"""Demo for twin t1 (C04): batch-division + Sower refactoring.

Run as:  cd <worktree> && /venv/bin/python /path/to/demo.py
"""
import os
import sys

sys.path.insert(0, os.getcwd())

import contextlib
import glob
import io
import itertools
import math
import pickle
import random
import shutil
import tempfile

import numpy as np

import xyzpy
from xyzpy.gen.cropping import Crop, Sower, XYZError

assert os.path.dirname(os.path.dirname(os.path.abspath(xyzpy.__file__))) == \
    os.getcwd(), xyzpy.__file__


def fn(a, b, c=0):
    return 100 * a + 10 * b + c


def fn2(a, b):
    return a - b, float(a * b)


# ------------------------------------------------------------------ model --

def model_batch_sizes(n, batchsize=None, num_batches=None):
    """Independent model of how n settings are divided into batches."""
    if num_batches is None:
        b = 1 if batchsize is None else batchsize
        sizes = [b] * (n // b)
        if n % b:
            sizes.append(n % b)
        return b, math.ceil(n / b), 0, sizes
    k = min(n, num_batches)
    q, r = divmod(n, k)
    return q, k, r, [q + 1] * r + [q] * (k - r)


def model_sow_order(settings, shuffle):
    if not shuffle:
        return list(settings)
    random.seed(int(shuffle))
    es = list(enumerate(settings))
    random.shuffle(es)
    return [s for _, s in es]


def read(fname):
    with open(fname, "rb") as f:
        return pickle.load(f)


def batch_listing(crop):
    names = sorted(os.listdir(os.path.join(crop.location, "batches")))
    return names


def check_batches_on_disk(crop, expected_flat, sizes):
    names = batch_listing(crop)
    want = sorted("xyz-batch-{}.jbdmp".format(i + 1)
                  for i in range(len(sizes)))
    assert names == want, (names, want)
    got_flat = []
    for i, size in enumerate(sizes):
        batch = read(os.path.join(crop.location, "batches",
                                  "xyz-batch-{}.jbdmp".format(i + 1)))
        assert isinstance(batch, list)
        assert len(batch) == size, (i, len(batch), size, sizes)
        got_flat.extend(batch)
    assert got_flat == expected_flat, (got_flat, expected_flat)
    # nothing else (no left over temporary files) in the crop folder
    assert sorted(os.listdir(crop.location)) == [
        "batches", "results", "xyz-function.clpkl", "xyz-settings.jbdmp"
    ], os.listdir(crop.location)


# -------------------------------------------------------------- sow_combos --

GRIDS = [
    {"a": [1]},                                   # n = 1
    {"a": [1, 2], "b": [1, 2, 3]},                 # n = 6
    {"b": [5, 6, 7, 8, 9, 10, 11]},                # n = 7 (prime)
    {"b": [1, 2, 3], "a": [4, 3, 2, 1]},           # n = 12 (unsorted keys)
    {"a": range(5), "b": range(8)},                # n = 40
]
count = 0


def batch_options(n):
    yield {}
    if n <= 12:
        for b in range(1, n + 2):
            yield {"batchsize": b}
        for k in range(1, n + 3):
            yield {"num_batches": k}
    else:
        for b in (1, 3, 7, 13, 39, 40, 41):
            yield {"batchsize": b}
        for k in (1, 3, 6, 7, 11, 39, 40, 42):
            yield {"num_batches": k}


def run_grid_checks(tmp):
    global count
    shuffles = [(False, "ctor"), (True, "sow"), (3, "ctor"), (7, "sow")]
    i = 0
    for grid in GRIDS:
        constants = {"c": 5} if "b" in grid and "a" in grid else (
            {"a": 2} if "a" not in grid else {"b": 1})
        combos_sorted = sorted(((k, tuple(v)) for k, v in grid.items()))
        n = 1
        for _, v in combos_sorted:
            n *= len(v)
        names = [k for k, _ in combos_sorted]
        settings = [
            {**dict(zip(names, vals)), **constants}
            for vals in itertools.product(*(v for _, v in combos_sorted))
        ]
        # (a crop always sows and reaps with the arguments sorted by name)
        direct = xyzpy.combo_runner(fn, combos_sorted, constants=constants,
                                    verbosity=0)

        for opts in batch_options(n):
            i += 1
            shuffle, where = shuffles[i % len(shuffles)]
            how_opts = ("ctor", "sow")[(i // 4) % 2]
            name = "g{}".format(i)

            ctor_kws = dict(fn=fn, name=name, parent_dir=tmp)
            sow_kws = dict(constants=constants, verbosity=0)
            (ctor_kws if how_opts == "ctor" else sow_kws).update(opts)
            if where == "ctor":
                ctor_kws["shuffle"] = shuffle
                # the sow-call default (False) overrides the constructor
                # value for combos - whatever happens, crop.shuffle says
                # what was used
            else:
                sow_kws["shuffle"] = shuffle

            crop = Crop(**ctor_kws)
            crop.sow_combos(grid, **sow_kws)
            used_shuffle = crop.shuffle

            bsz, nb, rem, sizes = model_batch_sizes(n, **opts)
            assert (crop.batchsize, crop.num_batches,
                    crop._batch_remainder) == (bsz, nb, rem), (
                opts, n, crop.batchsize, crop.num_batches,
                crop._batch_remainder)
            assert sum(sizes) == n and len(sizes) == nb

            check_batches_on_disk(
                crop, model_sow_order(settings, used_shuffle), sizes)

            info = crop.load_info()
            assert info["batchsize"] == bsz
            assert info["num_batches"] == nb
            assert info["_batch_remainder"] == rem
            assert info["shuffle"] == used_shuffle
            assert info["combos"] == [(k, list(v)) for k, v in combos_sorted]
            assert info["constants"] == constants

            # a fresh crop only knowing the name and directory
            crop2 = Crop(name=name, parent_dir=tmp)
            assert (crop2.batchsize, crop2.num_batches,
                    crop2._batch_remainder) == (bsz, nb, rem)
            assert crop2.num_sown_batches == nb
            assert crop2.missing_results() == tuple(range(1, nb + 1))

            # grow in a scrambled order, some repeated
            ids = list(range(1, nb + 1))
            random.Random(i).shuffle(ids)
            for bid in ids + ids[:2]:
                xyzpy.grow(bid, crop=crop2, verbosity=0)

            crop3 = Crop(name=name, parent_dir=tmp)
            assert crop3.is_ready_to_reap()
            res = crop3.reap()
            assert res == direct, (opts, shuffle, res, direct)
            assert not os.path.exists(crop3.location)
            count += 1


# ----------------------------------------------------------------- re-sow --

def run_resow_checks(tmp):
    grid = {"a": [1, 2, 3], "b": [1, 2, 3, 4, 5]}  # n = 15
    crop = Crop(fn=fn, name="resow", parent_dir=tmp, num_batches=4)
    crop.sow_combos(grid, verbosity=0)
    assert (crop.batchsize, crop.num_batches, crop._batch_remainder) \
        == (3, 4, 3)
    crop.grow((1, 3), verbosity=0)
    before = {f: read(os.path.join(crop.location, "batches", f))
              for f in batch_listing(crop)}

    # re-sow, both batchsize and num_batches now set (+ remainder): consistent
    crop.sow_combos(grid, verbosity=0)
    after = {f: read(os.path.join(crop.location, "batches", f))
             for f in batch_listing(crop)}
    assert before == after
    assert [len(after["xyz-batch-{}.jbdmp".format(i)])
            for i in range(1, 5)] == [4, 4, 4, 3]
    assert crop.missing_results() == (2, 4)

    # re-sow through a fresh crop loaded from disk
    crop2 = Crop(fn=fn, name="resow", parent_dir=tmp)
    crop2.sow_combos(grid, verbosity=0)
    assert (crop2.batchsize, crop2.num_batches, crop2._batch_remainder) \
        == (3, 4, 3)

    # re-sow with a grid of a different size -> inconsistent
    for bad in ({"a": [1, 2, 3], "b": [1, 2, 3, 4]},      # 12 < 15 - ...
                {"a": [1, 2, 3, 4], "b": [1, 2, 3, 4, 5]}):
        try:
            crop2.sow_combos(bad, verbosity=0)
        except ValueError as e:
            assert str(e) == (
                "`batchsize` and `num_batches` cannot both"
                "be specified if they do not not multiply"
                "to the correct number of total cases."), str(e)
        else:
            raise AssertionError("should have raised")
        # settings untouched
        assert (crop2.batchsize, crop2.num_batches,
                crop2._batch_remainder) == (3, 4, 3)
    # a grid which still 'fits': n=13, 3*4+3 = 15, 13 <= 15 < 16
    crop2.grow_missing(verbosity=0)
    assert crop2.reap() == xyzpy.combo_runner(fn, grid, verbosity=0)

    # both given by the user: no remainder is known, so (as the library
    # stands) the Sower's first comparison fails; its ``__exit__`` still
    # flushes the one collected case as batch 1
    for bsz, nb, ok in [(4, 4, True), (5, 3, True), (3, 5, True),
                        (2, 7, False), (4, 5, False), (15, 1, True),
                        (16, 1, True), (31, 1, True), (14, 1, False)]:
        c = Crop(fn=fn, name="both{}x{}".format(bsz, nb), parent_dir=tmp,
                 batchsize=bsz, num_batches=nb)
        try:
            c.sow_combos(grid, verbosity=0)
        except ValueError:
            assert not ok, (bsz, nb)
            assert not os.path.exists(c.location)
            continue
        except TypeError as e:
            assert ok, (bsz, nb)
            assert "NoneType" in str(e)
            assert c._batch_remainder is None
            assert batch_listing(c) == ["xyz-batch-1.jbdmp"]
            assert read(os.path.join(c.location, "batches",
                                     "xyz-batch-1.jbdmp")) \
                == [{"a": 1, "b": 1}]
            assert os.listdir(os.path.join(c.location, "results")) == []
            continue
        raise AssertionError((bsz, nb))


# ----------------------------------------------------------------- errors --

def run_error_checks(tmp):
    grid = {"a": [1, 2, 3], "b": [1, 2]}

    def attempt(exc, msg, **opts):
        name = "err" + "".join(
            c for c in repr(sorted(opts.items(), key=str)) if c.isalnum())
        c = Crop(fn=fn, name=name, parent_dir=tmp, **opts)
        try:
            c.sow_combos(grid, verbosity=0)
        except exc as e:
            if msg is not None:
                assert str(e) == msg, (str(e), msg)
        else:
            raise AssertionError("no error for {}".format(opts))
        assert not os.path.exists(c.location)
        return c

    c = attempt(ValueError, "`batchsize` must be >= 1.", batchsize=0)
    assert (c.batchsize, c.num_batches, c._batch_remainder) == (0, None, None)
    c = attempt(ValueError, "`batchsize` must be >= 1.", batchsize=-3)
    c = attempt(TypeError, "`batchsize` must be an integer.", batchsize=2.0)
    assert (c.batchsize, c.num_batches, c._batch_remainder) \
        == (2.0, None, None)
    c = attempt(TypeError, "`batchsize` must be an integer.", batchsize="2")
    c = attempt(ValueError, "`num_batches` must be >= 1.", num_batches=0)
    assert (c.batchsize, c.num_batches, c._batch_remainder) == (None, 0, None)
    c = attempt(ValueError, "`num_batches` must be >= 1.", num_batches=-1)
    c = attempt(TypeError, "`num_batches` must be an integer.",
                num_batches=2.5)
    assert (c.batchsize, c.num_batches, c._batch_remainder) \
        == (None, 2.5, None)
    # comparison inside ``min`` fails first for a str
    c = attempt(TypeError, None, num_batches="3")
    assert c.num_batches == "3"

    # float larger than n is capped to the (int) n and accepted
    c = Crop(fn=fn, name="floatcap", parent_dir=tmp, num_batches=100.0)
    c.sow_combos(grid, verbosity=0)
    assert (c.batchsize, c.num_batches, c._batch_remainder) == (1, 6, 0)
    assert type(c.num_batches) is int
    c.delete_all()

    # bools count as ints
    c = Crop(fn=fn, name="boolbs", parent_dir=tmp, batchsize=True)
    c.sow_combos(grid, verbosity=0)
    assert (c.batchsize, c.num_batches, c._batch_remainder) == (True, 6, 0)
    assert len(batch_listing(c)) == 6
    c.delete_all()

    # choose_batch_settings directly, with no combos or cases at all
    c = Crop(fn=fn, name="direct", parent_dir=tmp)
    c.choose_batch_settings()
    assert (c.batchsize, c.num_batches, c._batch_remainder) == (1, 1, 0)
    c = Crop(fn=fn, name="direct", parent_dir=tmp, num_batches=5)
    c.choose_batch_settings(combos=[], cases=())
    assert (c.batchsize, c.num_batches, c._batch_remainder) == (1, 1, 0)
    c = Crop(fn=fn, name="direct", parent_dir=tmp, num_batches=4)
    c.choose_batch_settings(combos=[("a", (1, 2, 3))],
                            cases=[{"b": 1}, {"b": 2}, {"b": 3}])
    assert (c.batchsize, c.num_batches, c._batch_remainder) == (2, 4, 1)
    # an empty combo axis -> zero settings
    c = Crop(fn=fn, name="direct", parent_dir=tmp, batchsize=3)
    c.choose_batch_settings(combos=[("a", ())])
    assert (c.batchsize, c.num_batches, c._batch_remainder) == (3, 0, 0)
    c = Crop(fn=fn, name="direct", parent_dir=tmp, num_batches=3)
    try:
        c.choose_batch_settings(combos=[("a", ())])
    except ValueError as e:
        assert str(e) == "`num_batches` must be >= 1."
        assert c.num_batches == 0
    else:
        raise AssertionError


# ------------------------------------------------------- the Sower itself --

class FakeCrop:
    def __init__(self, location, batchsize, remainder):
        self.location = location
        self.batchsize = batchsize
        self._batch_remainder = remainder


def run_sower_checks(tmp):
    loc = os.path.join(tmp, "fake")
    os.makedirs(os.path.join(loc, "batches"))
    fc = FakeCrop(loc, 2, 2)
    with Sower(fc) as sow:
        assert sow is not None
        for i in range(9):
            sow(i=i)
            # files appear exactly when a batch fills
            done = len(os.listdir(os.path.join(loc, "batches")))
            assert done == {0: 0, 1: 0, 2: 1, 3: 1, 4: 1, 5: 2, 6: 2, 7: 3,
                            8: 3}[i], (i, done)
            assert sow._batch_counter == done
            assert sow._counter == len(sow._batch_cases)
    sizes = [len(read(os.path.join(loc, "batches",
                                   "xyz-batch-{}.jbdmp".format(k))))
             for k in (1, 2, 3, 4)]
    assert sizes == [3, 3, 2, 1], sizes
    assert sorted(os.listdir(os.path.join(loc, "batches"))) == [
        "xyz-batch-{}.jbdmp".format(k) for k in (1, 2, 3, 4)]
    assert read(os.path.join(loc, "batches", "xyz-batch-4.jbdmp")) \
        == [{"i": 8}]

    # nothing sown -> nothing written
    shutil.rmtree(loc)
    os.makedirs(os.path.join(loc, "batches"))
    with Sower(FakeCrop(loc, 2, 0)):
        pass
    assert os.listdir(os.path.join(loc, "batches")) == []

    # unknown remainder -> the comparison itself fails, nothing is written
    # but the case was already collected
    sower = Sower(FakeCrop(loc, 2, None))
    try:
        sower(i=0)
    except TypeError:
        pass
    else:
        raise AssertionError
    assert sower._batch_cases == [{"i": 0}] and sower._counter == 1
    assert sower._batch_counter == 0
    assert os.listdir(os.path.join(loc, "batches")) == []

    # missing directory: the counter has moved on when the write fails
    sower = Sower(FakeCrop(os.path.join(tmp, "nonexistent"), 1, 0))
    try:
        sower(i=0)
    except FileNotFoundError:
        pass
    else:
        raise AssertionError
    assert sower._batch_counter == 1 and sower._batch_cases == [{"i": 0}]
    shutil.rmtree(loc)


# --------------------------------------------------- sow_cases / samples --

def run_cases_checks(tmp):
    runner = xyzpy.Runner(fn2, var_names=["diff", "prod"],
                          fn_args=["a", "b"])
    cases = [(1, 2), (3, 4), (5, 6), (7, 8), (2, 1), (4, 4), (9, 1)]
    direct = runner.run_cases(cases, verbosity=0)
    n = len(cases)
    k = 0
    for shuffle in (False, True, 5):
        for opts in [{}] + [{"batchsize": b} for b in range(1, n + 2)] + \
                [{"num_batches": m} for m in range(1, n + 3)]:
            k += 1
            name = "cases{}".format(k)
            r = xyzpy.Runner(fn2, var_names=["diff", "prod"],
                             fn_args=["a", "b"])
            if k % 2:
                crop = xyzpy.Crop(farmer=r, name=name, parent_dir=tmp,
                                  shuffle=shuffle, **opts)
                crop.sow_cases(None, cases, verbosity=0)
            else:
                crop = xyzpy.Crop(farmer=r, name=name, parent_dir=tmp,
                                  shuffle=shuffle)
                crop.sow_cases(("a", "b"), cases, verbosity=0, **opts)
            bsz, nb, rem, sizes = model_batch_sizes(n, **opts)
            assert (crop.batchsize, crop.num_batches,
                    crop._batch_remainder) == (bsz, nb, rem)
            settings = [{"a": a, "b": b} for a, b in cases]
            check_batches_on_disk(
                crop, model_sow_order(settings, shuffle), sizes)

            fresh = xyzpy.Crop(name=name, parent_dir=tmp)
            ids = list(range(1, nb + 1))
            random.Random(k).shuffle(ids)
            fresh.grow(ids[: nb // 2], verbosity=0)
            fresh = xyzpy.Crop(name=name, parent_dir=tmp)
            assert set(fresh.missing_results()) == set(ids[nb // 2:])
            fresh.grow_missing(verbosity=0)
            ds = xyzpy.Crop(name=name, parent_dir=tmp).reap()
            assert ds.identical(direct), (opts, shuffle)

    # cases together with combos: n = 3 cases * 4 combos
    def fn3(a, b, c):
        return a * 100 + b * 10 + c

    cs = [(1, 2), (3, 4), (5, 6)]
    cb = (("c", [1, 2, 3, 4]),)
    # (``sow_cases`` wants its combos already in parsed form)
    crop = xyzpy.Crop(fn=fn3, name="ccdict", parent_dir=tmp)
    try:
        crop.sow_cases(("a", "b"), cs, combos={"c": [1, 2, 3, 4]},
                       verbosity=0)
    except ValueError as e:
        assert "unpack" in str(e)
        assert not os.path.exists(crop.location)
    else:
        raise AssertionError
    from xyzpy.gen.combo_runner import combo_runner_core
    direct = combo_runner_core(
        fn3, cb, {}, cases=[{"a": a, "b": b} for a, b in cs], verbosity=0)
    flat = xyzpy.case_runner(fn3, ("a", "b"), cs, combos=cb, verbosity=0)
    assert sorted(flat) == sorted(
        x for x in np.array(direct).ravel().tolist() if x == x)
    for opts, sizes in [({"num_batches": 5}, [3, 3, 2, 2, 2]),
                        ({"batchsize": 5}, [5, 5, 2]),
                        ({"num_batches": 14}, [1] * 12)]:
        crop = xyzpy.Crop(fn=fn3, name="cc", parent_dir=tmp, shuffle=2,
                          **opts)
        crop.sow_cases(("a", "b"), cs, combos=cb, verbosity=0)
        got = [len(read(os.path.join(crop.location, "batches",
                                     "xyz-batch-{}.jbdmp".format(i + 1))))
               for i in range(len(sizes))]
        assert got == sizes and len(batch_listing(crop)) == len(sizes), got
        crop.grow_missing(verbosity=0)
        assert crop.reap() == direct


def run_samples_checks(tmp):
    runner = xyzpy.Runner(fn2, var_names=["diff", "prod"])
    for k, opts in enumerate([{}, {"batchsize": 4}, {"num_batches": 3},
                              {"num_batches": 20}]):
        sampler = xyzpy.Sampler(
            runner, default_combos={"a": [1, 2, 3, 4], "b": [10, 20, 30]})
        np.random.seed(42)
        fn_args, cases = sampler.gen_cases_fnargs(11)
        np.random.seed(42)
        direct = sampler.runner.run_cases(cases, fn_args=fn_args,
                                          to_df=True, verbosity=0)
        np.random.seed(42)
        crop = sampler.Crop(name="samp{}".format(k), parent_dir=tmp, **opts)
        crop.sow_samples(11, verbosity=0)
        bsz, nb, rem, sizes = model_batch_sizes(11, **opts)
        assert (crop.batchsize, crop.num_batches,
                crop._batch_remainder) == (bsz, nb, rem)
        settings = [dict(zip(fn_args, c)) for c in cases]
        check_batches_on_disk(crop, settings, sizes)
        crop.grow_missing(verbosity=0)
        df = crop.reap(sync=False)
        assert df.equals(direct)


def main():
    tmp = tempfile.mkdtemp(prefix="c04-t1-")
    cwd = os.getcwd()
    try:
      # (reaping always shows a progress bar on stderr - keep it quiet)
      with contextlib.redirect_stderr(io.StringIO()):
        run_sower_checks(tmp)
        run_error_checks(tmp)
        run_resow_checks(tmp)
        run_grid_checks(tmp)
        run_cases_checks(tmp)
        run_samples_checks(tmp)
    finally:
        os.chdir(cwd)
        shutil.rmtree(tmp, ignore_errors=True)
    assert not glob.glob(os.path.join(cwd, ".xyz-*"))
    print("grid configurations checked:", count)
    print("PASS")


if __name__ == "__main__":
    main()
