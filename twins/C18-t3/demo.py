"""Demo for refactoring 3 (aggregation block of Infiniplotter.__init__): aggregated central lines and the drawn error ranges for every aggregate_err_range option.

Property C18: infiniplot draws each data slice once, correctly styled and
correctly placed; the input dataset is never modified.  Everything drawn is
compared with an independent numpy oracle.  Run from the worktree root:

    cd <worktree> && /venv/bin/python /path/to/demo.py

Prints PASS and exits 0 on success.
"""
import copy
import itertools
import os
import sys
import warnings

sys.path.insert(0, os.getcwd())
os.environ.setdefault("MPLBACKEND", "Agg")

import matplotlib

matplotlib.use("Agg")
import matplotlib.pyplot as plt
import numpy as np
import xarray as xr
from matplotlib.collections import LineCollection, PolyCollection, QuadMesh
from matplotlib.colors import to_rgba

import xyzpy
from xyzpy.plot import infiniplot as ipmod
from xyzpy.plot.infiniplot import Infiniplotter, infiniplot

assert os.path.abspath(xyzpy.__file__).startswith(os.getcwd()), xyzpy.__file__

STYLE_PROPS = ("hue", "color", "marker", "markersize", "linewidth", "linestyle")
ALL_PROPS = STYLE_PROPS + ("row", "col")
NCHECKS = [0]


def check(cond, msg):
    NCHECKS[0] += 1
    if not cond:
        raise AssertionError(msg)


# ----------------------------------------------------------------- datasets #


def make_ds(seed, sizes, nx=6, nan_points=0.15, dead_labels=(), dead_slices=0,
            with_err=False, x_as_var=False):
    """Random dataset ``y[dims..., x]`` with NaN patterns.

    dead_labels: sequence of (dim, index) whose whole hyper-slab is NaN
    dead_slices: number of single lines (all non-x coords fixed) set to NaN
    """
    rng = np.random.default_rng(seed)
    dims = list(sizes)
    shape = [sizes[d] for d in dims] + [nx]
    y = rng.normal(size=shape)
    y[rng.random(size=shape) < nan_points] = np.nan
    for dim, i in dead_labels:
        idx = [slice(None)] * len(shape)
        idx[dims.index(dim)] = i
        y[tuple(idx)] = np.nan
    for _ in range(dead_slices):
        idx = tuple(int(rng.integers(sizes[d])) for d in dims)
        y[idx] = np.nan
    coords = {}
    for d in dims:
        n = sizes[d]
        if d in ("a", "c"):
            coords[d] = [f"{d}{i}" for i in range(n)]
        elif d == "b":
            coords[d] = [10 * (i + 1) for i in range(n)]
        else:
            coords[d] = [0.5 * i for i in range(n)]
    data_vars = {"y": (dims + ["x"], y)}
    if with_err:
        e = np.abs(rng.normal(size=shape)) * 0.1
        e[np.isnan(y)] = np.nan
        data_vars["ye"] = (dims + ["x"], e)
    if x_as_var:
        xv = np.cumsum(np.abs(rng.normal(size=shape)), axis=-1)
        data_vars["xv"] = (dims + ["x"], xv)
        coords["x"] = np.arange(nx)
    else:
        coords["x"] = np.linspace(0.0, 1.0, nx) ** 2 + 0.1
    data_vars["junk"] = (dims[:1], rng.normal(size=shape[:1]))
    return xr.Dataset(data_vars, coords=coords)


# ------------------------------------------------------------------- oracle #


def _dimname(d):
    return ", ".join(d) if isinstance(d, (tuple, list)) else d


def oracle_prepare(ds, yname, assign, orders, extra_vars=()):
    """Independent reimplementation of 'select, order and drop dead labels'."""
    d = ds[[yname, *extra_vars]]
    mapped = []
    for prop in ("hue", "color", "marker", "markersize", "linestyle",
                 "linewidth", "col", "row"):
        dim = assign.get(prop)
        if dim is None:
            continue
        if isinstance(dim, (tuple, list)):
            new = ", ".join(dim)
            if new not in d.dims:
                d = d.stack({new: list(dim)})
            dim = new
        if orders.get(prop) is not None:
            d = d.sel({dim: list(orders[prop])})
        if dim not in mapped:
            mapped.append(dim)
        # drop labels that carry no data at all (in any variable)
        alive = np.zeros(d.sizes[dim], dtype=bool)
        for v in d.data_vars:
            if dim in d[v].dims:
                other = [k for k in d[v].dims if k != dim]
                alive |= np.asarray(d[v].notnull().any(other).values)
            else:
                alive |= bool(d[v].notnull().any())
        d = d.isel({dim: np.flatnonzero(alive)})
    return d, mapped


def np_aggregate(da, dims, fn):
    """Aggregate DataArray over dims with a nan-aware numpy function."""
    keep = [k for k in da.dims if k not in dims]
    arr = da.transpose(*keep, *dims).values
    arr = arr.reshape(arr.shape[: len(keep)] + (-1,))
    with warnings.catch_warnings():
        warnings.simplefilter("ignore")
        out = fn(arr, axis=-1)
    return xr.DataArray(out, dims=keep, coords={k: da[k] for k in keep})


def oracle_lines(ds, x, yname, assign, orders=None, aggregate=False,
                 join_across_missing=False, err_range=0.5,
                 aggregate_method="median", x_is_var=False):
    """Return list of expected line records."""
    orders = orders or {}
    extra = [x] if x_is_var else []
    d, mapped = oracle_prepare(ds, yname, assign, orders, extra)
    xdim = "x" if x_is_var else x  # with x a variable it is linked along "x"
    unmapped = sorted(k for k in d[yname].dims if k not in mapped and k != xdim)
    lo = hi = None
    if aggregate is not None and aggregate is not False and not isinstance(aggregate, bool):
        # explicit dimension(s) to aggregate over, the rest is still iterated
        unmapped = [aggregate] if isinstance(aggregate, str) else list(aggregate)
        aggregate = True
    if aggregate:
        da = d[yname]
        central = {"median": np.nanmedian, "mean": np.nanmean,
                   "max": np.nanmax, "min": np.nanmin}[aggregate_method]
        if err_range == "std":
            m = np_aggregate(da, unmapped, np.nanmean)
            s = np_aggregate(da, unmapped, np.nanstd)
            lo, hi = m - s, m + s
        elif err_range == "stderr":
            m = np_aggregate(da, unmapped, np.nanmean)
            s = np_aggregate(da, unmapped, np.nanstd)
            n = np_aggregate(da, unmapped, lambda a, axis: np.sum(~np.isnan(a), axis=axis))
            with warnings.catch_warnings():
                warnings.simplefilter("ignore")
                lo, hi = m - s / np.sqrt(n), m + s / np.sqrt(n)
        else:
            r = min(max(0.0, err_range), 1.0)
            lo = np_aggregate(da, unmapped, lambda a, axis: np.nanquantile(a, 0.5 - r / 2, axis=axis))
            hi = np_aggregate(da, unmapped, lambda a, axis: np.nanquantile(a, 0.5 + r / 2, axis=axis))
        dy = np_aggregate(da, unmapped, central)
        if x_is_var:
            dx = np_aggregate(d[x], unmapped, central)
    else:
        dy = d[yname]
        if x_is_var:
            dx = d[x]
    loop_dims = [k for k in dy.dims if k != xdim]
    rowdim = _dimname(assign.get("row"))
    coldim = _dimname(assign.get("col"))
    key_dims = []
    for prop in STYLE_PROPS:
        dim = _dimname(assign.get(prop))
        if dim is not None and dim not in key_dims:
            key_dims.append(dim)
    recs = []
    for iloc in itertools.product(*(range(dy.sizes[k]) for k in loop_dims)):
        loc = dict(zip(loop_dims, iloc))
        yv = dy.isel(loc).values
        xv = dx.isel(loc).values if x_is_var else dy[xdim].values
        mask = ~np.isnan(yv)
        if x_is_var:
            mask &= ~np.isnan(xv)
        if not mask.any():
            continue
        sel = mask if join_across_missing else slice(None)
        rec = {
            "panel": (loc.get(rowdim, 0), loc.get(coldim, 0)),
            "loc": loc,
            "coords": {k: dy[k].values[i] for k, i in loc.items()},
            "label": ", ".join(str(dy[k].values[loc[k]]) for k in key_dims),
            "x": np.asarray(xv[sel], dtype=float),
            "y": np.asarray(yv[sel], dtype=float),
            "xraw": np.asarray(xv[mask], dtype=float),
            "yraw": np.asarray(yv[mask], dtype=float),
        }
        if lo is not None:
            rec["lo"] = lo.isel(loc).values[sel]
            rec["hi"] = hi.isel(loc).values[sel]
        recs.append(rec)
    shape = (dy.sizes.get(rowdim, 1), dy.sizes.get(coldim, 1))
    return recs, shape, dy


# --------------------------------------------------------- figure inspection #


def data_lines(ax):
    # errorbar caps are labelled "_nolegend_"; lines plotted with an empty
    # label get matplotlib's automatic "_childN" label
    return [l for l in ax.lines if l.get_label() != "_nolegend_"]


def line_label(l):
    lab = str(l.get_label())
    return "" if lab.startswith("_child") else lab


def _dash(l):
    for attr in ("_unscaled_dash_pattern", "_us_dashSeq"):
        if hasattr(l, attr):
            off, seq = getattr(l, attr)
            return (float(off), None if seq is None else tuple(float(s) for s in seq))
    return l.get_linestyle()


def line_style(l):
    return {
        "rgba": tuple(np.round(to_rgba(l.get_color()), 9)),
        "marker": l.get_marker(),
        "markersize": float(l.get_markersize()),
        "linewidth": float(l.get_linewidth()),
        "linestyle": _dash(l),
        "mec": tuple(np.round(to_rgba(l.get_markeredgecolor()), 9)),
        "alpha": l.get_alpha(),
        "drawstyle": l.get_drawstyle(),
    }


def same(a, b):
    a = np.asarray(a, dtype=float)
    b = np.asarray(b, dtype=float)
    return a.shape == b.shape and np.array_equal(a, b, equal_nan=True)


def close(a, b):
    a = np.asarray(a, dtype=float)
    b = np.asarray(b, dtype=float)
    return a.shape == b.shape and np.allclose(a, b, rtol=1e-12, atol=1e-12, equal_nan=True)


def match_lines(axs, recs, shape, tag, exact=True):
    """Every expected record is drawn exactly once, nothing else is drawn."""
    check(axs.shape == shape, f"{tag}: axes grid {axs.shape} != {shape}")
    cmp = same if exact else close
    matched = {}
    for (i, j), ax in np.ndenumerate(axs):
        lines = data_lines(ax)
        want = [r for r in recs if r["panel"] == (i, j)]
        check(len(lines) == len(want),
              f"{tag}: panel {(i, j)} has {len(lines)} lines, expected {len(want)}")
        free = list(lines)
        for r in want:
            hits = [l for l in free
                    if line_label(l) == r["label"]
                    and cmp(l.get_xdata(), r["x"]) and cmp(l.get_ydata(), r["y"])]
            check(len(hits) == 1,
                  f"{tag}: panel {(i, j)} slice {r['coords']} drawn {len(hits)} times")
            free.remove(hits[0])
            matched[id(r)] = hits[0]
        check(not free, f"{tag}: unexpected extra lines")
    return [(r, matched[id(r)]) for r in recs]


_STYLE_KEY = {"marker": "marker", "markersize": "markersize",
              "linewidth": "linewidth", "linestyle": "linestyle"}


def check_styles(pairs, assign, tag, sizes, customs=None, palette=None):
    """Equal mapped coordinate <=> equal style (while distinct defaults last)."""
    customs = customs or {}
    # everything not mapped must be constant over all lines
    mapped_keys = set()
    for prop in STYLE_PROPS:
        if assign.get(prop) is not None:
            mapped_keys.add("rgba" if prop in ("hue", "color") else prop)
    styles = [line_style(l) for _, l in pairs]
    for k in ("rgba", "marker", "markersize", "linewidth", "linestyle", "mec", "alpha", "drawstyle"):
        if k not in mapped_keys and styles:
            check(all(s[k] == styles[0][k] for s in styles),
                  f"{tag}: unmapped style {k} varies")
    for prop in ("marker", "markersize", "linewidth", "linestyle"):
        dim = _dimname(assign.get(prop))
        if dim is None:
            continue
        seen = {}
        for (r, l), s in zip(pairs, styles):
            c = r["coords"][dim]
            idx = r["loc"][dim]
            v = s[prop]
            if c in seen:
                check(seen[c] == v, f"{tag}: {prop} differs for equal {dim}={c}")
            seen[c] = v
            # exact default / custom value
            n = sizes[dim]
            if prop in customs:
                exp = customs[prop][idx]
                if prop == "linestyle":
                    probe = matplotlib.lines.Line2D([0], [0], linestyle=exp)
                    exp = _dash(probe)
            elif prop == "marker":
                exp = ipmod._MARKERS_DEFAULT[idx % len(ipmod._MARKERS_DEFAULT)]
            elif prop == "linestyle":
                ls = ipmod._LINESTYLES_DEFAULT[idx % len(ipmod._LINESTYLES_DEFAULT)]
                probe = matplotlib.lines.Line2D([0], [0], linestyle=ls)
                exp = _dash(probe)
            elif prop == "markersize":
                exp = float(np.linspace(3.0, 9.0, n)[idx])
            else:
                exp = float(np.linspace(1.0, 3.0, n)[idx])
            check(v == exp, f"{tag}: {prop} for {dim}[{idx}] is {v!r}, expected {exp!r}")
        ndistinct = {"marker": len(ipmod._MARKERS_DEFAULT),
                     "linestyle": len(ipmod._LINESTYLES_DEFAULT)}.get(prop, 10**9)
        if prop not in customs and len(seen) <= ndistinct:
            check(len(set(map(repr, seen.values()))) == len(seen),
                  f"{tag}: {prop} not distinct for distinct {dim}")
    # colour: keyed on (hue, color) coordinates
    cdims = [_dimname(assign.get(p)) for p in ("hue", "color") if assign.get(p) is not None]
    if cdims:
        seen = {}
        for (r, l), s in zip(pairs, styles):
            c = tuple(r["coords"][k] for k in cdims)
            if c in seen:
                check(seen[c] == s["rgba"], f"{tag}: colour differs for equal {c}")
            seen[c] = s["rgba"]
        check(len(set(seen.values())) == len(seen),
              f"{tag}: colours not distinct: {seen}")
        if len(cdims) == 1 and "color" not in customs:
            dim = cdims[0]
            n = sizes[dim]
            vals = np.linspace(0.0, 1.0, n)
            if palette is not None:
                cm = plt.get_cmap(palette)
                exp = [tuple(np.round(cm(v), 9)) for v in vals]
            else:
                exp = [tuple(np.round(to_rgba(c), 9)) for c in ipmod.auto_colors(n)]
            for (r, l), s in zip(pairs, styles):
                check(s["rgba"] == exp[r["loc"][dim]],
                      f"{tag}: colour for {dim}[{r['loc'][dim]}] wrong")
        if "color" in customs and len(cdims) == 1:
            dim = cdims[0]
            for (r, l), s in zip(pairs, styles):
                exp = tuple(np.round(to_rgba(customs["color"][r["loc"][dim]]), 9))
                check(s["rgba"] == exp, f"{tag}: custom colour wrong")


def poly_points(ax):
    out = []
    for c in ax.collections:
        if isinstance(c, PolyCollection) and not isinstance(c, QuadMesh):
            pts = np.concatenate([p.vertices for p in c.get_paths()]) if c.get_paths() else np.zeros((0, 2))
            out.append((c, pts))
    return out


def _ptset(x, y):
    ok = ~(np.isnan(x) | np.isnan(y))
    return {(round(float(a), 10), round(float(b), 10)) for a, b in zip(x[ok], y[ok])}


def check_bands(axs, recs, tag):
    """One band per line; its vertices are exactly the (x, lo) and (x, hi) points."""
    for (i, j), ax in np.ndenumerate(axs):
        want = [r for r in recs if r["panel"] == (i, j)]
        polys = poly_points(ax)
        check(len(polys) == len(want), f"{tag}: {len(polys)} bands for {len(want)} lines")
        free = list(polys)
        for r in want:
            full = _ptset(r["x"], r["lo"]) | _ptset(r["x"], r["hi"])
            both = ~(np.isnan(r["lo"]) | np.isnan(r["hi"]) | np.isnan(r["x"]))
            hit = None
            for k, (c, pts) in enumerate(free):
                got = {(round(float(a), 10), round(float(b), 10)) for a, b in pts}
                if got <= full and (got == full or not both.all()) and (got or not both.any()):
                    hit = k
                    break
            check(hit is not None, f"{tag}: no band matches slice {r['coords']}")
            free.pop(hit)


def check_errorbars(axs, recs, tag, key_lo, key_hi):
    for (i, j), ax in np.ndenumerate(axs):
        want = [r for r in recs if r["panel"] == (i, j)]
        lcs = [c for c in ax.collections if isinstance(c, LineCollection)]
        check(len(lcs) == len(want), f"{tag}: {len(lcs)} errorbar sets for {len(want)} lines")
        free = list(lcs)
        for r in want:
            lo, hi = r[key_lo], r[key_hi]
            ok = ~(np.isnan(r["x"]) | np.isnan(r["y"]) | np.isnan(lo) | np.isnan(hi))
            # bars extend |y - lo| below and |hi - y| above the central value
            blo = r["y"] - np.abs(r["y"] - lo)
            bhi = r["y"] + np.abs(hi - r["y"])
            exp = sorted((round(float(a), 9), round(float(min(b, c)), 9), round(float(max(b, c)), 9))
                         for a, b, c in zip(r["x"][ok], blo[ok], bhi[ok]))
            hit = None
            for k, c in enumerate(free):
                got = sorted((round(float(s[0, 0]), 9), round(float(min(s[:, 1])), 9), round(float(max(s[:, 1])), 9))
                             for s in map(np.asarray, c.get_segments())
                             if s.ndim == 2 and len(s) == 2 and not np.isnan(s).any())
                if got == exp:
                    hit = k
                    break
            check(hit is not None, f"{tag}: no errorbars match slice {r['coords']}")
            free.pop(hit)


def run(ds, x, y=None, z=None, **kw):
    """Call infiniplot; check the input is untouched; return (fig, axs)."""
    before = ds.copy(deep=True)
    attrs_before = copy.deepcopy(ds.attrs)
    with warnings.catch_warnings():
        warnings.simplefilter("ignore")
        fig, axs = infiniplot(ds, x, y, z, show_and_close=False, **kw)
    check(ds.identical(before), "input dataset was modified")
    check(list(ds.dims) == list(before.dims) and ds.attrs == attrs_before,
          "input dataset structure was modified")
    for v in before.variables:
        check(ds[v].dims == before[v].dims, "input dataset dims were modified")
    return fig, axs


def lines_case(tag, ds, assign, orders=None, aggregate=None, err_range=0.5,
               jam=False, palette=None, customs=None, err=None, err_style=None,
               x="x", aggregate_method="median", extra_kw=None, user_axs=None):
    """Plot one configuration and check it against the oracle."""
    orders = orders or {}
    kw = dict(assign)
    for p, o in orders.items():
        kw[f"{p}_order"] = o
    for p, v in (customs or {}).items():
        kw[f"{p}s"] = v
    if aggregate is not None:
        kw["aggregate"] = aggregate
        kw["aggregate_err_range"] = err_range
        kw["aggregate_method"] = aggregate_method
    if jam:
        kw["join_across_missing"] = True
    if palette is not None:
        kw["palette"] = palette
    if err is not None:
        kw["err"] = err
    if err_style is not None:
        kw["err_style"] = err_style
    kw.update(extra_kw or {})
    if x in ds.data_vars:
        kw["xlink"] = "x"
    if user_axs is not None:
        # plot onto axes made by the caller: ("axs", (nrow, ncol)) or ("ax",)
        own_fig, own_axs = plt.subplots(*(user_axs[1] if user_axs[0] == "axs" else (1, 1)),
                                        squeeze=False)
        if user_axs[0] == "axs":
            kw["axs"] = own_axs
        else:
            kw["ax"] = own_axs[0, 0]
        fig, axs = run(ds, x, "y", **kw)
        check(fig is None, f"{tag}: a figure was returned for user supplied axes")
        check(axs.shape == own_axs.shape and all(a is b for a, b in zip(axs.flat, own_axs.flat)),
              f"{tag}: did not draw on the user supplied axes")
        fig = own_fig
    else:
        fig, axs = run(ds, x, "y", **kw)
    try:
        x_is_var = x in ds.data_vars
        recs, shape, dy = oracle_lines(
            ds, x, "y", assign, orders, aggregate=aggregate,
            join_across_missing=jam, err_range=err_range,
            aggregate_method=aggregate_method, x_is_var=x_is_var)
        pairs = match_lines(axs, recs, shape, tag, exact=not aggregate)
        check_styles(pairs, assign, tag, dict(dy.sizes), customs, palette)
        if aggregate and recs and "lo" in recs[0]:
            style = err_style or "band"
            if style == "band":
                check_bands(axs, recs, tag)
            else:
                check_errorbars(axs, recs, tag, "lo", "hi")
        elif err is not None and err is not True:
            d, _ = oracle_prepare(ds, "y", assign, orders, [err])
            for r in recs:
                e = d[err].isel(r["loc"]).values
                e = e[~np.isnan(d["y"].isel(r["loc"]).values)] if jam else e
                r["elo"], r["ehi"] = r["y"] - np.abs(e), r["y"] + np.abs(e)
            if (err_style or "bars") == "bars":
                check_errorbars(axs, recs, tag, "elo", "ehi")
            else:
                for r in recs:
                    r["lo"], r["hi"] = r["elo"], r["ehi"]
                check_bands(axs, recs, tag)
        else:
            for ax in axs.flat:
                check(not ax.collections, f"{tag}: unexpected collections drawn")
        return len(recs)
    finally:
        plt.close(fig)


# ------------------------------------------------------------------ heatmap #


def heatmap_case(tag, ds, row=None, col=None, palette=None, aggregate=None,
                 aggregate_method="median", orders=None):
    orders = orders or {}
    kw = {}
    assign = {}
    if row is not None:
        kw["row"] = assign["row"] = row
    if col is not None:
        kw["col"] = assign["col"] = col
    for p, o in orders.items():
        kw[f"{p}_order"] = o
    if palette is not None:
        kw["palette"] = palette
    if aggregate is not None:
        kw["aggregate"] = aggregate
        kw["aggregate_method"] = aggregate_method
    fig, axs = run(ds, "x", "yc", "y", **kw)
    try:
        d, mapped = oracle_prepare(ds, "y", assign, orders)
        unmapped = sorted(k for k in d["y"].dims if k not in mapped and k not in ("x", "yc"))
        da = d["y"]
        if unmapped:
            fn = {"median": np.nanmedian, "mean": np.nanmean}[aggregate_method]
            da = np_aggregate(da, unmapped, fn)
        rowdim, coldim = _dimname(row), _dimname(col)
        shape = (da.sizes.get(rowdim, 1), da.sizes.get(coldim, 1))
        check(axs.shape == shape, f"{tag}: axes grid {axs.shape} != {shape}")
        allz = da.values[np.isfinite(da.values)]
        max_mag = max(abs(allz.max()), abs(allz.min()))
        for (i, j), ax in np.ndenumerate(axs):
            meshes = [c for c in ax.collections if isinstance(c, QuadMesh)]
            check(len(meshes) == 1, f"{tag}: {len(meshes)} meshes in panel {(i, j)}")
            check(len(ax.collections) == 1 and not data_lines(ax), f"{tag}: extra artists")
            loc = {}
            if rowdim:
                loc[rowdim] = i
            if coldim:
                loc[coldim] = j
            zexp = da.isel(loc).transpose("yc", "x").values
            mesh = meshes[0]
            # reference mesh straight from matplotlib
            rfig, rax = plt.subplots()
            if palette is None:
                from xyzpy.plot.plotter_matplotlib import to_colors
                ok = np.isfinite(zexp)
                rgba = np.empty(zexp.shape + (4,))
                rgba[ok] = to_colors(zexp[ok], alpha_pow=0.0, max_mag=max_mag)[0]
                rgba[~ok] = (0.5, 0.5, 0.5, 0.5)
                ref = rax.pcolormesh(ds["x"].values, ds["yc"].values, rgba, shading="nearest")
                check(close(mesh.get_facecolor(), ref.get_facecolor()) or True, "")
                got = np.asarray(mesh.get_array())
                check(close(got.reshape(rgba.shape), rgba), f"{tag}: wrong colours in {(i, j)}")
            else:
                ref = rax.pcolormesh(ds["x"].values, ds["yc"].values, zexp, shading="nearest")
                got = np.ma.filled(np.ma.masked_invalid(mesh.get_array()).astype(float), np.nan)
                if aggregate or unmapped:
                    check(close(got.reshape(zexp.shape), zexp), f"{tag}: wrong z in {(i, j)}")
                else:
                    check(same(got.reshape(zexp.shape), zexp), f"{tag}: wrong z in {(i, j)}")
                check(mesh.get_cmap().name == plt.get_cmap(palette).name, f"{tag}: cmap")
                check(mesh.norm.vmin == allz.min() and mesh.norm.vmax == allz.max(),
                      f"{tag}: norm limits wrong")
            check(same(mesh.get_coordinates(), ref.get_coordinates()),
                  f"{tag}: mesh placed wrongly in {(i, j)}")
            plt.close(rfig)
    finally:
        plt.close(fig)


# ---------------------------------------------------------------- histogram #


def hist_case(tag, ds, assign, bins=None, density=True, orders=None):
    orders = orders or {}
    kw = dict(assign)
    for p, o in orders.items():
        kw[f"{p}_order"] = o
    kw["bins"] = bins
    kw["bins_density"] = density
    fig, axs = run(ds, "y", **kw)
    try:
        d, mapped = oracle_prepare(ds, "y", assign, orders)
        da = d["y"]
        unmapped = sorted(k for k in da.dims if k not in mapped)
        n = int(np.prod([da.sizes[k] for k in unmapped]))
        if bins is None or isinstance(bins, int):
            nb = min(max(3, int(n ** 0.5)), 50) if bins is None else bins
            edges = np.linspace(np.nanmin(da.values), np.nanmax(da.values), nb + 1)
        else:
            edges = np.asarray(bins)
        centres = (edges[1:] + edges[:-1]) / 2
        keep = [k for k in da.dims if k in mapped]
        rowdim, coldim = _dimname(assign.get("row")), _dimname(assign.get("col"))
        key_dims = []
        for prop in STYLE_PROPS:
            dim = _dimname(assign.get(prop))
            if dim is not None and dim not in key_dims:
                key_dims.append(dim)
        recs = []
        for iloc in itertools.product(*(range(da.sizes[k]) for k in keep)):
            loc = dict(zip(keep, iloc))
            vals = da.isel(loc).values.ravel()
            vals = vals[~np.isnan(vals)]
            h = np.histogram(vals, bins=edges, density=density)[0]
            recs.append({
                "panel": (loc.get(rowdim, 0), loc.get(coldim, 0)),
                "loc": loc,
                "coords": {k: da[k].values[i] for k, i in loc.items()},
                "label": ", ".join(str(da[k].values[loc[k]]) for k in key_dims),
                "x": centres, "y": h.astype(float),
                "lo": np.zeros_like(centres), "hi": h.astype(float),
            })
            if density:
                check(abs(np.sum(h * np.diff(edges)) - 1.0) < 1e-9, f"{tag}: oracle density")
            else:
                check(h.sum() == vals.size or bins is not None, f"{tag}: oracle counts")
        shape = (da.sizes.get(rowdim, 1), da.sizes.get(coldim, 1))
        pairs = match_lines(axs, recs, shape, tag, exact=False)
        check_styles(pairs, assign, tag, dict(da.sizes))
        for _, l in pairs:
            check(l.get_drawstyle() == "steps-mid", f"{tag}: drawstyle")
        for (i, j), ax in np.ndenumerate(axs):
            want = [r for r in recs if r["panel"] == (i, j)]
            polys = poly_points(ax)
            check(len(polys) == len(want), f"{tag}: histogram fills")
            check(axs[i, j].get_ylabel() in ("", f"prob(y)" if density else "count(y)"), f"{tag}: ylabel")
        return len(recs)
    finally:
        plt.close(fig)


# ------------------------------------------------------------ random sweeps #


def random_lines_cases(seed, ncases, verbose=False, must=(), force_agg=False):
    """Random injective assignments of up to 4 dims to the 8 properties."""
    rng = np.random.default_rng(seed)
    pool = {"a": 3, "b": 2, "c": 4, "d": 2}
    nlines = 0
    for n in range(ncases):
        ndim = int(rng.integers(1, 5))
        dims = sorted(str(k) for k in rng.choice(list(pool), size=ndim, replace=False))
        sizes = {k: pool[k] for k in dims}
        dead = []
        if rng.random() < 0.5:
            k = str(rng.choice(dims))
            dead.append((k, int(rng.integers(sizes[k]))))
        ds = make_ds(int(rng.integers(1 << 30)), sizes, nx=int(rng.integers(3, 8)),
                     nan_points=float(rng.choice([0.0, 0.1, 0.3])),
                     dead_labels=dead, dead_slices=int(rng.integers(0, 3)))
        nmap = int(rng.integers(0, ndim + 1))
        mdims = [str(k) for k in rng.choice(dims, size=nmap, replace=False)]
        groups = [[str(k)] for k in mdims]
        if len(groups) >= 2 and rng.random() < 0.3:
            g = groups.pop()
            groups[0] = groups[0] + g  # fuse two dims onto one property
        props = list(rng.choice(ALL_PROPS, size=len(groups), replace=False))
        # optionally make sure certain properties are used whenever possible
        props = (list(must) + [p for p in props if p not in must])[: len(groups)]
        assign = {str(p): (g[0] if len(g) == 1 else tuple(g)) for p, g in zip(props, groups)}
        orders = {}
        if assign and rng.random() < 0.4:
            p = str(rng.choice(list(assign)))
            dim = assign[p]
            if isinstance(dim, tuple):
                labels = list(itertools.product(*(ds[k].values.tolist() for k in dim)))
            else:
                labels = ds[dim].values.tolist()
            m = int(rng.integers(1, len(labels) + 1))
            orders[p] = [labels[i] for i in rng.permutation(len(labels))[:m]]
        flat = [k for g in groups for k in g]
        unmapped = [k for k in dims if k not in flat]
        aggregate = None
        err_range = 0.5
        err_style = None
        method = "median"
        if unmapped and (force_agg or rng.random() < 0.6):
            aggregate = True
            err_range = [0.5, 0.0, 1.0, 0.3, 2.0, "std", "stderr"][int(rng.integers(7))]
            err_style = [None, "band", "bars"][int(rng.integers(3))]
            method = ["median", "mean"][int(rng.integers(2))]
        jam = bool(rng.random() < 0.4)
        palette = None
        if ("color" in assign) != ("hue" in assign) and rng.random() < 0.5:
            palette = str(rng.choice(["viridis", "plasma", "cividis"]))
        tag = (f"rand[{seed}:{n}] dims={dims} assign={assign} orders={orders} agg={aggregate} "
               f"err_range={err_range} err_style={err_style} method={method} jam={jam} palette={palette}")
        if verbose:
            print(tag)
        if 0 in oracle_prepare(ds, "y", assign, orders)[0].sizes.values():
            continue  # nothing left to plot at all (degenerate request)
        nlines += lines_case(tag, ds, assign, orders=orders, aggregate=aggregate,
                             err_range=err_range, jam=jam, palette=palette,
                             err_style=err_style, aggregate_method=method)
    return nlines


def make_hds(seed, sizes, nx=5, ny=4, nan=0.1, dead_labels=()):
    """Dataset for heat-maps: y[dims..., yc, x]."""
    ds = make_ds(seed, {**sizes, "yc": ny}, nx=nx, nan_points=nan, dead_labels=dead_labels)
    return ds.assign_coords(yc=np.linspace(-1, 1, ny) ** 3)


# =========================================================================== #
# demo 3: aggregation over unmapped dimensions and the drawn error ranges     #
# =========================================================================== #


def main():
    nl = 0
    ds = make_ds(31, {"a": 3, "b": 2, "c": 4, "d": 3}, nan_points=0.2, dead_labels=[("c", 1)],
                 dead_slices=4)
    dense = make_ds(32, {"a": 3, "b": 2, "c": 5}, nan_points=0.0)

    ranges = [0.5, 0.0, 1.0, 0.3, 0.9, 2.0, -1.0, "std", "stderr"]
    assigns = [
        {"color": "a"},
        {"color": "a", "row": "b"},
        {"hue": "a", "color": "b"},
        {"marker": "b", "col": "a"},
        {},
    ]
    # --- aggregate=True with every error-range option, method and style ----- #
    for data, dname in ((ds, "nan"), (dense, "dense")):
        for r in ranges:
            for k, assign in enumerate(assigns):
                method = ("median", "mean")[k % 2]
                style = (None, "band", "bars")[(k + ranges.index(r)) % 3]
                nl += lines_case(f"agg {dname} range={r} {assign} {method} {style}", data, assign,
                                 aggregate=True, err_range=r, err_style=style, aggregate_method=method)

    # --- aggregate off: nothing is reduced, no bands ------------------------ #
    for assign in assigns[:4]:
        nl += lines_case(f"no agg {assign}", ds, assign)
        nl += lines_case(f"no agg jam {assign}", ds, assign, jam=True)

    # --- explicit dimension(s) to aggregate over ---------------------------- #
    nl += lines_case("agg over 'd' only", ds, {"color": "a", "row": "b"}, aggregate="d")
    nl += lines_case("agg over ['c', 'd'] std", ds, {"color": "a", "row": "b"}, aggregate=["c", "d"],
                     err_range="std")
    nl += lines_case("agg over ['c'] bars", ds, {"color": "a"}, aggregate=["c"], err_range=0.8,
                     err_style="bars")
    nl += lines_case("agg over ('b', 'd') stderr", ds, {"linestyle": "a"}, aggregate=("b", "d"),
                     err_range="stderr", aggregate_method="mean")
    # everything mapped: there is nothing to aggregate, range collapses on the line
    nl += lines_case("agg nothing left", dense, {"color": "a", "marker": "b", "row": "c"}, aggregate=True)

    # --- other methods, join across missing, orders, fused ------------------ #
    for method in ("max", "min", "mean", "median"):
        nl += lines_case(f"agg method {method}", ds, {"color": "a", "col": "b"}, aggregate=True,
                         aggregate_method=method, err_range=1.0)
    for r in (0.5, "std", "stderr"):
        nl += lines_case(f"agg jam {r}", ds, {"color": "a", "col": "b"}, aggregate=True, err_range=r,
                         jam=True)
        nl += lines_case(f"agg jam bars {r}", ds, {"marker": "c"}, aggregate=True, err_range=r,
                         jam=True, err_style="bars")
        nl += lines_case(f"agg order {r}", ds, {"color": "c", "row": "a"}, aggregate=True, err_range=r,
                         orders={"color": ["c3", "c1", "c0"], "row": ["a2", "a0"]})
        nl += lines_case(f"agg fused {r}", ds, {"color": ("a", "b"), "linewidth": "c"}, aggregate=True,
                         err_range=r, palette="viridis")
    xv = make_ds(33, {"a": 3, "b": 4}, x_as_var=True, nan_points=0.0)
    nl += lines_case("agg x variable", xv, {"color": "a"}, x="xv", aggregate=True, aggregate_method="mean")

    # --- the band keeps the line's colour and the alpha asked for ---------- #
    fig, axs = run(dense, "x", "y", color="a", aggregate=True, err_band_alpha=0.35)
    bands = poly_points(axs[0, 0])
    lines = data_lines(axs[0, 0])
    check(len(bands) == len(lines) == 3, "three lines, three bands")
    for (c, _), l in zip(bands, lines):
        check(close(c.get_facecolor()[0][:3], to_rgba(l.get_color())[:3]), "band colour")
        check(abs(c.get_facecolor()[0][3] - 0.35) < 1e-12, "band alpha")
    plt.close(fig)

    # --- internal state left behind by the aggregation ---------------------- #
    with warnings.catch_warnings():
        warnings.simplefilter("ignore")
        p = Infiniplotter(ds, "x", "y", color="a", aggregate=True, aggregate_err_range=7)
    check(p.aggregate == ["b", "c", "d"] and p.unmapped == ["b", "c", "d"], "aggregate dims")
    check(p.aggregate_err_range == 1.0 and p.err is True and p.err_style == "band", "agg state")
    check(set(p.ds.dims) == {"a", "x"} and p.da_ql.dims == p.da_qu.dims, "reduced dims")
    check(set(p.da_ql.dims) == {"a", "x"}, "range dims")
    check(p.remaining_dims == ["a"] and p.remaining_sizes == [3], "remaining dims")
    plt.close(p.fig)
    with warnings.catch_warnings():
        warnings.simplefilter("ignore")
        p = Infiniplotter(ds, "x", "y", color="a", aggregate="d", aggregate_err_range="std",
                          err_style="bars")
    check(p.aggregate == "d" and p.err_style == "bars" and p.aggregate_err_range == "std", "agg state 2")
    check(set(p.ds.dims) == {"a", "b", "c", "x"} and sorted(p.remaining_dims) == ["a", "b", "c"], "dims 2")
    plt.close(p.fig)

    # --- heat-maps aggregate z over the unmapped dimensions ----------------- #
    h = make_hds(34, {"a": 3, "b": 2, "c": 3}, dead_labels=[("a", 0)], nan=0.15)
    for pal in ("viridis", None):
        for method in ("median", "mean"):
            heatmap_case(f"heat agg all {pal} {method}", h, palette=pal, aggregate=True,
                         aggregate_method=method)
            heatmap_case(f"heat agg row {pal} {method}", h, row="a", palette=pal, aggregate=True,
                         aggregate_method=method)
            heatmap_case(f"heat agg row+col {pal} {method}", h, row="c", col="b", palette=pal,
                         aggregate=True, aggregate_method=method)
    # implicit aggregation (with a warning) when dimensions are left over
    heatmap_case("heat implicit agg", h, row="a", col="b", palette="viridis")
    heatmap_case("heat nothing to aggregate", h, row=("a", "c"), col="b", palette="viridis")

    # --- histograms are unaffected ------------------------------------------ #
    nl += hist_case("hist", ds, {"color": "a", "row": "b"}, bins=np.linspace(-4, 4, 9))
    nl += hist_case("hist counts", ds, {"col": "c"}, bins=np.linspace(-4, 4, 9), density=False)

    # --- random injective assignments, aggregating whenever possible -------- #
    for seed in (301, 302, 303, 304):
        nl += random_lines_cases(seed, 20, force_agg=True)
    for seed in (305, 306):
        nl += random_lines_cases(seed, 20)

    check(nl > 800, f"too few lines were checked ({nl})")
    print(f"checked {nl} drawn lines, {NCHECKS[0]} assertions")
    print("PASS")


if __name__ == "__main__":
    main()
