"""Demo for C06 (crop attached to a Runner / Harvester / Sampler), focused on
the reaping side: ``reap_runner`` / ``reap_harvest`` / ``reap_samples`` and the
clean-up / stand-in-result decision they share with ``reap_combos`` and
``reap_combos_to_ds``.

Run as:  cd <worktree> && /venv/bin/python /path/to/demo.py
"""
import os
import sys

sys.path.insert(0, os.getcwd())

import pickle
import shutil
import subprocess
import tempfile

import numpy as np
import pandas as pd
import xarray as xr

import xyzpy
from xyzpy import Runner, Harvester, Sampler, Crop
from xyzpy.gen import cropping
from xyzpy.gen.cropping import calc_clean_up_default_res, _NO_DEFAULT
from xyzpy.gen.prepare import XYZError

HERE = os.getcwd()
assert os.path.dirname(os.path.dirname(os.path.abspath(xyzpy.__file__))) == \
    HERE, (xyzpy.__file__, HERE)


def fn_vec(a, b, n=3, scale=1.0, off=0.0):
    return float(a + 10 * b + off), scale * (a + b) * np.arange(n)


def fn_sd(x, y, shift=0):
    return x + y + shift, x - y


def make_runner(**extra):
    return Runner(
        fn_vec,
        var_names=["s", "v"],
        fn_args=["a", "b"],
        var_dims={"v": ["t"]},
        var_coords={"t": [10, 20, 30]},
        constants={"n": 3, "off": 0.5},
        resources={"scale": 2.0},
        attrs={"note": "demo"},
        **extra
    )


def make_sd_runner():
    return Runner(fn_sd, var_names=["sum", "diff"], constants={"shift": 2})


COMBOS = {"a": [0.5, 1.5], "b": [1, 2, 3]}
CASES = [{"a": 1, "b": 2}, {"a": 3, "b": 4}, {"a": 5, "b": 6}]
QUIET = dict(verbosity=0)


def same_ds(x, y):
    assert isinstance(x, xr.Dataset) and isinstance(y, xr.Dataset)
    assert x.identical(y), (x, y)
    assert list(x.data_vars) == list(y.data_vars)
    assert list(x.coords) == list(y.coords)
    assert list(x.attrs.items()) == list(y.attrs.items())
    for k in x.variables:
        assert x[k].dtype == y[k].dtype, k
        assert x[k].dims == y[k].dims, k


def same_df(x, y):
    assert isinstance(x, pd.DataFrame) and isinstance(y, pd.DataFrame)
    pd.testing.assert_frame_equal(x, y, check_exact=True)


def raises(exc, fn, *args, **kwargs):
    try:
        fn(*args, **kwargs)
    except exc as e:
        return e
    raise AssertionError("{} not raised".format(exc))


def exists(crop):
    return os.path.isdir(crop.location)


CHILD = r'''
import os, sys, pickle
sys.path.insert(0, os.getcwd())
import xyzpy
assert os.path.dirname(os.path.dirname(os.path.abspath(xyzpy.__file__))) \
    == os.getcwd()
from xyzpy import Crop
name, parent, out = sys.argv[1:4]
kwargs = eval(sys.argv[4])
crop = Crop(name=name, parent_dir=parent)
crop.grow_missing(verbosity=0)
res = crop.reap(**kwargs)
f = crop.farmer
info = {"res": res, "kind": type(f).__name__,
        "gone": not os.path.exists(crop.location)}
if info["kind"] == "Sampler":
    info["is_last"] = (f.last_df is res) and (f.runner._last_df is res)
else:
    info["is_last"] = f.last_ds is res
with open(out, "wb") as fh:
    pickle.dump(info, fh)
'''


def grow_and_reap_elsewhere(tdir, name, **kwargs):
    script = os.path.join(tdir, "child.py")
    with open(script, "w") as fh:
        fh.write(CHILD)
    out = os.path.join(tdir, "child-{}.pkl".format(name))
    subprocess.run(
        [sys.executable, "-W", "ignore", script, name, tdir, out,
         repr(kwargs)],
        check=True, cwd=HERE, stdout=subprocess.DEVNULL,
        stderr=subprocess.DEVNULL,
    )
    with open(out, "rb") as fh:
        info = pickle.load(fh)
    os.remove(out)
    return info


# ------------------- the clean-up / stand-in decision ---------------------- #

def check_clean_up_decision(tdir):
    crop = Crop(fn=fn_sd, name="decide", parent_dir=tdir, batchsize=1)
    crop.sow_combos({"x": [1, 2], "y": [5]}, **QUIET)

    # no finished result yet: the stand-in cannot be inferred
    for cu in (None, True, False):
        e = raises(XYZError, calc_clean_up_default_res, crop, cu, True)
        assert "requires at least one finished result" in str(e)
        # ... and is not needed when incomplete reaps are not allowed
        got = calc_clean_up_default_res(crop, cu, False)
        assert got == ((True if cu is None else cu), _NO_DEFAULT)
        assert got[1] is _NO_DEFAULT

    e = raises(XYZError, crop.reap)
    assert "not ready to reap" in str(e)
    e = raises(XYZError, crop.reap, allow_incomplete=True)
    assert "requires at least one finished result" in str(e)
    assert exists(crop)

    crop.grow(2, **QUIET)
    nan_res = crop.all_nan_result
    assert isinstance(nan_res, tuple) and len(nan_res) == 2
    assert all(np.isnan(x) for x in nan_res)
    for cu in (None, True, False, 0, "yes"):
        cu_out, default = calc_clean_up_default_res(crop, cu, True)
        assert default is nan_res
        if cu is None:
            assert cu_out is False
        else:
            assert cu_out is cu
        cu_out, default = calc_clean_up_default_res(crop, cu, False)
        assert default is _NO_DEFAULT
        if cu is None:
            assert cu_out is True
        else:
            assert cu_out is cu

    # raw reap: incomplete allowed -> stand-ins, crop kept by default
    e = raises(XYZError, crop.reap)
    assert "not ready to reap" in str(e)
    res = crop.reap(allow_incomplete=True)
    assert res[1] == ((7, -3),) and res[0][0] is nan_res
    assert exists(crop)
    # labelled reap of the same crop
    ds = crop.reap_combos_to_ds(var_names=["sum", "diff"],
                                constants={"shift": 0}, attrs={"k": 1},
                                allow_incomplete=True)
    assert ds["sum"].dims == ("x", "y")
    assert np.isnan(ds["sum"].values[0, 0]) and ds["sum"].values[1, 0] == 7
    assert ds["diff"].values[1, 0] == -3
    assert dict(ds.attrs) == {"k": 1, "shift": 0}
    assert exists(crop)
    df = crop.reap_combos_to_ds(var_names=["sum", "diff"], to_df=True,
                                allow_incomplete=True, clean_up=False)
    assert isinstance(df, pd.DataFrame) and len(df) == 2
    assert exists(crop)
    # explicit clean up with an incomplete reap
    res = crop.reap_combos(allow_incomplete=True, clean_up=True)
    assert res[1] == ((7, -3),)
    assert not exists(crop)

    # complete: cleaned up by default, kept on request
    crop = Crop(fn=fn_sd, name="decide", parent_dir=tdir, batchsize=1)
    crop.sow_combos({"x": [1, 2], "y": [5]}, **QUIET)
    crop.grow_missing(**QUIET)
    assert crop.reap(clean_up=False) == (((6, -4),), ((7, -3),))
    assert exists(crop)
    assert crop.reap(allow_incomplete=True) == (((6, -4),), ((7, -3),))
    assert exists(crop)
    ds = crop.reap_combos_to_ds(var_names=["sum", "diff"])
    assert ds["sum"].values.tolist() == [[6], [7]]
    assert not exists(crop)


# ------------------------------- Runner ------------------------------------ #

def check_runner(tdir):
    for to_df in (False, True):
        for shuffle in (False, 5):
            # (dataframes cannot hold internal dimensions)
            make = make_sd_runner if to_df else make_runner
            combos = {"x": [1, 2, 3], "y": [4, 5]} if to_df else COMBOS
            consts = {"shift": 7} if to_df else {"off": 1.5}
            direct = make()
            expected = direct.run_combos(
                combos, constants=consts, to_df=to_df, **QUIET)

            r = make()
            crop = r.Crop(name="run", parent_dir=tdir, batchsize=2)
            crop.sow_combos(combos, constants=consts, shuffle=shuffle,
                            **QUIET)
            crop.grow_missing(**QUIET)

            got = crop.reap_runner(r, to_df=to_df, clean_up=False)
            assert exists(crop)
            if to_df:
                same_df(got, expected)
                assert r._last_df is got and r.last_ds is None
            else:
                same_ds(got, expected)
                assert r.last_ds is got and not hasattr(r, "_last_df")

            # a second reap replaces the record; default clean up removes it
            got2 = crop.reap_runner(r, to_df=to_df)
            assert got2 is not got
            assert (r._last_df if to_df else r._last_ds) is got2
            assert not exists(crop)

    # cases, function arguments in the runner's order, through ``reap``
    direct = make_runner()
    expected = direct.run_cases(CASES, constants={"off": 2.5}, **QUIET)
    r = make_runner()
    crop = r.Crop(name="run-cases", parent_dir=tdir, num_batches=2)
    crop.sow_cases(None, CASES, constants={"off": 2.5}, **QUIET)
    crop.grow_missing(**QUIET)
    got = crop.reap()
    same_ds(got, expected)
    assert r.last_ds is got and not exists(crop)
    assert got.attrs["n"] == 3 and got.attrs["off"] == 2.5

    # sown constants beat the runner's; the runner's own are left alone
    assert r._constants == {"n": 3, "off": 0.5}

    # incomplete reap through a runner
    direct = make_runner()
    full = direct.run_combos(COMBOS, **QUIET)
    r = make_runner()
    crop = r.Crop(name="run-part", parent_dir=tdir, batchsize=2)
    crop.sow_combos(COMBOS, **QUIET)
    e = raises(XYZError, crop.reap)
    assert "not ready to reap" in str(e) and r.last_ds is None
    crop.grow((1, 3), **QUIET)
    e = raises(XYZError, crop.reap)
    assert "not ready to reap" in str(e) and r.last_ds is None
    part = crop.reap(allow_incomplete=True)
    assert exists(crop) and r.last_ds is part
    mask = np.array([[False, False, True], [True, False, False]])
    assert np.array_equal(np.isnan(part["s"].values), mask)
    assert np.array_equal(part["s"].values[~mask], full["s"].values[~mask])
    assert np.array_equal(np.isnan(part["v"].values).all(axis=-1), mask)
    assert np.array_equal(part["v"].values[~mask], full["v"].values[~mask])
    assert list(part.attrs.items()) == list(full.attrs.items())
    part2 = crop.reap(allow_incomplete=True, clean_up=True)
    assert part2.identical(part) and r.last_ds is part2
    assert not exists(crop)


# ------------------------------ Harvester ---------------------------------- #

def check_harvester(tdir):
    first = {"a": [0.5, 1.5], "b": [1, 2]}
    second = {"a": [1.5, 2.5], "b": [2, 3]}

    for overwrite in (None, True, False, "conflict"):
        tag = "hv-{}".format(overwrite)
        f_direct = os.path.join(tdir, tag + "-direct.h5")
        f_crop = os.path.join(tdir, tag + "-crop.h5")
        ow = None if overwrite == "conflict" else overwrite
        consts = {} if overwrite is None else {"off": 9.0}

        hd = Harvester(make_runner(), data_name=f_direct)
        hd.harvest_combos(first, **QUIET)
        after_first = hd.full_ds.copy(deep=True)
        hd.runner._constants = {**hd.runner._constants, **consts}
        if overwrite == "conflict":
            raises(xr.MergeError, hd.harvest_combos, second, **QUIET)
        else:
            hd.harvest_combos(second, overwrite=ow, **QUIET)
        expected_last = hd.last_ds

        hc = Harvester(make_runner(), data_name=f_crop)
        crop = hc.Crop(name=tag, parent_dir=tdir, num_batches=3)
        crop.sow_combos(first, **QUIET)
        crop.grow_missing(**QUIET)
        ds1 = crop.reap()
        assert hc.last_ds is ds1 and hc.runner.last_ds is ds1
        assert not exists(crop)
        same_ds(hc.full_ds, after_first)

        hc.runner._constants = {**hc.runner._constants, **consts}
        crop = hc.Crop(name=tag, parent_dir=tdir, batchsize=3)
        crop.sow_combos(second, **QUIET)
        crop.grow_missing(**QUIET)
        if overwrite == "conflict":
            raises(xr.MergeError, crop.reap)
            # the new data is recorded, nothing synced, the crop is kept so
            # that the reap can be repeated
            same_ds(hc.last_ds, expected_last)
            assert exists(crop) and crop.is_ready_to_reap()
            raises(xr.MergeError, crop.reap_harvest, hc, clean_up=True)
            assert exists(crop)
            crop.delete_all()
        else:
            ds2 = crop.reap(overwrite=ow)
            same_ds(ds2, expected_last)
            assert hc.last_ds is ds2 and not exists(crop)

        with xyzpy.load_ds(f_direct) as d1, xyzpy.load_ds(f_crop) as d2:
            same_ds(d2.load(), d1.load())
        same_ds(hc.full_ds, hd.full_ds)
        hc.full_ds.close()
        hd.full_ds.close()
        assert sorted(x for x in os.listdir(tdir) if x.startswith(tag)) == \
            sorted([tag + "-direct.h5", tag + "-crop.h5"])
        os.remove(f_direct)
        os.remove(f_crop)

    # clean-up options of reap_harvest, with and without syncing
    f_crop = os.path.join(tdir, "hv-opts.h5")
    hc = Harvester(make_runner(), data_name=f_crop)
    crop = hc.Crop(name="hv-opts", parent_dir=tdir, batchsize=2)
    crop.sow_combos(first, **QUIET)
    crop.grow(1, **QUIET)
    e = raises(XYZError, crop.reap)
    assert "not ready to reap" in str(e)
    assert not os.path.exists(f_crop) and hc.last_ds is None
    # unsynced, incomplete: recorded only, crop kept
    ds = crop.reap(sync=False, allow_incomplete=True)
    assert hc.last_ds is ds and hc._full_ds is None
    assert not os.path.exists(f_crop) and exists(crop)
    assert int(np.isnan(ds["s"].values).sum()) == 2
    crop.grow_missing(**QUIET)
    # unsynced, complete, keep
    ds = crop.reap(sync=False, clean_up=False)
    assert hc.last_ds is ds and hc._full_ds is None
    assert not os.path.exists(f_crop) and exists(crop)
    # synced, incomplete allowed (although complete): crop kept
    ds = crop.reap(allow_incomplete=True)
    assert hc.last_ds is ds and exists(crop)
    with xyzpy.load_ds(f_crop) as d:
        same_ds(d.load(), ds)
    # synced again with the very same data merges fine; explicit clean up
    ds = crop.reap_harvest(hc, allow_incomplete=True, clean_up=True)
    assert not exists(crop)
    same_ds(hc.full_ds, ds)
    same_ds(ds, Harvester(make_runner()).runner.run_combos(first, **QUIET))
    hc.full_ds.close()
    os.remove(f_crop)

    # no harvester given
    crop = make_runner().Crop(name="hv-none", parent_dir=tdir)
    e = raises(ValueError, crop.reap_harvest, None)
    assert str(e) == "Cannot reap and harvest if no Harvester is set."
    e = raises(ValueError, crop.reap_samples, None)
    assert str(e) == "Cannot reap samples without a 'Sampler'."

    # harvester without a file: data accumulates in memory only
    hd = Harvester(make_runner())
    hd.harvest_combos(first, **QUIET)
    hd.harvest_cases([(7, 8)], **QUIET)
    hc = Harvester(make_runner())
    crop = hc.Crop(name="hv-mem", parent_dir=tdir)
    crop.sow_combos(first, **QUIET)
    crop.grow_missing(**QUIET)
    crop.reap()
    crop = hc.Crop(name="hv-mem", parent_dir=tdir)
    crop.sow_cases(None, [(7, 8)], **QUIET)
    crop.grow_missing(**QUIET)
    ds = crop.reap()
    same_ds(ds, hd.last_ds)
    same_ds(hc.full_ds, hd.full_ds)
    assert not exists(crop)

    # grown and reaped by a crop reloaded by name in another process
    f_direct = os.path.join(tdir, "hv-far-direct.h5")
    f_crop = os.path.join(tdir, "hv-far-crop.h5")
    hd = Harvester(make_runner(), data_name=f_direct)
    hd.harvest_combos(first, **QUIET)
    hd.runner._constants = {**hd.runner._constants, "off": 9.0}
    hd.harvest_combos(second, overwrite=True, **QUIET)
    hc = Harvester(make_runner(), data_name=f_crop)
    hc.Crop(name="hv-far", parent_dir=tdir).sow_combos(first, **QUIET)
    info = grow_and_reap_elsewhere(tdir, "hv-far")
    assert info["kind"] == "Harvester" and info["is_last"] and info["gone"]
    hc.runner._constants = {**hc.runner._constants, "off": 9.0}
    hc.Crop(name="hv-far", parent_dir=tdir).sow_combos(second, **QUIET)
    info = grow_and_reap_elsewhere(tdir, "hv-far", overwrite=True)
    assert info["is_last"] and info["gone"]
    same_ds(info["res"], hd.last_ds)
    with xyzpy.load_ds(f_direct) as d1, xyzpy.load_ds(f_crop) as d2:
        same_ds(d2.load(), d1.load())
    hd.full_ds.close()
    os.remove(f_direct)
    os.remove(f_crop)


# ------------------------------- Sampler ----------------------------------- #

def check_sampler(tdir):
    combos = {"x": [1, 2, 3, 4], "y": lambda: 10}
    f_direct = os.path.join(tdir, "sm-direct.pkl")
    f_crop = os.path.join(tdir, "sm-crop.pkl")

    sd = Sampler(make_sd_runner(), data_name=f_direct,
                 default_combos={"x": [0], "y": [0]})
    np.random.seed(11)
    exp1 = sd.sample_combos(5, combos, **QUIET)
    np.random.seed(12)
    exp2 = sd.sample_combos(4, **QUIET)

    sc = Sampler(make_sd_runner(), data_name=f_crop,
                 default_combos={"x": [0], "y": [0]})
    crop = sc.Crop(name="sm", parent_dir=tdir, batchsize=2)
    np.random.seed(11)
    crop.sow_samples(5, combos, **QUIET)
    e = raises(XYZError, crop.reap)
    assert "not ready to reap" in str(e)
    assert sc.last_df is None and not os.path.exists(f_crop)
    crop.grow_missing(**QUIET)

    # unsynced: recorded on the runner only
    df = crop.reap(sync=False, clean_up=False)
    same_df(df, exp1)
    assert sc.runner._last_df is df and sc.last_df is None
    assert sc._full_df is None and not os.path.exists(f_crop)
    assert exists(crop)

    df = crop.reap()
    same_df(df, exp1)
    assert sc.last_df is df and sc.runner._last_df is df
    assert not exists(crop)
    same_df(pd.read_pickle(f_crop), exp1)

    crop = sc.Crop(name="sm", parent_dir=tdir, num_batches=3)
    np.random.seed(12)
    crop.sow_samples(4, **QUIET)
    info = grow_and_reap_elsewhere(tdir, "sm")
    assert info["kind"] == "Sampler" and info["is_last"] and info["gone"]
    same_df(info["res"], exp2)
    same_df(pd.read_pickle(f_crop), pd.read_pickle(f_direct))
    sc.load_full_df()
    same_df(sc.full_df, sd.full_df)
    assert len(sc.full_df) == 9

    # incomplete allowed: kept by default, a repeated reap appends again
    crop = sc.Crop(name="sm", parent_dir=tdir, batchsize=1)
    np.random.seed(13)
    crop.sow_samples(2, **QUIET)
    crop.grow_missing(**QUIET)
    df_a = crop.reap(allow_incomplete=True)
    assert exists(crop) and sc.last_df is df_a
    df_b = crop.reap_samples(sc, allow_incomplete=True, clean_up=True)
    assert not exists(crop) and sc.last_df is df_b
    same_df(df_a, df_b)
    np.random.seed(13)
    exp3 = sd.sample_combos(2, **QUIET)
    same_df(df_a, exp3)
    sd.add_df(exp3)
    same_df(pd.read_pickle(f_crop), pd.read_pickle(f_direct))
    assert len(pd.read_pickle(f_crop)) == 13

    # sampler without a file
    sm = Sampler(make_sd_runner(), default_combos={"x": [1, 2], "y": [3]})
    crop = sm.Crop(name="sm-mem", parent_dir=tdir)
    np.random.seed(3)
    crop.sow_samples(3, **QUIET)
    crop.grow_missing(**QUIET)
    df = crop.reap()
    assert sm.last_df is df and not exists(crop)
    same_df(sm.full_df, df)
    assert sm.full_df is not df
    os.remove(f_direct)
    os.remove(f_crop)


def main():
    tdir = tempfile.mkdtemp(prefix="c06-t7-")
    try:
        check_clean_up_decision(tdir)
        check_runner(tdir)
        check_harvester(tdir)
        check_sampler(tdir)
        leftovers = sorted(os.listdir(tdir))
        assert leftovers == ["child.py"], leftovers
    finally:
        shutil.rmtree(tdir, ignore_errors=True)
    print("PASS")


if __name__ == "__main__":
    main()
