"""Demo for property C06 (crop attached to a farmer reaps what a direct run
gives).  Run as ``cd <worktree> && /venv/bin/python /path/to/demo.py``.
"""
import os
import sys

sys.path.insert(0, os.getcwd())

import pickle
import subprocess
import tempfile
import warnings

import numpy as np
import pandas as pd
import xarray as xr

import xyzpy
from xyzpy import Runner, Harvester, Sampler, Crop
from xyzpy.gen.farming import XYZError

assert os.path.abspath(xyzpy.__file__).startswith(os.getcwd()), xyzpy.__file__
warnings.simplefilter("ignore")

NCHECK = [0]


def check(cond, msg):
    NCHECK[0] += 1
    if not cond:
        print("FAIL:", msg)
        sys.exit(1)


def fn(a, b, c=1.0, t=None, res=0):
    """Labelled function: one scalar output and one with internal dim 't'."""
    s = a + 10 * b + 100 * c + res
    arr = s + np.asarray(t, dtype=float) ** 2
    return s, arr


def fn_tab(a, b, c=1.0, res=0):
    """Scalar-only outputs, for DataFrames (no internal dimensions)."""
    return a + 10 * b + 100 * c + res, float(a * b) / 7


def fn_flag(a, b):
    """bool + str outputs (non-float dtypes)."""
    return bool((a + b) % 2), "v{}{}".format(a, b)


def make_runner(f=fn):
    if f is fn:
        return Runner(
            f,
            var_names=["s", "arr"],
            fn_args=["a", "b", "c"],
            var_dims={"arr": ["t"]},
            constants={"t": [0.0, 1.0, 2.0], "c": 2.0},
            resources={"res": 1000},
            attrs={"note": "hello", "version": 3},
        )
    if f is fn_tab:
        return Runner(
            f,
            var_names=["s", "p"],
            fn_args=["a", "b", "c"],
            constants={"c": 2.0},
            resources={"res": 1000},
            attrs={"note": "tab"},
        )
    return Runner(f, var_names=["flag", "tag"], attrs={"kind": "flags"})


COMBOS = {"a": [1, 2, 3], "b": [10, 20, 30, 40]}
COMBOS2 = {"a": [3, 4], "b": [40, 50]}  # overlaps COMBOS at (3, 40)
CASES = [(1, 10), (2, 30), (5, 50), (3, 20), (7, 70)]
CASES_D = [{"a": 1, "b": 10}, {"a": 2, "b": 30}, {"a": 9, "b": 90}]


def same_ds(x, y, msg):
    check(isinstance(x, xr.Dataset) and isinstance(y, xr.Dataset), msg + " [type]")
    check(x.identical(y), msg + "\n{}\n---\n{}".format(x, y))
    for v in x.data_vars:
        check(x[v].dtype == y[v].dtype, msg + " [dtype {}]".format(v))
    check(list(x.attrs.items()) == list(y.attrs.items()), msg + " [attrs]")
    check(dict(x.sizes) == dict(y.sizes), msg + " [sizes]")


def same_df(x, y, msg):
    check(isinstance(x, pd.DataFrame) and isinstance(y, pd.DataFrame), msg + " [type]")
    try:
        pd.testing.assert_frame_equal(x, y, check_exact=True)
    except AssertionError as e:
        check(False, msg + "\n" + str(e))
    check(True, msg)


CHILD = r"""
import os, sys, pickle
sys.path.insert(0, os.getcwd())
import warnings; warnings.simplefilter('ignore')
import xyzpy
from xyzpy import Crop
name, parent, action, out = sys.argv[1:5]
crop = Crop(name=name, parent_dir=parent)
assert crop.farmer is not None and crop.farmer.fn is not None
assert crop.farmer.fn is crop.fn
if action == 'grow':
    crop.grow_missing()
elif action == 'growfirst':
    crop.grow(1)
elif action == 'reap':
    data = crop.reap()
    farmer = crop.farmer
    runner = crop.runner
    last_ds = runner._last_ds
    last_df = getattr(runner, '_last_df', None)
    s_last = getattr(farmer, '_last_df', None)
    with open(out, 'wb') as f:
        pickle.dump({'data': data, 'last_ds': last_ds, 'last_df': last_df,
                     'farmer_last_df': s_last,
                     'kind': type(farmer).__name__}, f)
"""


def child(name, parent, action, out="-"):
    subprocess.run(
        [sys.executable, "-c", CHILD, name, parent, action, out],
        check=True,
        cwd=os.getcwd(),
        stdout=subprocess.DEVNULL,
    )


def grow_somehow(crop, how, tmp):
    """Grow all missing batches in one of several ways."""
    if how == "same":
        crop.grow_missing()
    elif how == "reload":
        # reload by name in this process: farmer unpickled, fn re-attached
        c2 = Crop(name=crop.name, parent_dir=crop.parent_dir)
        check(c2.farmer is not None, "reloaded crop has a farmer")
        check(c2.farmer is not crop.farmer, "reloaded farmer is a new object")
        check(c2.farmer.fn is not None, "reloaded farmer has its fn back")
        check(type(c2.farmer) is type(crop.farmer), "reloaded farmer kind")
        c2.grow_missing()
    elif how == "process":
        child(crop.name, crop.parent_dir, "grow")
    else:
        raise ValueError(how)


def section_runner(tmp, hows=("same", "reload", "process")):
    direct = make_runner().run_combos(COMBOS)
    direct_df = make_runner(fn_tab).run_combos(COMBOS, to_df=True)
    direct_cases = make_runner().run_cases(CASES)
    direct_mixed = make_runner().run_cases(
        [(1,), (2,)], fn_args=["a"], combos=(("b", [10, 20, 30]),)
    )
    i = 0
    for how in hows:
        batches = ({}, {"batchsize": 5}, {"num_batches": 5}, {"batchsize": 100})
        if how == "process":
            batches = batches[2:3]
        for batch in batches:
            for shuffle in (False, 7):
                i += 1
                # --- combos -> Dataset
                r = make_runner()
                crop = r.Crop(name="rc{}".format(i), parent_dir=tmp, **batch)
                check(crop.farmer is r and crop.runner is r, "crop.farmer")
                crop.sow_combos(COMBOS, shuffle=shuffle, verbosity=0)
                check(crop.num_sown_batches == crop.num_batches, "sown batches")
                grow_somehow(crop, how, tmp)
                check(crop.is_ready_to_reap(), "ready")
                ds = crop.reap()
                same_ds(ds, direct, "runner combos {} {} {}".format(how, batch, shuffle))
                check(r.last_ds is ds, "runner.last_ds is the reaped ds")
                check(not os.path.exists(crop.location), "crop cleaned up")

        # --- combos -> DataFrame
        r = make_runner(fn_tab)
        crop = r.Crop(name="rdf" + how, parent_dir=tmp, num_batches=5)
        crop.sow_combos(COMBOS, verbosity=0)
        grow_somehow(crop, how, tmp)
        df = crop.reap_runner(r, to_df=True)
        same_df(df, direct_df, "runner to_df " + how)
        check(r._last_df is df, "runner._last_df is the reaped df")
        check(r._last_ds is None, "to_df reap leaves last_ds alone")
        check(not os.path.exists(crop.location), "crop cleaned up (df)")

        # --- cases
        r = make_runner()
        crop = r.Crop(name="rcases" + how, parent_dir=tmp, batchsize=2)
        crop.sow_cases(["a", "b"], CASES, verbosity=0)
        grow_somehow(crop, how, tmp)
        ds = crop.reap()
        same_ds(ds, direct_cases, "runner cases " + how)
        check(r.last_ds is ds, "runner.last_ds (cases)")

        # --- cases x combos, shuffled crop
        r = make_runner()
        crop = r.Crop(name="rmixed" + how, parent_dir=tmp, num_batches=4)
        crop.shuffle = 3
        crop.sow_cases(["a"], [(1,), (2,)], combos=(("b", [10, 20, 30]),), verbosity=0)
        grow_somehow(crop, how, tmp)
        ds = crop.reap()
        same_ds(ds, direct_mixed, "runner cases x combos " + how)

    # --- non float outputs
    r = make_runner(fn_flag)
    direct_flag = make_runner(fn_flag).run_combos(COMBOS)
    crop = r.Crop(name="rflag", parent_dir=tmp, batchsize=5)
    crop.sow_combos(COMBOS, verbosity=0)
    crop.grow_missing()
    same_ds(crop.reap(), direct_flag, "runner bool/str outputs")


def section_runner_reap_elsewhere(tmp):
    """sow here, grow in a 2nd process, reap in a 3rd: compare to direct."""
    direct = make_runner().run_combos(COMBOS)
    r = make_runner()
    crop = r.Crop(name="relse", parent_dir=tmp, num_batches=5)
    crop.sow_combos(COMBOS, verbosity=0)
    child("relse", tmp, "grow")
    out = os.path.join(tmp, "relse.pkl")
    child("relse", tmp, "reap", out)
    with open(out, "rb") as f:
        got = pickle.load(f)
    check(got["kind"] == "Runner", "farmer kind in child")
    same_ds(got["data"], direct, "runner reaped in another process")
    same_ds(got["last_ds"], direct, "runner last_ds in another process")
    check(not os.path.exists(crop.location), "crop cleaned up by child")


def section_incomplete(tmp):
    """allow_incomplete / wait / not-ready paths."""
    direct = make_runner().run_combos(COMBOS)
    r = make_runner()
    crop = r.Crop(name="rinc", parent_dir=tmp, num_batches=5)
    crop.sow_combos(COMBOS, verbosity=0)
    try:
        crop.reap()
        check(False, "reaping an ungrown crop must raise")
    except XYZError:
        check(True, "raises")
    check(r.last_ds is None, "failed reap does not set last_ds")
    crop.grow(1)
    crop.grow((3, 5))
    check(crop.missing_results() == (2, 4), "missing results")
    part = crop.reap(allow_incomplete=True)
    check(r.last_ds is part, "partial reap recorded")
    check(os.path.exists(crop.location), "incomplete reap keeps the crop")
    check(dict(part.sizes) == dict(direct.sizes), "partial sizes")
    notnull = part["s"].notnull()
    check(int(notnull.sum()) == 3 + 2 + 2, "partial count {}".format(int(notnull.sum())))
    check(bool((part["s"].where(notnull) == direct["s"].where(notnull)).where(notnull, True).all()),
          "partial values agree where present")
    check(bool(part["arr"].where(notnull).equals(direct["arr"].astype(float).where(notnull))),
          "partial internal-dim values agree where present")
    check(list(part.attrs.items()) == list(direct.attrs.items()), "partial attrs")
    crop.grow_missing()
    full = crop.reap(wait=True, clean_up=False)
    same_ds(full, direct, "wait=True reap")
    check(os.path.exists(crop.location), "clean_up=False keeps crop")
    again = Crop(name="rinc", parent_dir=tmp).reap()
    same_ds(again, direct, "re-reap from reloaded crop")
    check(not os.path.exists(crop.location), "finally cleaned up")


def _conflicting_runner():
    r = make_runner()
    r.resources = {"res": 2000}   # not recorded, but changes the data
    return r


def section_harvester(tmp, hows=("same", "reload", "process")):
    i = 0
    for how in hows:
        for overwrite in (None, True, False):
            for conflict in (False, True):
                if how == "process" and conflict != (overwrite is not None):
                    continue
                i += 1
                tag = "harvest {} ow={} conflict={}".format(how, overwrite, conflict)
                f1 = os.path.join(tmp, "direct{}.h5".format(i))
                f2 = os.path.join(tmp, "crop{}.h5".format(i))

                # direct
                h1 = Harvester(make_runner(), data_name=f1)
                h1.harvest_combos(COMBOS)
                h1b = Harvester(_conflicting_runner() if conflict else make_runner(), data_name=f1)
                err1 = None
                try:
                    h1b.harvest_combos(COMBOS2, overwrite=overwrite)
                except Exception as e:
                    err1 = type(e)

                # via crops
                h2 = Harvester(make_runner(), data_name=f2)
                crop = h2.Crop(name="hc{}a".format(i), parent_dir=tmp, num_batches=5)
                check(crop.runner is h2.runner, "crop.runner")
                crop.sow_combos(COMBOS, verbosity=0)
                grow_somehow(crop, how, tmp)
                ds = crop.reap()
                same_ds(ds, h1.last_ds, tag + " first ds")
                check(h2.last_ds is ds, tag + " last_ds")
                check(not os.path.exists(crop.location), tag + " cleaned")

                h2b = Harvester(_conflicting_runner() if conflict else make_runner(), data_name=f2)
                crop = h2b.Crop(name="hc{}b".format(i), parent_dir=tmp, batchsize=3)
                crop.sow_combos(COMBOS2, shuffle=2, verbosity=0)
                grow_somehow(crop, how, tmp)
                err2 = None
                try:
                    ds = crop.reap(overwrite=overwrite)
                except Exception as e:
                    err2 = type(e)
                check(err1 is err2, tag + " same error {} {}".format(err1, err2))
                check((err1 is not None) == (conflict and overwrite is None), tag + " error iff conflict")
                same_ds(h2b.last_ds, h1b.last_ds, tag + " second last_ds")
                if err2 is None:
                    check(h2b.last_ds is ds, tag + " second last_ds is ds")
                    check(not os.path.exists(crop.location), tag + " cleaned 2")
                    same_ds(h2b.full_ds, h1b.full_ds, tag + " full_ds")
                else:
                    # failed sync must not have destroyed the sown/grown data
                    check(os.path.exists(crop.location), tag + " crop kept on failed sync")
                    crop.delete_all()
                d1 = xr.load_dataset(f1, engine="h5netcdf")
                d2 = xr.load_dataset(f2, engine="h5netcdf")
                same_ds(d2, d1, tag + " on disk")

    # cases + sync=False + no data_name
    h1 = Harvester(make_runner())
    h1.harvest_cases(CASES)
    h2 = Harvester(make_runner())
    crop = h2.Crop(name="hcases", parent_dir=tmp, batchsize=2)
    crop.sow_cases(["a", "b"], CASES, verbosity=0)
    crop.grow_missing()
    ds = crop.reap(sync=False)
    same_ds(ds, h1.last_ds, "harvester cases sync=False")
    check(h2.last_ds is ds, "last_ds set even if sync=False")
    check(h2._full_ds is None, "sync=False does not touch full_ds")
    check(not os.path.exists(crop.location), "cleaned (sync=False)")

    crop = h2.Crop(name="hcases2", parent_dir=tmp, batchsize=2)
    crop.sow_cases(["a", "b"], CASES, verbosity=0)
    crop.grow_missing()
    ds = crop.reap()
    same_ds(h2.full_ds, h1.full_ds, "in-memory only harvester full_ds")
    check(h2.full_ds is not ds, "full_ds is a distinct copy")


def section_harvester_reap_elsewhere(tmp):
    f1 = os.path.join(tmp, "edirect.h5")
    f2 = os.path.join(tmp, "ecrop.h5")
    h1 = Harvester(make_runner(), data_name=f1)
    h1.harvest_combos(COMBOS)
    h1.harvest_cases(CASES[2:3] + CASES[4:])
    for k, sow in enumerate(("combos", "cases")):
        h2 = Harvester(make_runner(), data_name=f2)
        name = "helse{}".format(k)
        crop = h2.Crop(name=name, parent_dir=tmp, num_batches=2)
        if sow == "combos":
            crop.sow_combos(COMBOS, verbosity=0)
        else:
            crop.sow_cases(["a", "b"], CASES[2:3] + CASES[4:], verbosity=0)
        child(name, tmp, "growfirst")
        child(name, tmp, "grow")
        out = os.path.join(tmp, name + ".pkl")
        child(name, tmp, "reap", out)
        with open(out, "rb") as f:
            got = pickle.load(f)
        check(got["kind"] == "Harvester", "farmer kind in child")
        same_ds(got["data"], got["last_ds"], "child data is last_ds")
        check(not os.path.exists(crop.location), "crop cleaned up by child")
    same_ds(got["data"], h1.last_ds, "harvester reaped in another process")
    same_ds(xr.load_dataset(f2, engine="h5netcdf"),
            xr.load_dataset(f1, engine="h5netcdf"),
            "harvester on-disk data after reaping in another process")


def section_sampler(tmp, hows=("same", "reload", "process")):
    dc = {"a": [1, 2, 3], "b": [10, 20]}
    for k, how in enumerate(hows):
        f1 = os.path.join(tmp, "sdirect{}.pkl".format(k))
        f2 = os.path.join(tmp, "scrop{}.pkl".format(k))
        np.random.seed(42 + k)
        s1 = Sampler(make_runner(fn_tab), data_name=f1, default_combos=dc)
        df1a = s1.sample_combos(7)
        df1b = s1.sample_combos(4, combos={"b": [50, 60]})

        np.random.seed(42 + k)
        s2 = Sampler(make_runner(fn_tab), data_name=f2, default_combos=dc)
        crop = s2.Crop(name="sc{}a".format(k), parent_dir=tmp, batchsize=3)
        crop.sow_samples(7, verbosity=0)
        grow_somehow(crop, how, tmp)
        dfa = crop.reap()
        same_df(dfa, df1a, "sampler first df " + how)
        check(s2.last_df is dfa, "sampler.last_df")
        check(s2.runner._last_df is dfa, "sampler.runner._last_df")
        check(not os.path.exists(crop.location), "sampler crop cleaned")

        crop = s2.Crop(name="sc{}b".format(k), parent_dir=tmp, num_batches=3)
        crop.sow_samples(4, combos={"b": [50, 60]}, verbosity=0)
        grow_somehow(crop, how, tmp)
        dfb = crop.reap()
        same_df(dfb, df1b, "sampler second df " + how)
        check(s2.last_df is dfb, "sampler.last_df 2")
        same_df(s2.full_df, s1.full_df, "sampler full_df " + how)
        same_df(pd.read_pickle(f2), pd.read_pickle(f1), "sampler on disk " + how)
        check(len(s2.full_df) == 11, "sampler accumulated rows")

    # sync=False leaves everything alone, but still returns the frame
    np.random.seed(7)
    s1 = Sampler(make_runner(fn_tab), default_combos=dc)
    d1 = s1.sample_combos(5)
    np.random.seed(7)
    s2 = Sampler(make_runner(fn_tab), default_combos=dc)
    crop = s2.Crop(name="snosync", parent_dir=tmp)
    crop.sow_samples(5, verbosity=0)
    crop.grow_missing()
    d2 = crop.reap(sync=False)
    same_df(d2, d1, "sampler sync=False")
    check(s2._full_df is None and s2.last_df is None, "sync=False: sampler untouched")
    check(not os.path.exists(crop.location), "cleaned (sampler sync=False)")

    # in-memory only sampler, incomplete then complete
    np.random.seed(7)
    crop = s2.Crop(name="smem", parent_dir=tmp, batchsize=2)
    crop.sow_samples(5, verbosity=0)
    crop.grow_missing()
    d3 = crop.reap()
    same_df(d3, d1, "sampler in-memory")
    same_df(s2.full_df, s1.full_df, "sampler in-memory full_df")
    check(s2.full_df is not d3, "full_df distinct from last_df")


def section_sampler_reap_elsewhere(tmp):
    dc = {"a": [1, 2, 3], "b": [10, 20]}
    f1 = os.path.join(tmp, "sedirect.pkl")
    f2 = os.path.join(tmp, "secrop.pkl")
    np.random.seed(5)
    s1 = Sampler(make_runner(fn_tab), data_name=f1, default_combos=dc)
    s1.sample_combos(3)
    d1 = s1.sample_combos(6)
    np.random.seed(5)
    for k, n in enumerate((3, 6)):
        s2 = Sampler(make_runner(fn_tab), data_name=f2, default_combos=dc)
        name = "selse{}".format(k)
        crop = s2.Crop(name=name, parent_dir=tmp, num_batches=2)
        crop.sow_samples(n, verbosity=0)
        child(name, tmp, "grow")
        out = os.path.join(tmp, name + ".pkl")
        child(name, tmp, "reap", out)
        with open(out, "rb") as f:
            got = pickle.load(f)
        check(got["kind"] == "Sampler", "farmer kind in child")
        check(not os.path.exists(crop.location), "crop cleaned by child")
    same_df(got["data"], d1, "sampler reaped in another process")
    same_df(got["farmer_last_df"], d1, "sampler last_df in another process")
    same_df(got["last_df"], d1, "sampler runner last_df in another process")
    same_df(pd.read_pickle(f2), pd.read_pickle(f1), "sampler on-disk, other process")


def section_cleanup_matrix(tmp):
    """Every (farmer kind, clean_up, allow_incomplete, sync) combination:
    the reaped data equals the direct run, is recorded as the last result,
    the accumulated data matches, and the crop is removed exactly when
    ``clean_up`` (default ``not allow_incomplete``) says so.
    """
    dc = {"a": [1, 2, 3], "b": [10, 20]}
    i = 0
    for kind in ("runner", "harvester", "sampler", "none"):
        for clean_up in (None, True, False):
            for allow_incomplete in (False, True):
                for sync in (True, False):
                    if kind in ("runner", "none") and not sync:
                        continue
                    i += 1
                    tag = "matrix {} cu={} ai={} sync={}".format(
                        kind, clean_up, allow_incomplete, sync)
                    name = "m{}".format(i)
                    f1 = os.path.join(tmp, "mdirect{}".format(i))
                    f2 = os.path.join(tmp, "mcrop{}".format(i))
                    if kind == "runner":
                        far = make_runner()
                        expect = make_runner().run_combos(COMBOS)
                    elif kind == "harvester":
                        f1 += ".h5"
                        f2 += ".h5"
                        h1 = Harvester(make_runner(), data_name=f1)
                        h1.harvest_combos(COMBOS, sync=sync)
                        expect = h1.last_ds
                        far = Harvester(make_runner(), data_name=f2)
                    elif kind == "sampler":
                        f1 += ".pkl"
                        f2 += ".pkl"
                        np.random.seed(i)
                        s1 = Sampler(make_runner(fn_tab), data_name=f1, default_combos=dc)
                        expect = s1.sample_combos(6)
                        far = Sampler(make_runner(fn_tab), data_name=f2, default_combos=dc)
                    else:
                        far = None
                        expect = xyzpy.combo_runner(fn_tab, COMBOS, constants={"c": 2.0})

                    if far is None:
                        crop = Crop(fn=fn_tab, name=name, parent_dir=tmp, num_batches=4)
                    else:
                        crop = far.Crop(name=name, parent_dir=tmp, num_batches=4)
                    if kind == "sampler":
                        np.random.seed(i)
                        crop.sow_samples(6, verbosity=0)
                    elif kind == "none":
                        crop.sow_combos(COMBOS, constants={"c": 2.0}, verbosity=0)
                    else:
                        crop.sow_combos(COMBOS, verbosity=0)
                    crop.grow_missing()

                    kws = dict(clean_up=clean_up, allow_incomplete=allow_incomplete)
                    if kind in ("harvester", "sampler"):
                        kws["sync"] = sync
                    data = crop.reap(**kws)

                    if kind == "none":
                        check(data == expect, tag + " nested tuple")
                    elif kind == "sampler":
                        same_df(data, expect, tag)
                        if sync:
                            check(far.last_df is data, tag + " last_df")
                            same_df(pd.read_pickle(f2), pd.read_pickle(f1), tag + " disk")
                        else:
                            check(far.last_df is None, tag + " last_df untouched")
                            check(not os.path.exists(f2), tag + " nothing written")
                    else:
                        same_ds(data, expect, tag)
                        check(far.last_ds is data, tag + " last_ds")
                        if kind == "harvester":
                            if sync:
                                same_ds(xr.load_dataset(f2, engine="h5netcdf"),
                                        xr.load_dataset(f1, engine="h5netcdf"),
                                        tag + " disk")
                            else:
                                check(not os.path.exists(f2), tag + " nothing written")
                                check(far._full_ds is None, tag + " full_ds untouched")

                    should_clean = (not allow_incomplete) if clean_up is None else clean_up
                    check(os.path.exists(crop.location) == (not should_clean),
                          tag + " clean up")
                    if not should_clean:
                        # everything is still there to be reaped again
                        check(crop.is_ready_to_reap(), tag + " still ready")
                        crop.delete_all()

    # explicit farmer argument variants of the reap methods
    h = Harvester(make_runner())
    crop = h.Crop(name="mexp", parent_dir=tmp, batchsize=4)
    crop.sow_combos(COMBOS, verbosity=0)
    crop.grow_missing()
    for bad, meth in ((None, crop.reap_harvest), (None, crop.reap_samples)):
        try:
            meth(bad)
            check(False, "reaping with no farmer given must raise")
        except ValueError:
            check(True, "raises")
    check(os.path.exists(crop.location), "failed reaps leave crop")
    other = Harvester(make_runner())
    ds = crop.reap_harvest(other, overwrite=True, clean_up=False)
    check(other.last_ds is ds and h.last_ds is None, "explicit harvester used")
    same_ds(other.full_ds, make_runner().run_combos(COMBOS), "explicit harvester full_ds")
    ds2 = crop.reap()
    same_ds(ds2, ds, "reap again with own farmer")
    check(h.last_ds is ds2, "own farmer last_ds")
    check(not os.path.exists(crop.location), "finally cleaned")


if __name__ == "__main__":
    with tempfile.TemporaryDirectory() as tmp:
        section_cleanup_matrix(tmp)
        section_runner(tmp, hows=("same", "process"))
        section_runner_reap_elsewhere(tmp)
        section_incomplete(tmp)
        section_harvester(tmp)
        section_harvester_reap_elsewhere(tmp)
        section_sampler(tmp)
        section_sampler_reap_elsewhere(tmp)
    print("checks:", NCHECK[0])
    print("PASS")
