"""Demo / check for property C18 (infiniplot draws each slice once, correctly
styled and correctly placed).

Run as:  cd <worktree> && /venv/bin/python /path/to/demo.py

The expected content of every panel is computed here independently (plain
numpy / xarray selections of the input dataset) and compared with the artists
that matplotlib ended up holding.  Sections:

  A. line mode: panel placement (row / col / both / none / user supplied axes),
     NaN gaps vs join_across_missing, styles, fused dims, explicit orders
  B. mapped-dimension bookkeeping: constant (non-dimension) properties, custom
     values, tick labels, already fused dims, error cases
  C. aggregation with every error-range option, bands and bars
  D. heat-map mode: palette on / off, log / symlog norm, aggregation (+ warning),
     row / col panels, NaNs, explicit order, invalid mappings
  E. histogram mode: density / counts, explicit bins, panels
"""
import os
import sys

sys.path.insert(0, os.getcwd())

import collections
import itertools
import shutil
import tempfile
import warnings

import matplotlib

matplotlib.use("Agg")

import numpy as np
import xarray as xr
from matplotlib import pyplot as plt
from matplotlib.collections import LineCollection, PolyCollection, QuadMesh

import xyzpy
from xyzpy.plot.infiniplot import infiniplot
from xyzpy.plot.plotter_matplotlib import to_colors

assert os.path.dirname(os.path.dirname(os.path.abspath(xyzpy.__file__))) == os.getcwd(), (
    "xyzpy was not imported from the current directory: " + xyzpy.__file__
)

PROPS = ("hue", "color", "marker", "markersize", "markeredgecolor", "linestyle", "linewidth", "col", "row")
LABEL_PROPS = ("hue", "color", "marker", "markersize", "markeredgecolor", "linewidth", "linestyle")
NCHECKS = 0


def check(cond, msg):
    global NCHECKS
    NCHECKS += 1
    if not cond:
        raise AssertionError(msg)


# ----------------------------------------------------------------- datasets


def make_datasets():
    rng = np.random.default_rng(7)
    A = rng.normal(size=(3, 2, 2, 6))
    A[0, 0, 0, 2] = np.nan  # an interior gap
    A[1, 1, 1, :] = np.nan  # one slice with no data at all
    A[2, :, 0, 4] = np.nan
    ds4 = xr.Dataset(
        {
            "y": (("a", "b", "c", "x"), A),
            "e": (("a", "b", "c", "x"), np.abs(rng.normal(size=A.shape)) / 5 + 0.01),
            "unused": (("a", "q"), rng.normal(size=(3, 2))),
        },
        coords={"a": [1, 2, 3], "b": ["p", "q"], "c": [0.5, 1.5], "x": np.arange(6.0), "q": [0, 1]},
    )
    B = A.copy()
    B[1] = np.nan  # a whole coordinate of `a` has no data
    ds4n = ds4.drop_vars("e").copy(deep=True)
    ds4n["y"] = (("a", "b", "c", "x"), B)

    Z = rng.normal(size=(2, 3, 4, 5, 2))
    Z[0, 1, 2, 3, :] = np.nan
    Z[1, 0, :, 1, 0] = np.nan
    ds5 = xr.Dataset(
        {"z": (("r", "s", "y", "x", "rep"), Z), "zp": (("r", "s", "y", "x", "rep"), np.abs(Z) + 0.1)},
        coords={"r": ["u", "v"], "s": [10, 20, 30], "y": np.arange(4.0), "x": np.arange(5.0), "rep": [0, 1]},
    )
    ds2 = xr.Dataset(
        {"y": (("a", "x"), rng.normal(size=(4, 5)))}, coords={"a": list("wxyz"), "x": np.arange(5.0)}
    )
    ds3 = xr.Dataset(
        {
            "xx": (("a", "n"), np.cumsum(np.abs(rng.normal(size=(3, 7))) + 0.1, 1)),
            "yy": (("a", "n"), rng.normal(size=(3, 7))),
        },
        coords={"a": [1, 2, 3], "n": np.arange(7)},
    )
    ds3["xx"][0, 3] = np.nan
    ds3["yy"][2, 5] = np.nan
    return ds4, ds4n, ds5, ds2, ds3


# -------------------------------------------------------------------- model


def model_dataset(ds, keep, mapping, orders):
    """The data that should be shown: only the plotted variables, fused dims
    stacked, explicit orders selected, mapped coordinates without any data
    dropped."""
    d = ds[list(keep)]
    resolved = {}
    for prop in PROPS:
        dim = mapping.get(prop)
        if dim is None:
            continue
        if isinstance(dim, (tuple, list)):
            name = ", ".join(dim)
            if name not in d.dims:
                d = d.stack({name: tuple(dim)})
            dim = name
        if orders.get(prop) is not None:
            d = d.sel({dim: list(orders[prop])})
        d = d.dropna(dim, how="all")
        resolved[prop] = dim
    return d, resolved


def seq_key(arr):
    return tuple("nan" if (isinstance(v, float) and v != v) else v for v in np.asarray(arr, dtype=float).tolist())


def expected_lines(d, resolved, x, y, join=False, xvar=None):
    """-> Counter{(i, j, label, xs, ys)}, {key: mapped coords}"""
    core = (x,) if xvar is None else (xvar,)
    dims = [k for k in d[y].dims if k not in core]
    label_dims = []
    for prop in LABEL_PROPS:
        if prop in resolved and resolved[prop] not in label_dims:
            label_dims.append(resolved[prop])
    exp = collections.Counter()
    coords_of = {}
    for idx in itertools.product(*(range(d.sizes[k]) for k in dims)):
        loc = dict(zip(dims, idx))
        yv = d[y].isel(loc).values.astype(float)
        xv = d[x].isel(loc).values.astype(float) if xvar is not None else d[x].values.astype(float)
        mask = ~np.isnan(yv)
        if xvar is not None:
            mask &= ~np.isnan(xv)
        if not mask.any():
            continue
        if join:
            xv, yv = xv[mask], yv[mask]
        label = ", ".join(str(d[k].values[loc[k]]) for k in label_dims)
        i = loc[resolved["row"]] if "row" in resolved else 0
        j = loc[resolved["col"]] if "col" in resolved else 0
        key = (i, j, label, seq_key(xv), seq_key(yv))
        exp[key] += 1
        coords_of[key] = {p: d[k].values[loc[k]] for p, k in resolved.items()}
    return exp, coords_of


def data_lines(ax):
    # the caps of error bars are lines too, they are labelled "_nolegend_"
    return [l for l in ax.lines if l.get_label() != "_nolegend_"]


def line_label(l):
    # matplotlib renames an empty label to "_child<N>"
    lab = l.get_label()
    return "" if lab.startswith("_child") else lab


def actual_lines(axs):
    act = collections.Counter()
    line_of = {}
    for (i, j), ax in np.ndenumerate(axs):
        for l in data_lines(ax):
            key = (i, j, line_label(l), seq_key(l.get_xdata()), seq_key(l.get_ydata()))
            act[key] += 1
            line_of.setdefault(key, []).append(l)
    return act, line_of


def hexc(c):
    return matplotlib.colors.to_hex(c, keep_alpha=True)


STYLE_GETTERS = {
    "color": lambda l: hexc(l.get_color()),
    "marker": lambda l: l.get_marker(),
    "markersize": lambda l: float(l.get_markersize()),
    "markeredgecolor": lambda l: hexc(l.get_markeredgecolor()),
    "linewidth": lambda l: float(l.get_linewidth()),
    "linestyle": lambda l: (l.get_linestyle(), repr(getattr(l, "_unscaled_dash_pattern", None))),
}


def hashable(v):
    return tuple(v) if isinstance(v, (tuple, list, np.ndarray)) else (v.item() if hasattr(v, "item") else v)


def check_styles(line_of, coords_of, resolved, what):
    for prop, getter in STYLE_GETTERS.items():
        if prop not in resolved:
            continue
        seen = {}
        for key, lines in line_of.items():
            c = coords_of[key]
            ck = hashable(c[prop])
            if prop == "color" and "hue" in resolved:
                ck = (hashable(c["hue"]), ck)
            for l in lines:
                st = getter(l)
                check(seen.setdefault(ck, st) == st, f"{what}: equal {prop} coordinate {ck} drawn with two styles")
        check(
            len(set(seen.values())) == len(seen),
            f"{what}: different {prop} coordinates share a style: {seen}",
        )


def run(ds, x, y=None, z=None, expect_warning=None, **kw):
    """Call infiniplot, check that the input is untouched, return fig, axs."""
    before = ds.copy(deep=True)
    with warnings.catch_warnings(record=True) as w:
        warnings.simplefilter("always")
        fig, axs = infiniplot(ds, x, y, z, show_and_close=False, **kw)
    check(ds.identical(before), f"input dataset modified by {kw}")
    for k in ds.variables:
        check(ds[k].dims == before[k].dims, "input dims changed")
    if expect_warning is not None:
        got = any("aggregating over all unmapped" in str(m.message) for m in w)
        check(got == expect_warning, f"heat-map aggregation warning: expected {expect_warning}, got {got}")
    return fig, axs


def check_line_plot(ds, x, y, mapping, orders=None, join=False, what="", xvar_dim=None, **kw):
    orders = orders or {}
    call = dict(mapping)
    call.update({f"{p}_order": o for p, o in orders.items()})
    if join:
        call["join_across_missing"] = True
    if xvar_dim is not None:
        call["xlink"] = xvar_dim
    call.update(kw)
    fig, axs = run(ds, x, y, **call)
    keep = (y,) if xvar_dim is None else (x, y)
    d, resolved = model_dataset(ds, keep, mapping, orders)
    nrow = d.sizes[resolved["row"]] if "row" in resolved else 1
    ncol = d.sizes[resolved["col"]] if "col" in resolved else 1
    if "axs" not in kw and "ax" not in kw:
        check(axs.shape == (nrow, ncol), f"{what}: grid {axs.shape} != {(nrow, ncol)}")
        check(fig is not None, f"{what}: no figure")
    exp, coords_of = expected_lines(d, resolved, x, y, join=join, xvar=xvar_dim)
    act, line_of = actual_lines(axs)
    check(sum(exp.values()) > 0, f"{what}: model has no lines")
    check(act == exp, f"{what}: lines drawn differ from the data slices\n missing={exp - act}\n extra={act - exp}")
    check_styles(line_of, coords_of, resolved, what)
    return fig, axs, d, resolved


# ------------------------------------------------------------- A. placement


def section_a(ds4, ds4n, ds2, ds3, tmp):
    combos = [
        ({}, {}),
        ({"color": "a"}, {}),
        ({"hue": "a"}, {}),
        ({"hue": "a", "color": "b"}, {}),
        ({"color": "a", "row": "b", "col": "c"}, {}),
        ({"row": "a", "col": "b", "linewidth": "c"}, {}),
        ({"col": "a", "marker": "b", "linestyle": "c"}, {}),
        ({"row": "a", "markersize": "b", "markeredgecolor": "c"}, {}),
        ({"row": "c", "color": ("a", "b")}, {}),
        ({"color": ["a", "b"], "col": "c"}, {"color": [(2, "q"), (1, "p"), (3, "p")]}),
        ({"color": "a", "row": "b"}, {"color": [3, 1], "row": ["q", "p"]}),
        ({"color": "a", "marker": "a", "linestyle": "a", "col": "b"}, {}),
        ({"hue": "a", "color": "b", "marker": "c"}, {}),
    ]
    n = 0
    for dsx in (ds4, ds4n):
        for mapping, orders in combos:
            for join in (False, True):
                for palette in (None, "viridis"):
                    if palette is not None and "color" not in mapping:
                        continue
                    kw = {} if palette is None else {"palette": palette}
                    fig, axs, d, resolved = check_line_plot(
                        dsx, "x", "y", mapping, orders, join=join, what=f"A{n} {mapping} {orders} join={join}", **kw
                    )
                    if n % 9 == 0:
                        fig.savefig(os.path.join(tmp, f"a{n}.png"), dpi=30)
                    plt.close(fig)
                    n += 1

    # the coordinate of `a` without data gets no panel and no line
    fig, axs, d, resolved = check_line_plot(ds4n, "x", "y", {"row": "a", "color": "b"}, what="A-dropna")
    check(axs.shape == (2, 1), "A-dropna: empty row kept")
    plt.close(fig)

    # the slice with no data at all is not drawn (23 of 24 slices have data)
    fig, axs = run(ds4, "x", "y", color="a", marker="b", linestyle="c")
    check(len(data_lines(axs[0, 0])) == 11, "A: all-NaN slice drawn")
    plt.close(fig)

    # x given as a variable linked along another dimension
    for join in (False, True):
        fig, *_ = check_line_plot(ds3, "xx", "yy", {"color": "a"}, join=join, xvar_dim="n", what="A-xlink")
        plt.close(fig)
        fig, *_ = check_line_plot(ds3, "xx", "yy", {"row": "a"}, join=join, xvar_dim="n", what="A-xlink-row")
        plt.close(fig)

    # 2-d dataset, every property on the same dimension
    fig, *_ = check_line_plot(
        ds2, "x", "y", {k: "a" for k in ("color", "marker", "markersize", "markeredgecolor", "linestyle", "linewidth")},
        what="A-2d",
    )
    plt.close(fig)

    # user supplied axes: drawn into the right ones, no figure returned
    fig0, axs0 = plt.subplots(2, 2, squeeze=False)
    fig, axs, *_ = check_line_plot(ds4, "x", "y", {"row": "b", "col": "c", "color": "a"}, axs=axs0, what="A-axs")
    check(fig is None and axs is axs0, "A-axs: figure / axes identity")
    plt.close(fig0)
    fig0, ax0 = plt.subplots()
    fig, axs, *_ = check_line_plot(ds4, "x", "y", {"color": "a"}, ax=ax0, what="A-ax")
    check(fig is None and axs.shape == (1, 1) and axs[0, 0] is ax0, "A-ax: single axes")
    plt.close(fig0)
    # too small a grid: error when the first out-of-grid slice is reached,
    # the slices before it having been drawn
    fig0, axs0 = plt.subplots(1, 2, squeeze=False)
    try:
        infiniplot(ds4, "x", "y", axs=axs0, row="b", col="c", color="a", show_and_close=False)
    except IndexError:
        pass
    else:
        raise AssertionError("A: too small grid accepted")
    check(
        [len(data_lines(a)) for a in axs0.flat] == [1, 1],
        "A: too small grid: slices drawn before the error",
    )
    plt.close(fig0)
    try:
        infiniplot(ds4, "x", "y", ax=ax0, axs=axs0, show_and_close=False)
    except ValueError as e:
        check("both" in str(e), "A: ax+axs message")
    else:
        raise AssertionError("A: ax and axs accepted")
    plt.close("all")


# ------------------------------------------------------------- B. mapped dims


def section_b(ds4, ds5):
    # constants that are not dimensions: one style for every line
    fig, axs = run(ds4, "x", "y", color="red", marker="s", linestyle="--", linewidth=2.5, markersize=3.5, row="a")
    for ax in axs.flat:
        for l in data_lines(ax):
            check(
                (hexc(l.get_color()), l.get_marker(), l.get_linestyle(), l.get_linewidth(), l.get_markersize())
                == (hexc("red"), "s", "--", 2.5, 3.5),
                "B: constant style",
            )
    check(axs.shape == (3, 1), "B: constant style grid")
    plt.close(fig)

    # custom values are used in order of the coordinates
    fig, axs, d, resolved = check_line_plot(
        ds4, "x", "y", {"color": "a", "marker": "b", "linestyle": "c"},
        colors=["#ff0000", "#00ff00", "#0000ff"], markers=["<", ">"], linestyles=[":", "-."], what="B-custom",
    )
    for l in data_lines(axs[0, 0]):
        a, b, c = l.get_label().split(", ")
        check(hexc(l.get_color()) == hexc({"1": "#ff0000", "2": "#00ff00", "3": "#0000ff"}[a]), "B: custom color")
        check(l.get_marker() == {"p": "<", "q": ">"}[b], "B: custom marker")
        check(l.get_linestyle() == {"0.5": ":", "1.5": "-."}[c], "B: custom linestyle")
    plt.close(fig)

    # default styles come in the documented order
    fig, axs, *_ = check_line_plot(ds4, "x", "y", {"marker": "a", "linewidth": "b", "markersize": "c"}, what="B-default")
    for l in data_lines(axs[0, 0]):
        a, c, b = l.get_label().split(", ")  # label order: marker, markersize, linewidth
        check(l.get_marker() == {"1": "o", "2": "X", "3": "v"}[a], "B: default markers")
        check(l.get_markersize() == {"0.5": 3.0, "1.5": 9.0}[c], "B: default markersizes")
        check(l.get_linewidth() == {"p": 1.0, "q": 3.0}[b], "B: default linewidths")
    plt.close(fig)

    # already fused dimension, given by its parts
    dsf = ds4.stack({"a, b": ("a", "b")})
    fig, *_ = check_line_plot(dsf, "x", "y", {"color": ("a", "b"), "linestyle": "c"}, what="B-prefused")
    plt.close(fig)

    # tick labels (sequence and dict) and label show up in the legend
    fig, axs = run(ds4, "x", "y", color="a", color_label="AAA", color_ticklabels=["one", "two", "three"],
                   marker="b", marker_ticklabels={"q": "QQ"})
    texts = [t.get_text() for t in axs[0, -1].get_legend().get_texts()]
    check(texts[:4] == ["AAA", "one", "two", "three"], f"B: legend color entries {texts}")
    check("QQ" in texts and "p" in texts, f"B: legend marker entries {texts}")
    plt.close(fig)

    # errors
    for kw, exc, frag in [
        (dict(color=(0.1, 0.2, 0.3)), TypeError, "expected str"),
        (dict(marker="a", marker_ticklabels=5), TypeError, "not iterable"),
        (dict(colour="a"), ValueError, "not valid"),
    ]:
        try:
            import contextlib, io

            with contextlib.redirect_stdout(io.StringIO()):
                infiniplot(ds4, "x", "y", show_and_close=False, **kw)
        except exc as e:
            check(frag in str(e), f"B: message for {kw}: {e}")
        else:
            raise AssertionError(f"B: {kw} accepted")
        plt.close("all")
    for prop in ("color", "hue", "marker", "linestyle", "linewidth", "markersize"):
        try:
            infiniplot(ds5, "x", "y", "z", aggregate=True, show_and_close=False, **{prop: "s"})
        except ValueError as e:
            want = "color" if prop == "hue" else prop  # a lone hue is treated as color
            check(str(e) == f"Heatmap: cannot map property `{want}`.", f"B: heat-map message {e}")
        else:
            raise AssertionError(f"B: heat-map mapping of {prop} accepted")
        plt.close("all")


# ------------------------------------------------------------ C. aggregation


def spread_numpy(A, axes, opt):
    if opt == "std":
        m, s = np.nanmean(A, axes), np.nanstd(A, axes)
        return m - s, m + s
    if opt == "stderr":
        m, s = np.nanmean(A, axes), np.nanstd(A, axes)
        s = s / np.sqrt(np.sum(~np.isnan(A), axes))
        return m - s, m + s
    r = min(max(0.0, opt), 1.0)
    return np.nanquantile(A, 0.5 - r / 2, axis=axes), np.nanquantile(A, 0.5 + r / 2, axis=axes)


def close_sets(P, Q, what):
    P = np.array(sorted(map(tuple, np.round(np.asarray(P, float), 9).tolist())))
    Q = np.array(sorted(map(tuple, np.round(np.asarray(Q, float), 9).tolist())))
    P = np.unique(P, axis=0)
    Q = np.unique(Q, axis=0)
    check(P.shape == Q.shape and np.allclose(P, Q, atol=1e-8), f"{what}: point sets differ\n{P}\n{Q}")


def bar_segments(bc):
    """The complete (two point, NaN free) segments of an error bar set."""
    segs = [np.asarray(sg, float) for sg in bc.get_segments()]
    segs = [sg for sg in segs if sg.shape == (2, 2) and not np.isnan(sg).any()]
    return np.array(segs).reshape(len(segs), 2, 2)


def section_c(ds4):
    A = ds4["y"].values  # (a, b, c, x)
    xs = ds4["x"].values
    for opt in (0.5, "std", "stderr", 0.0, 1.0, 1.7, -3):
        for method, fn in (("median", np.nanmedian), ("mean", np.nanmean)):
            # all unmapped dims (b, c) aggregated, bands
            fig, axs = run(ds4, "x", "y", color="a", aggregate=True, aggregate_err_range=opt, aggregate_method=method)
            ax = axs[0, 0]
            lines = data_lines(ax)
            check(len(lines) == 3, f"C {opt}: one line per colour")
            mid = fn(A, axis=(1, 2))
            lo, hi = spread_numpy(A, (1, 2), opt)
            polys = [c for c in ax.collections if isinstance(c, PolyCollection)]
            check(len(polys) == 3, f"C {opt}: one band per line")
            for k, (l, p) in enumerate(zip(lines, polys)):
                check(l.get_label() == str(k + 1), "C: label")
                check(np.array_equal(l.get_xdata(), xs), "C: x of aggregated line")
                check(np.allclose(l.get_ydata(), mid[k], atol=1e-12), f"C {opt}: aggregated {method} line")
                verts = np.concatenate([q.vertices for q in p.get_paths()])
                close_sets(verts, np.concatenate([np.c_[xs, lo[k]], np.c_[xs, hi[k]]]), f"C {opt} band {k}")
                check(hexc(p.get_facecolor()[0][:3]) == hexc(matplotlib.colors.to_rgb(l.get_color())), "C: band colour")
            plt.close(fig)

        # one dimension aggregated, the other on rows, error bars
        fig, axs = run(ds4, "x", "y", color="a", row="b", aggregate="c", aggregate_err_range=opt, err_style="bars")
        check(axs.shape == (2, 1), "C: rows")
        lo, hi = spread_numpy(A, 2, opt)
        mid = np.nanmedian(A, axis=2)
        for ib in range(2):
            ax = axs[ib, 0]
            lines = data_lines(ax)
            bars = [c for c in ax.collections if isinstance(c, LineCollection)]
            check(len(lines) == 3 and len(bars) == 3, f"C {opt}: lines / bars in row {ib}")
            for ia, (l, bc) in enumerate(zip(lines, bars)):
                yv = np.asarray(l.get_ydata(), float)
                check(np.allclose(yv, mid[ia, ib], atol=1e-12, equal_nan=True), "C: row line")
                got = bar_segments(bc)
                ok = ~np.isnan(mid[ia, ib])
                m = mid[ia, ib][ok]
                want_lo = m - np.abs(m - lo[ia, ib][ok])
                want_hi = m + np.abs(hi[ia, ib][ok] - m)
                close_sets(got[:, 0, :], np.c_[xs[ok], want_lo], f"C {opt} bars lo")
                close_sets(got[:, 1, :], np.c_[xs[ok], want_hi], f"C {opt} bars hi")
        plt.close(fig)

    # an explicit error variable wins over the aggregated spread
    fig, axs = run(ds4, "x", "y", color="a", row="b", col="c", err="e")
    for (ib, ic), ax in np.ndenumerate(axs):
        bars = [c for c in ax.collections if isinstance(c, LineCollection)]
        lines = data_lines(ax)
        check(len(bars) == len(lines), "C: one error bar set per line")
        for l, bc in zip(lines, bars):
            ia = int(l.get_label()) - 1
            yv, ev = A[ia, ib, ic], ds4["e"].values[ia, ib, ic]
            ok = ~np.isnan(yv)
            got = bar_segments(bc)
            close_sets(got[:, 0, :], np.c_[xs[ok], (yv - ev)[ok]], "C err lo")
            close_sets(got[:, 1, :], np.c_[xs[ok], (yv + ev)[ok]], "C err hi")
    plt.close(fig)

    for bad in ("bogus", [1]):
        try:
            infiniplot(ds4, "x", "y", color="a", aggregate=True, aggregate_err_range=bad, show_and_close=False)
        except TypeError as e:
            check("not supported between" in str(e), f"C: message {e}")
        else:
            raise AssertionError("C: bad err range accepted")
        plt.close("all")


# --------------------------------------------------------------- D. heat-map


def nan_equal(a, b):
    a = np.asarray(a, float)
    b = np.asarray(b, float)
    return a.shape == b.shape and bool(np.all((a == b) | (np.isnan(a) & np.isnan(b))))


def check_heatmap(ds, x, y, z, mapping, orders=None, agg=None, method="median", palette=None, zscale=None,
                  expect_warning=None, what=""):
    orders = orders or {}
    call = dict(mapping)
    call.update({f"{p}_order": o for p, o in orders.items()})
    if agg is not None:
        call.update(aggregate=agg, aggregate_method=method)
    if palette is not None:
        call["palette"] = palette
    if zscale is not None:
        call["zscale"] = zscale
    fig, axs = run(ds, x, y, z, expect_warning=expect_warning, **call)
    d, resolved = model_dataset(ds, (z,), mapping, orders)
    panel_dims = [resolved[p] for p in ("row", "col") if p in resolved]
    other = [k for k in d[z].dims if k not in (x, y, *panel_dims)]
    with warnings.catch_warnings():
        warnings.simplefilter("ignore")
        dz = getattr(d[z], method)(other) if other else d[z]
    nrow = d.sizes[resolved["row"]] if "row" in resolved else 1
    ncol = d.sizes[resolved["col"]] if "col" in resolved else 1
    check(axs.shape == (nrow, ncol), f"{what}: grid")
    allz = dz.values[np.isfinite(dz.values)]
    zmin, zmax = allz.min(), allz.max()
    max_mag = max(abs(zmin), abs(zmax))
    xs, ys = ds[x].values, ds[y].values
    for (i, j), ax in np.ndenumerate(axs):
        meshes = [c for c in ax.collections if isinstance(c, QuadMesh)]
        check(len(meshes) == 1 and len(ax.collections) == 1, f"{what}: one mesh per panel")
        check(len(data_lines(ax)) == 0, f"{what}: lines in a heat-map")
        mesh = meshes[0]
        loc = {}
        if "row" in resolved:
            loc[resolved["row"]] = i
        if "col" in resolved:
            loc[resolved["col"]] = j
        want = dz.isel(loc).transpose(y, x).values
        check(want.shape == (len(ys), len(xs)), "model shape")
        # cell centres are the (x, y) coordinates
        cc = mesh.get_coordinates()
        cx = (cc[:-1, :-1, 0] + cc[1:, 1:, 0]) / 2
        cy = (cc[:-1, :-1, 1] + cc[1:, 1:, 1]) / 2
        check(np.allclose(cx, xs[None, :]) and np.allclose(cy, ys[:, None]), f"{what}: mesh position")
        arr = mesh.get_array()
        if palette is None:
            fin = np.isfinite(want)
            rgba = np.empty(want.shape + (4,))
            rgba[fin] = to_colors(want[fin], alpha_pow=0.0, max_mag=max_mag)[0]
            rgba[~fin] = (0.5, 0.5, 0.5, 0.5)
            check(np.array_equal(np.ma.getdata(arr), rgba), f"{what}: colours of panel {(i, j)}")
            check(not np.ma.getmaskarray(arr).any(), f"{what}: masked colours")
        else:
            got = np.ma.filled(np.ma.masked_invalid(arr).astype(float), np.nan)
            check(nan_equal(got.reshape(want.shape), want), f"{what}: z values of panel {(i, j)}")
            norm_type = {None: "Normalize", "log": "LogNorm", "symlog": "SymLogNorm"}[zscale]
            check(type(mesh.norm).__name__ == norm_type, f"{what}: norm type {type(mesh.norm).__name__}")
            check(mesh.norm.vmin == zmin and mesh.norm.vmax == zmax, f"{what}: norm limits")
            check(mesh.get_cmap().name == palette, f"{what}: palette")
    # one colour key next to the top right panel, nowhere else
    for (i, j), ax in np.ndenumerate(axs):
        nkey = len(ax.child_axes)
        check(nkey == (1 if (i, j) == (0, ncol - 1) else 0), f"{what}: colour key placement")
    key_ax = axs[0, -1].child_axes[0]
    if palette is not None:
        check(key_ax.get_ylabel() == r"$\bf{" + z + "}$", f"{what}: colour bar label")
    plt.close(fig)


def section_d(ds5, tmp):
    check_heatmap(ds5, "x", "y", "z", {"row": "r", "col": "s"}, expect_warning=True, what="D0")
    check_heatmap(ds5, "x", "y", "z", {"row": "r", "col": "s"}, agg=True, expect_warning=False, what="D1")
    check_heatmap(ds5, "x", "y", "z", {"row": "r", "col": "s"}, agg=True, palette="viridis", expect_warning=False, what="D2")
    check_heatmap(ds5, "x", "y", "zp", {"row": "r", "col": "s"}, agg=True, palette="magma", zscale="log", what="D3")
    check_heatmap(ds5, "x", "y", "z", {"row": "s"}, agg=True, palette="RdBu", zscale="symlog", what="D4")
    check_heatmap(ds5, "x", "y", "z", {"col": "s"}, agg=True, method="mean", what="D5")
    check_heatmap(ds5, "x", "y", "z", {"col": ("r", "s")}, agg=True, method="max", palette="viridis", what="D6")
    check_heatmap(ds5, "x", "y", "z", {"col": "s", "row": "rep"}, orders={"col": [30, 10]}, agg=True, what="D7")
    check_heatmap(ds5, "x", "y", "z", {}, agg=True, what="D8")
    check_heatmap(ds5, "x", "y", "z", {}, agg=True, palette="viridis", what="D9")
    check_heatmap(ds5, "y", "x", "z", {"row": "r", "col": "rep"}, agg=True, what="D10")
    # no unmapped dimension left: no aggregation, no warning
    d3 = ds5.isel(rep=0, drop=True)
    check_heatmap(d3, "x", "y", "z", {"row": "r", "col": "s"}, expect_warning=False, what="D11")
    check_heatmap(d3, "x", "y", "z", {"row": "r", "col": "s"}, palette="cividis", expect_warning=False, what="D12")
    # rendering works
    fig, axs = run(ds5, "x", "y", "z", row="r", col="s", aggregate=True, palette="viridis")
    fig.savefig(os.path.join(tmp, "heat.png"), dpi=30)
    plt.close(fig)
    # too small a user grid: the panels before the error are filled
    fig0, axs0 = plt.subplots(1, 2, squeeze=False)
    try:
        infiniplot(ds5, "x", "y", "z", axs=axs0, row="r", col="s", aggregate=True, show_and_close=False)
    except IndexError:
        pass
    else:
        raise AssertionError("D: too small grid accepted")
    check([len(a.collections) for a in axs0.flat] == [1, 1], "D: panels filled before the error")
    plt.close("all")


# -------------------------------------------------------------- E. histogram


def section_e(ds4, ds5):
    A = ds4["y"].values
    for bins, density in itertools.product(([-3, -1, 0, 1, 3], np.linspace(-3, 3, 8)), (True, False)):
        edges = np.asarray(bins, float)
        centres = (edges[1:] + edges[:-1]) / 2
        # colour by a, everything else binned together
        fig, axs = run(ds4, "y", color="a", bins=bins, bins_density=density)
        lines = data_lines(axs[0, 0])
        check(len(lines) == 3, "E: one histogram per colour")
        for l in lines:
            ia = int(l.get_label()) - 1
            want = np.histogram(A[ia].ravel(), bins=edges, density=density)[0]
            check(np.array_equal(l.get_xdata(), centres), "E: bin centres")
            check(np.allclose(l.get_ydata(), want, atol=1e-12), "E: histogram values")
            check(l.get_drawstyle() == "steps-mid", "E: draw style")
        check(axs[0, 0].get_ylabel() == ("prob(y)" if density else "count(y)"), "E: y label")
        check(sum(isinstance(c, PolyCollection) for c in axs[0, 0].collections) == 3, "E: fills")
        plt.close(fig)
        # panels
        fig, axs = run(ds4, "y", color="a", row="b", col="c", bins=bins, bins_density=density)
        check(axs.shape == (2, 2), "E: grid")
        for (ib, ic), ax in np.ndenumerate(axs):
            lines = data_lines(ax)
            # the (a=2, b=q, c=1.5) slice has no data: its counts are all zero but
            # still a valid histogram when counting; with density they are NaN
            for l in lines:
                ia = int(l.get_label()) - 1
                with np.errstate(all="ignore"):
                    want = np.histogram(A[ia, ib, ic], bins=edges, density=density)[0]
                check(np.allclose(l.get_ydata(), want, atol=1e-12, equal_nan=True), "E: panel histogram")
            labels = sorted(l.get_label() for l in lines)
            with np.errstate(all="ignore"):
                want_labels = sorted(
                    str(ia + 1)
                    for ia in range(3)
                    if not np.all(np.isnan(np.histogram(A[ia, ib, ic], bins=edges, density=density)[0].astype(float)))
                )
            check(labels == want_labels, f"E: lines per panel {labels} {want_labels}")
        plt.close(fig)
    Z = ds5["z"].values
    edges = np.linspace(-3, 3, 6)
    fig, axs = run(ds5, "z", row="r", color="s", bins=edges, bins_density=False)
    for ir in range(2):
        for l in data_lines(axs[ir, 0]):
            isx = [10, 20, 30].index(int(l.get_label()))
            want = np.histogram(Z[ir, isx].ravel(), bins=edges)[0]
            check(np.array_equal(l.get_ydata(), want), "E: 5d counts")
    plt.close(fig)


def main():
    tmp = tempfile.mkdtemp(prefix="c18demo-")
    try:
        ds4, ds4n, ds5, ds2, ds3 = make_datasets()
        with warnings.catch_warnings():
            warnings.filterwarnings("ignore", message="All-NaN slice")
            warnings.filterwarnings("ignore", message="Mean of empty slice")
            warnings.filterwarnings("ignore", message="Degrees of freedom")
            warnings.filterwarnings("ignore", message="invalid value encountered")
            section_a(ds4, ds4n, ds2, ds3, tmp)
            section_b(ds4, ds5)
            section_c(ds4)
            section_d(ds5, tmp)
            section_e(ds4, ds5)
        check(len(os.listdir(tmp)) > 0, "no figure rendered")
    finally:
        plt.close("all")
        shutil.rmtree(tmp, ignore_errors=True)
    check(not os.path.exists(tmp), "temporary directory left behind")
    print(f"{NCHECKS} checks")
    print("PASS")


if __name__ == "__main__":
    main()
