"""Demo for C16 twin t6: the grow path (module level ``grow`` and its helpers,
``Crop.grow`` / ``Crop.grow_missing`` / ``Crop.missing_results``).

Run as ``cd <worktree> && /venv/bin/python /path/to/demo.py``.
"""
import os
import sys

sys.path.insert(0, os.getcwd())

import contextlib
import io
import logging
import re
import shutil
import subprocess
import tempfile
from concurrent.futures import ThreadPoolExecutor

import xyzpy
from xyzpy.gen import cropping
from xyzpy.gen.cropping import read_from_disk, write_to_disk

HERE = os.getcwd()
assert os.path.dirname(os.path.dirname(os.path.abspath(xyzpy.__file__))) == (
    os.path.abspath(HERE)
), xyzpy.__file__

CHECKS = [0]


def check(cond, msg):
    CHECKS[0] += 1
    if not cond:
        raise AssertionError(msg)


# ------------------------------ crop helpers ------------------------------ #

def make_fn(log):
    def fn(a, b):
        with open(log, "a") as f:
            f.write("{},{}\n".format(a, b))
        return a * 100 + b

    return fn


def make_other_fn(log):
    def other(a, b):
        with open(log, "a") as f:
            f.write("{},{}\n".format(a, b))
        return -(a * 100 + b)

    return other


def make_crop(tdir, n_a, n_b, batchsize, name="demo"):
    log = os.path.join(tdir, "calls.log")
    combos = [("a", list(range(1, n_a + 1))), ("b", list(range(n_b)))]
    crop = xyzpy.Crop(
        fn=make_fn(log), name=name, parent_dir=tdir, batchsize=batchsize
    )
    crop.sow_combos(combos)
    expected = tuple(
        tuple(a * 100 + b for b in combos[1][1]) for a in combos[0][1]
    )
    return crop, log, expected


def batch_cases(crop, i):
    f = os.path.join(crop.location, "batches", cropping.BTCH_NM.format(i))
    return read_from_disk(f)


def result_ids(crop):
    d = os.path.join(crop.location, "results")
    found = []
    for f in os.listdir(d):
        m = re.fullmatch(cropping.RSLT_NM.format(r"(\d+)"), f)
        check(m is not None, "stray file in results: " + f)
        found.append(int(m.group(1)))
    return sorted(found)


def read_log(log):
    if not os.path.exists(log):
        return []
    with open(log) as f:
        return [ln.strip() for ln in f if ln.strip()]


def reset_log(log):
    if os.path.exists(log):
        os.remove(log)


def expected_log(crop, ids):
    lines = []
    for i in ids:
        for case in batch_cases(crop, i):
            lines.append("{},{}".format(case["a"], case["b"]))
    return lines


def check_result_contents(crop, ids, sign=1):
    for i in ids:
        f = os.path.join(crop.location, "results", cropping.RSLT_NM.format(i))
        res = read_from_disk(f)
        want = tuple(
            sign * (c["a"] * 100 + c["b"]) for c in batch_cases(crop, i)
        )
        check(res == want, "batch {} has results {} != {}".format(i, res, want))


def finish_and_reap(crop, log, expected):
    """Grow whatever is left, then the crop must be ready with exact data."""
    left = crop.missing_results()
    reset_log(log)
    crop.grow_missing()
    check(
        sorted(read_log(log)) == sorted(expected_log(crop, left)),
        "grow_missing grew something else than the missing batches",
    )
    check(crop.missing_results() == (), "still missing after grow_missing")
    check(crop.is_ready_to_reap(), "crop not ready to reap")
    got = crop.reap()
    check(got == expected, "reaped {} != {}".format(got, expected))


# --------------------------- script execution ----------------------------- #

ARRAY_RE = {
    "sge": r"^#\$ -t (\d+)-(\d+)$",
    "pbs": r"^#PBS -J (\d+)-(\d+)$",
    "slurm": r"^#SBATCH --array=(\d+)-(\d+)$",
}
TASK_VAR = {
    "sge": "SGE_TASK_ID",
    "pbs": "PBS_ARRAY_INDEX",
    "slurm": "SLURM_ARRAY_TASK_ID",
}


def run_script(script, scheduler, mode, tdir, expect_tasks):
    """Check the script is valid shell + python, then run it like the
    scheduler would: once per array index (or just once).
    """
    path = os.path.join(tdir, "job-{}.sh".format(len(os.listdir(tdir))))
    with open(path, "w") as f:
        f.write(script)

    syn = subprocess.run(["bash", "-n", path], capture_output=True, text=True)
    check(syn.returncode == 0, "bash -n failed: " + syn.stderr)
    check(script.startswith("#!/bin/bash -l\n"), "no shebang")

    # the embedded python program
    m = re.search(r"<< EOM\n(.*?)\nEOM\n", script, flags=re.S)
    check(m is not None, "no embedded python program")
    py = m.group(1)
    for var in TASK_VAR.values():
        py = py.replace("$" + var, "1")
    compile(py, "<embedded>", "exec")

    ranges = []
    for sch, pat in ARRAY_RE.items():
        for mm in re.finditer(pat, script, flags=re.M):
            check(sch == scheduler, "array header of another scheduler")
            ranges.append((int(mm.group(1)), int(mm.group(2))))

    if mode == "single":
        check(ranges == [], "single mode script with an array header")
        check("$" not in py.replace("$SCRIPT", ""), "task variable in single")
        tasks = [None]
    elif scheduler == "pbs" and expect_tasks == 1:
        # PBS cannot do arrays of size one: plain job, index hard-wired
        check(ranges == [], "PBS array of size one")
        check("$PBS_ARRAY_INDEX" not in script, "PBS index left in script")
        tasks = [None]
    else:
        check(len(ranges) == 1, "expected exactly one array header")
        start, stop = ranges[0]
        check(start == 1, "array does not start at 1")
        check(stop == expect_tasks, "array stop {} != {}".format(
            stop, expect_tasks))
        tasks = list(range(start, stop + 1))

    env = {
        k: v for k, v in os.environ.items() if k not in TASK_VAR.values()
    }
    env["PYTHONPATH"] = HERE + os.pathsep + env.get("PYTHONPATH", "")
    env["PYTHONWARNINGS"] = "ignore"

    def run_task(t):
        e = dict(env)
        if t is not None:
            e[TASK_VAR[scheduler]] = str(t)
        return subprocess.run(
            ["bash", path], capture_output=True, text=True, env=e, cwd=tdir
        )

    with ThreadPoolExecutor(4) as pool:
        outs = list(pool.map(run_task, tasks))

    for out in outs:
        check(out.returncode == 0, "script failed: " + out.stderr)
        check("Traceback" not in out.stderr, "python failed: " + out.stderr)
        check("XYZPY script starting..." in out.stdout, out.stdout)
        check("Growing:" in out.stdout, out.stdout)
        check(out.stdout.rstrip().endswith("XYZPY script finished"),
              out.stdout)
    return len(tasks)


def cluster_scenario(scheduler, mode, state, opts, n_a=2, n_b=3, batchsize=2):
    tdir = tempfile.mkdtemp(prefix="xyz-c16-")
    try:
        crop, log, expected = make_crop(tdir, n_a, n_b, batchsize)
        nb = crop.num_batches
        all_ids = list(range(1, nb + 1))

        pre = []
        if state == "none":
            ids, target = None, all_ids
        elif state == "some":
            pre = [i for i in all_ids if i % 2 == 0] or [1]
            crop.grow(tuple(pre))
            ids, target = None, [i for i in all_ids if i not in pre]
            check(crop.missing_results() == tuple(target), "missing_results")
        else:
            ids = list(state)
            target = list(state)

        reset_log(log)
        script = crop.gen_cluster_script(
            scheduler,
            batch_ids=ids,
            mode=mode,
            launcher=sys.executable,
            conda_env=False,
            output_directory=os.path.join(tdir, "output"),
            **opts,
        )
        run_script(script, scheduler, mode, tdir, len(target))

        # exactly the intended batches were grown, each once
        check(
            result_ids(crop) == sorted(set(pre) | set(target)),
            "{} {} {}: results {} != {}".format(
                scheduler, mode, state, result_ids(crop),
                sorted(set(pre) | set(target))),
        )
        check(
            sorted(read_log(log)) == sorted(expected_log(crop, target)),
            "{} {} {}: calls {} != {}".format(
                scheduler, mode, state, sorted(read_log(log)),
                sorted(expected_log(crop, target))),
        )
        check_result_contents(crop, result_ids(crop))
        finish_and_reap(crop, log, expected)
    finally:
        shutil.rmtree(tdir, ignore_errors=True)


# ------------------------- direct tests of grow --------------------------- #

@contextlib.contextmanager
def cwd(path):
    old = os.getcwd()
    os.chdir(path)
    try:
        yield
    finally:
        os.chdir(old)


@contextlib.contextmanager
def environ(**kw):
    old = {k: os.environ.get(k) for k in kw}
    os.environ.update(kw)
    try:
        yield
    finally:
        for k, v in old.items():
            if v is None:
                os.environ.pop(k, None)
            else:
                os.environ[k] = v


def quiet_grow(*args, **kwargs):
    out, err = io.StringIO(), io.StringIO()
    with contextlib.redirect_stdout(out), contextlib.redirect_stderr(err):
        xyzpy.grow(*args, **kwargs)
    return out.getvalue()


def raises(exc_type, fn, *args, **kwargs):
    try:
        with contextlib.redirect_stdout(io.StringIO()), \
                contextlib.redirect_stderr(io.StringIO()):
            fn(*args, **kwargs)
    except exc_type as e:
        check(type(e) is exc_type, "raised {!r}".format(e))
        return e
    raise AssertionError("{} not raised".format(exc_type.__name__))


def direct_grow_tests():
    for k in ("OMPI_COMM_WORLD_RANK", "PMI_RANK"):
        os.environ.pop(k, None)

    tdir = tempfile.mkdtemp(prefix="xyz-c16-")
    try:
        crop, log, expected = make_crop(tdir, 3, 4, 2, name="direct")
        nb = crop.num_batches
        check(nb == 6, "unexpected number of batches")
        check(crop.missing_results() == tuple(range(1, 7)), "all missing")

        # 1. verbosity levels and messages, crop given
        out = quiet_grow(1, crop=crop, verbosity=0)
        check(out == "", "verbosity 0 printed " + repr(out))
        check(result_ids(crop) == [1], "batch 1 grown")
        os.remove(os.path.join(crop.location, "results",
                               cropping.RSLT_NM.format(1)))
        for v in (1, 2):
            reset_log(log)
            out = quiet_grow(1, crop=crop, verbosity=v)
            check(
                out == "xyzpy: loaded batch 1 of direct.\n"
                "xyzpy: success - batch 1 completed.\n",
                "verbosity {} printed {!r}".format(v, out),
            )
            check(read_log(log) == expected_log(crop, [1]), "call order")
        check_result_contents(crop, [1])

        # 2. crop=None, run from inside the crop folder
        reset_log(log)
        with cwd(crop.location):
            out = quiet_grow(2, verbosity=1)
        check("loaded batch 2 of direct." in out, out)
        check(result_ids(crop) == [1, 2], "batch 2 grown from cwd")
        check(read_log(log) == expected_log(crop, [2]), "calls of batch 2")
        check_result_contents(crop, [2])

        # 3. crop=None, run from somewhere else
        with cwd(tdir):
            e = raises(xyzpy.gen.farming.XYZError, xyzpy.grow, 3)
        check(str(e).startswith("`grow` should be run in a "), str(e))
        check('"{crop_parent}/.xyz-{crop_name}" folder' in str(e), str(e))
        check(result_ids(crop) == [1, 2], "nothing grown on error")

        # 4. explicit fn takes precedence over the one on disk
        reset_log(log)
        quiet_grow(3, crop=crop, fn=make_other_fn(log), verbosity=0)
        check_result_contents(crop, [3], sign=-1)
        check(read_log(log) == expected_log(crop, [3]), "calls of batch 3")
        os.remove(os.path.join(crop.location, "results",
                               cropping.RSLT_NM.format(3)))

        # 5. pool of workers: same results in the same order
        reset_log(log)
        quiet_grow(3, crop=crop, num_workers=2, verbosity=2)
        check_result_contents(crop, [3])
        check(sorted(read_log(log)) == sorted(expected_log(crop, [3])),
              "calls of batch 3 (workers)")

        # 6. mpi rank detection: only rank 0 saves
        with environ(OMPI_COMM_WORLD_RANK="1"):
            reset_log(log)
            out = quiet_grow(4, crop=crop, verbosity=1)
            check(out.splitlines() == [
                "xyzpy: loaded batch 4 of direct.",
                "xyzpy: detected mpi rank 1.",
                "xyzpy: success - batch 4 completed.",
            ], out)
            check(result_ids(crop) == [1, 2, 3], "rank 1 must not save")
            check(read_log(log) == expected_log(crop, [4]), "rank 1 runs")
            out = quiet_grow(4, crop=crop, verbosity=0)
            check(out == "" and result_ids(crop) == [1, 2, 3], "rank 1 quiet")
            with environ(PMI_RANK="0"):
                # first variable wins
                quiet_grow(4, crop=crop, verbosity=0)
                check(result_ids(crop) == [1, 2, 3], "OMPI before PMI")
            out = quiet_grow(4, crop=crop, verbosity=1, check_mpi=False)
            check("mpi" not in out, out)
            check(result_ids(crop) == [1, 2, 3, 4], "check_mpi=False saves")
        with environ(PMI_RANK="0"):
            out = quiet_grow(5, crop=crop, verbosity=2)
            check("xyzpy: detected mpi rank 0." in out, out)
            check(result_ids(crop) == [1, 2, 3, 4, 5], "rank 0 saves")
        with environ(PMI_RANK="3"):
            quiet_grow(6, crop=crop, verbosity=0)
            check(result_ids(crop) == [1, 2, 3, 4, 5], "PMI rank 3")
        with environ(PMI_RANK="zero"):
            raises(ValueError, xyzpy.grow, 6, crop=crop, verbosity=0)
            check(result_ids(crop) == [1, 2, 3, 4, 5], "bad rank")
        check_result_contents(crop, [4, 5])
        check(crop.missing_results() == (6,), "one batch left")
        check(not crop.is_ready_to_reap(), "not ready yet")

        # 7. debugging sets the root logger level
        root = logging.getLogger()
        old_level = root.level
        try:
            root.setLevel(logging.WARNING)
            quiet_grow(6, crop=crop, verbosity=0, debugging=True)
            check(root.level == logging.DEBUG, "debugging level")
        finally:
            root.setLevel(old_level)
        check(crop.missing_results() == (), "all grown")

        # 8. batch that was never sown
        raises(FileNotFoundError, xyzpy.grow, 7, crop=crop, verbosity=0)
        check(result_ids(crop) == [1, 2, 3, 4, 5, 6], "no result for 7")

        # 9. empty batch file
        write_to_disk((), os.path.join(
            crop.location, "batches", cropping.BTCH_NM.format(7)))
        e = raises(ValueError, xyzpy.grow, 7, crop=crop, verbosity=0)
        check(str(e) == (
            "Something has gone wrong with the loading of batch "
            "xyz-batch-7.jbdmp for the crop at {}.".format(crop.location)
        ), str(e))
        with cwd(crop.location):
            raises(AttributeError, xyzpy.grow, 7)
        os.remove(os.path.join(
            crop.location, "batches", cropping.BTCH_NM.format(7)))
        check(result_ids(crop) == [1, 2, 3, 4, 5, 6], "no result for 7")

        check(crop.is_ready_to_reap(), "ready")
        check(crop.reap() == expected, "reaped data")
    finally:
        shutil.rmtree(tdir, ignore_errors=True)


def crop_method_tests():
    tdir = tempfile.mkdtemp(prefix="xyz-c16-")
    try:
        # unprepared crop: nothing to say about missing results
        blank = xyzpy.Crop(name="blank", parent_dir=tdir)
        raises(TypeError, blank.missing_results)

        crop, log, expected = make_crop(tdir, 4, 2, 1, name="methods")
        check(crop.num_batches == 8, "8 batches")

        def grown(call, ids):
            reset_log(log)
            before = result_ids(crop)
            call()
            check(result_ids(crop) == sorted(before + list(ids)),
                  "results after growing {}".format(ids))
            check(read_log(log) == expected_log(crop, ids),
                  "calls when growing {}: {}".format(ids, read_log(log)))

        grown(lambda: crop.grow(3), [3])
        check(crop.missing_results() == (1, 2, 4, 5, 6, 7, 8), "after 3")
        grown(lambda: crop.grow((5, 1)), [5, 1])
        grown(lambda: crop.grow([8]), [8])
        grown(lambda: crop.grow(range(6, 8), verbosity=0), [6, 7])
        check(crop.missing_results() == (2, 4), "after most")
        check(crop.num_results == 6 and not crop.is_ready_to_reap(), "6 of 8")

        # re-growing overwrites with the same data, grows it again
        reset_log(log)
        crop.grow(3)
        check(read_log(log) == expected_log(crop, [3]), "regrown")
        check(crop.missing_results() == (2, 4), "regrown, same results")

        e = raises(TypeError, crop.grow_missing, batch_ids=(2,))
        check("multiple values for keyword argument 'batch_ids'" in str(e),
              str(e))
        check(crop.missing_results() == (2, 4), "nothing grown on error")

        grown(lambda: crop.grow_missing(verbosity=0), [2, 4])
        check(crop.missing_results() == (), "none missing")
        grown(lambda: crop.grow_missing(), [])
        check(read_log(log) == [], "nothing to grow")
        check_result_contents(crop, range(1, 9))
        check(crop.is_ready_to_reap(), "ready")
        check(crop.reap() == expected, "reaped data")

        # parallel growing through the crop method
        crop, log, expected = make_crop(tdir, 2, 3, 2, name="par")
        crop.grow((1, 3), num_workers=2)
        check(result_ids(crop) == [1, 3], "parallel grow")
        check(crop.missing_results() == (2,), "parallel missing")
        crop.grow_missing(num_workers=2)
        check_result_contents(crop, [1, 2, 3])
        check(crop.reap() == expected, "reaped data (parallel)")
    finally:
        shutil.rmtree(tdir, ignore_errors=True)


def main():
    direct_grow_tests()
    crop_method_tests()

    n = 0
    for scheduler in ("sge", "pbs", "slurm"):
        cluster_scenario(scheduler, "array", "none", dict(hours=1))
        cluster_scenario(scheduler, "array", "some",
                         dict(time="00:10:00", mem=2, debugging=True))
        cluster_scenario(scheduler, "array", (3, 1),
                         dict(minutes=5, gigabytes=1, num_procs=2,
                              num_workers=2))
        cluster_scenario(scheduler, "array", (2,), dict(time=2))
        cluster_scenario(scheduler, "single", "none",
                         dict(num_procs=2, num_workers=2, num_nodes=1,
                              gigabytes=4))
        cluster_scenario(scheduler, "single", "some", dict(seconds=30))
        cluster_scenario(scheduler, "single", (1, 2, 3), dict())
        n += 7
    # crops of one batch / eight batches
    cluster_scenario("pbs", "array", "none", dict(), n_a=1, n_b=2)
    cluster_scenario("sge", "array", "none", dict(), n_a=1, n_b=2)
    cluster_scenario("slurm", "array", "some", dict(), n_a=4, n_b=2,
                     batchsize=1)
    n += 3

    print("scenarios: {}, checks: {}".format(n, CHECKS[0]))
    print("PASS")


if __name__ == "__main__":
    main()
