"""Demo for C05 twin t6: Harvester bookkeeping (load_full_ds / save_full_ds /
expand_dims / drop_sel) -- memory and disk stay the faithful merge."""
import os
import sys
sys.path.insert(0, os.getcwd())

import shutil
import warnings
import tempfile
import itertools

import numpy as np
import xarray as xr

import xyzpy
from xyzpy.gen import farming
from xyzpy.utils import XYZError
from xyzpy.manage import load_ds, auto_add_extension

warnings.filterwarnings('ignore')
assert os.path.abspath(xyzpy.__file__).startswith(os.getcwd()), xyzpy.__file__

CALLS = []


def fn(a, b):
    CALLS.append((a, b))
    return 10 * a + b, float(a - b)


def fn2(a, b):
    return 1000 + 10 * a + b, float(a - b)


def mk_runner(f=fn):
    return xyzpy.Runner(f, var_names=['x', 'y'])


def disk(path, engine):
    return load_ds(path, engine=engine)


def check_same(h, path, engine):
    on_disk = disk(path, engine)
    assert h.full_ds.identical(on_disk) or h.full_ds.equals(on_disk), \
        (h.full_ds, on_disk)
    return on_disk


def listing(d):
    return sorted(os.listdir(d))


def main():
    tmp = tempfile.mkdtemp(prefix='c05t6_')
    try:
        n = 0
        for engine, with_ext in itertools.product(
                ['h5netcdf', 'joblib'], [False, True]):
            n += 1
            d = os.path.join(tmp, 'run{}'.format(n))
            os.mkdir(d)
            ext = {'h5netcdf': '.h5', 'joblib': '.dmp'}[engine]
            base = os.path.join(d, 'data' + (ext if with_ext else ''))
            path = auto_add_extension(base, engine)
            assert path == os.path.join(d, 'data' + ext)

            h = xyzpy.Harvester(mk_runner(), base, engine=engine)

            # nothing on disk yet: loading is a no-op, full_ds stays None
            h.load_full_ds()
            assert h._full_ds is None and h.full_ds is None
            assert listing(d) == []

            # first harvest creates exactly one file with the right name
            h.harvest_combos({'a': [1, 2], 'b': [1, 2]}, verbosity=0)
            assert listing(d) == ['data' + ext], listing(d)
            ds = check_same(h, path, engine)
            assert ds['x'].sel(a=2, b=1).item() == 21

            # disjoint grid from a *new* harvester (new session)
            h2 = xyzpy.Harvester(mk_runner(), base, engine=engine)
            h2.harvest_combos({'a': [3], 'b': [1, 2]}, verbosity=0)
            ds = check_same(h2, path, engine)
            assert sorted(ds['a'].values) == [1, 2, 3]
            assert ds['x'].sel(a=1, b=2).item() == 12
            assert ds['x'].sel(a=3, b=2).item() == 32
            assert listing(d) == ['data' + ext]

            # the stale first harvester reloads before merging (sync=True)
            h.harvest_cases([{'a': 4, 'b': 1}], verbosity=0)
            ds = check_same(h, path, engine)
            assert ds['x'].sel(a=3, b=1).item() == 31
            assert ds['x'].sel(a=4, b=1).item() == 41
            assert np.isnan(ds['x'].sel(a=4, b=2).item())

            # conflicting data, default policy: error, memory+disk unchanged
            before_disk = disk(path, engine)
            before_mem = h.full_ds.copy(deep=True)
            hc = xyzpy.Harvester(mk_runner(fn2), base, engine=engine)
            try:
                hc.harvest_combos({'a': [1], 'b': [1]}, verbosity=0)
            except xr.MergeError:
                pass
            else:
                raise AssertionError('conflict not raised')
            assert disk(path, engine).identical(before_disk)
            assert h.full_ds.identical(before_mem)
            assert listing(d) == ['data' + ext]

            # overwrite=False keeps the old, adds the new points
            hc.harvest_combos({'a': [1, 5], 'b': [1]}, overwrite=False,
                              verbosity=0)
            ds = check_same(hc, path, engine)
            assert ds['x'].sel(a=1, b=1).item() == 11
            assert ds['x'].sel(a=5, b=1).item() == 1051

            # overwrite=True keeps the new
            hc.harvest_cases([(1, 1)], overwrite=True, verbosity=0)
            ds = check_same(hc, path, engine)
            assert ds['x'].sel(a=1, b=1).item() == 1011
            assert ds['x'].sel(a=2, b=2).item() == 22
            assert ds['x'].sel(a=4, b=1).item() == 41

            # sync=False: memory only, disk untouched, then explicit save
            before_disk = disk(path, engine)
            h3 = xyzpy.Harvester(mk_runner(), base, engine=engine)
            h3.load_full_ds()
            h3.harvest_combos({'a': [6], 'b': [2]}, sync=False, verbosity=0)
            assert h3.full_ds['x'].sel(a=6, b=2).item() == 62
            assert disk(path, engine).identical(before_disk)
            h3.save_full_ds()
            ds = check_same(h3, path, engine)
            assert ds['x'].sel(a=6, b=2).item() == 62
            assert ds['x'].sel(a=1, b=1).item() == 1011
            assert listing(d) == ['data' + ext]

            # drop_sel via a stale harvester: reloads first, syncs after
            h.drop_sel(a=5)
            ds = check_same(h, path, engine)
            assert 5 not in ds['a'].values
            assert ds['x'].sel(a=6, b=2).item() == 62
            assert ds['x'].sel(a=3, b=2).item() == 32
            # labels as dict + errors='ignore' on a missing label
            h2.drop_sel({'a': [77]}, errors='ignore')
            ds2 = check_same(h2, path, engine)
            assert ds2.identical(ds)
            # missing label with errors='raise': error, nothing changes
            try:
                h2.drop_sel(a=77)
            except KeyError:
                pass
            else:
                raise AssertionError('drop_sel missing label not raised')
            assert disk(path, engine).identical(ds)
            assert listing(d) == ['data' + ext]

            # expand_dims via another stale harvester
            h3.harvest_cases([{'a': 7, 'b': 1}], verbosity=0)
            hc.expand_dims('c', 0.5)
            ds = check_same(hc, path, engine)
            assert ds['x'].dims[0] == 'c' and list(ds['c'].values) == [0.5]
            assert ds['x'].sel(a=7, b=1, c=0.5).item() == 71
            assert ds['x'].sel(a=1, b=1, c=0.5).item() == 1011
            assert listing(d) == ['data' + ext]

            # explicit engine argument on load / save
            h4 = xyzpy.Harvester(mk_runner(), base, engine=None)
            assert h4.engine == 'h5netcdf'
            h4.load_full_ds(engine=engine)
            assert h4._full_ds.identical(ds)
            h4.save_full_ds(engine=engine)
            assert disk(path, engine).identical(ds)
            other = h4.full_ds.isel(a=[0, 1])
            h4.save_full_ds(other, engine=engine)
            assert h4._full_ds is other
            assert disk(path, engine).identical(other)
            assert listing(d) == ['data' + ext]

            # file exists but not writable -> OSError naming data_name
            real_access = os.access
            try:
                os.access = lambda p, mode: False
                try:
                    h4.load_full_ds(engine=engine)
                except OSError as e:
                    assert base in str(e) and 'cannot be written' in str(e)
                else:
                    raise AssertionError('OSError not raised')
                # missing file and not accessible: silently nothing
                h5 = xyzpy.Harvester(
                    mk_runner(), os.path.join(d, 'absent'), engine=engine)
                h5.load_full_ds()
                assert h5._full_ds is None
            finally:
                os.access = real_access
            assert h4._full_ds is other

            h.delete_ds()
            assert listing(d) == []

            # chunks (harvester default and per-call) are forwarded on load
            if engine == 'h5netcdf':
                hk = xyzpy.Harvester(mk_runner(), base, engine=engine,
                                     chunks={'a': 1})
                hk.harvest_combos({'a': [1, 2], 'b': [1]}, verbosity=0)
                hk.harvest_combos({'a': [3], 'b': [1]}, verbosity=0)
                assert hk.full_ds['x'].chunks is not None
                hk.load_full_ds()
                assert hk._full_ds['x'].chunks is not None
                hk.load_full_ds(chunks=2)
                assert hk._full_ds['x'].chunks is not None
                got = disk(path, engine)
                assert got['x'].sel(b=1).values.tolist() == [11, 21, 31]
                assert hk.full_ds.load().equals(got)
                hk.drop_sel(a=2)
                assert disk(path, engine)['a'].values.tolist() == [1, 3]
                assert listing(d) == ['data' + ext]
                hk.delete_ds()
                assert listing(d) == []

        # ---- no data_name: purely in memory ------------------------------- #
        hm = xyzpy.Harvester(mk_runner())
        hm.harvest_combos({'a': [1, 2], 'b': [1]}, verbosity=0)
        hm.harvest_combos({'a': [3], 'b': [1]}, verbosity=0)
        assert list(hm.full_ds['a'].values) == [1, 2, 3]
        hm.expand_dims('c', 9)
        assert hm.full_ds['x'].sel(a=3, b=1, c=9).item() == 31
        hm.drop_sel(a=2)
        assert list(hm.full_ds['a'].values) == [1, 3]
        hm.drop_sel(None, errors='ignore', a=[55])
        assert list(hm.full_ds['a'].values) == [1, 3]
        try:
            hm.save_full_ds()
        except XYZError as e:
            assert 'data_name' in str(e)
        else:
            raise AssertionError('save without data_name not raised')
        try:
            hm.load_full_ds()
        except TypeError:
            pass
        else:
            raise AssertionError('load without data_name not raised')
        # expand_dims / drop_sel on an empty in-memory harvester
        he = xyzpy.Harvester(mk_runner())
        for op in (lambda: he.expand_dims('c', 1), lambda: he.drop_sel(a=1)):
            try:
                op()
            except TypeError:
                pass
            else:
                raise AssertionError('expected TypeError, no data_name')
        assert he._full_ds is None

        # ---- initial full_ds given, closing of the replaced dataset ------- #
        d = os.path.join(tmp, 'init')
        os.mkdir(d)
        base = os.path.join(d, 'init')

        class Spy(xr.Dataset):
            __slots__ = ()
            closed = []

            def close(self):
                Spy.closed.append(id(self))
                return super().close()

        init = Spy({'x': ('a', [1.0, 2.0])}, coords={'a': [1, 2]})
        hi = xyzpy.Harvester(mk_runner(), base, full_ds=init)
        assert hi.full_ds is init
        hi.save_full_ds()
        assert Spy.closed == []
        assert listing(d) == ['init.h5']
        repl = xr.Dataset({'x': ('a', [5.0])}, coords={'a': [9]})
        hi.save_full_ds(repl)
        assert Spy.closed == [id(init)]
        assert hi.full_ds is repl
        assert load_ds(base).identical(repl)
        assert listing(d) == ['init.h5']

        # a failing write leaves the old file in place and (as before) the
        # new dataset in memory
        real_save = farming.save_ds

        def bad_save(*args, **kwargs):
            raise RuntimeError('disk full')

        farming.save_ds = bad_save
        try:
            try:
                hi.save_full_ds(init)
            except RuntimeError:
                pass
            else:
                raise AssertionError('expected RuntimeError')
        finally:
            farming.save_ds = real_save
        assert load_ds(base).identical(repl)
        assert hi._full_ds is init
        assert listing(d) == ['init.h5']
        hi.save_full_ds(repl)
        assert Spy.closed == [id(init), id(init)]

        # order of observable steps of a sync'd write: tmp written, replaced
        events = []
        real_replace = os.replace

        def spy_save(ds, file_name, engine='h5netcdf', **kw):
            events.append(('save', os.path.basename(file_name), engine))
            return real_save(ds, file_name, engine=engine, **kw)

        def spy_replace(src, dst):
            events.append(('replace', os.path.basename(src),
                           os.path.basename(dst)))
            return real_replace(src, dst)

        farming.save_ds = spy_save
        os.replace = spy_replace
        try:
            hi.expand_dims('c', 3, engine='joblib')
        finally:
            farming.save_ds = real_save
            os.replace = real_replace
        assert events == [('save', 'init.dmp.tmp', 'joblib'),
                          ('replace', 'init.dmp.tmp', 'init.dmp')], events
        assert listing(d) == ['init.dmp', 'init.h5']
        assert load_ds(base, engine='joblib')['c'].values.tolist() == [3]
        assert load_ds(base).identical(repl)

        assert len(CALLS) > 0
    finally:
        shutil.rmtree(tmp, ignore_errors=True)

    print('PASS')


if __name__ == '__main__':
    main()
