#!/usr/bin/env python
"""Demo for refactoring t1 (``xyzpy.gen.cropping.write_to_disk``).

Property C10: killing a worker at any instant while sowing / growing /
reaping never corrupts what is later reaped.

The program forks a child for every file-system operation boundary, lets the
child die there with ``os._exit`` (no ``finally`` blocks, no buffer flushes,
exactly like SIGKILL) and then checks in the parent that

  * a naive ``reap`` of the crashed crop either refuses with an error or
    returns exactly the results of an uninterrupted run;
  * the documented recovery (re-sow if the sown files are incomplete, discard
    bad results, grow the missing batches, reap) yields exactly the results of
    an uninterrupted run, also when the recovery itself is killed once.

It also unit-tests ``write_to_disk`` directly (atomic over-write of an existing
file at every kill point, private temporary names, several kinds of objects).

Run as:  cd <worktree> && /venv/bin/python /path/to/demo.py
"""
import os
import sys

sys.path.insert(0, os.getcwd())

import builtins  # noqa: E402
import glob  # noqa: E402
import pickle  # noqa: E402
import shutil  # noqa: E402
import tempfile  # noqa: E402
import traceback  # noqa: E402
import warnings  # noqa: E402

warnings.filterwarnings("ignore")

import numpy as np  # noqa: E402
import tqdm  # noqa: E402


class _QuietTqdm(tqdm.tqdm):
    """No progress bars on stderr please."""

    def __init__(self, *args, **kwargs):
        kwargs["disable"] = True
        super().__init__(*args, **kwargs)


tqdm.tqdm = _QuietTqdm

import xyzpy  # noqa: E402
from xyzpy.gen import cropping, farming  # noqa: E402
from xyzpy.gen.cropping import Crop, grow  # noqa: E402

assert os.path.abspath(xyzpy.__file__).startswith(
    os.path.abspath(os.getcwd()) + os.sep
), xyzpy.__file__

KILL = 77
N_CHECKS = 0
N_KILLS = 0


# --------------------------------------------------------------------------- #
#                           crash injection machinery                         #
# --------------------------------------------------------------------------- #


class Inject:
    """Counts the file-system operation boundaries that are passed, the
    process dies at boundary number ``target``."""

    def __init__(self, root, target, rev=False):
        self.root = os.path.realpath(root)
        self.target = target
        self.rev = rev
        self.n = 0

    def hit(self):
        self.n += 1
        return self.n == self.target

    def point(self):
        if self.hit():
            os._exit(KILL)

    def mine(self, path):
        if not isinstance(path, (str, bytes, os.PathLike)):
            return False
        p = os.path.realpath(os.fsdecode(os.fspath(path)))
        return p == self.root or p.startswith(self.root + os.sep)


class FileProxy:
    """A binary file being written, that can die in the middle of a write."""

    def __init__(self, f, inj):
        self._f = f
        self._inj = inj

    def write(self, data):
        data = bytes(data)
        n = len(data)
        for cut in sorted({1, n // 2, n - 1}):
            if 0 < cut < n and self._inj.hit():
                # a prefix of the data reaches the disk, then we die
                self._f.write(data[:cut])
                self._f.flush()
                os._exit(KILL)
        r = self._f.write(data)
        if self._inj.hit():
            # everything written so far reaches the disk, file never closed
            self._f.flush()
            os._exit(KILL)
        return r

    def close(self):
        if not self._f.closed:
            self._inj.point()  # before close: buffered data is lost
            self._f.close()
            self._inj.point()  # after close
        else:
            self._f.close()

    def __enter__(self):
        return self

    def __exit__(self, *exc):
        self.close()

    def __getattr__(self, name):
        return getattr(self._f, name)


def install(inj):
    """Only ever called in a forked child."""
    real_open = builtins.open
    real_replace = os.replace
    real_remove = os.remove
    real_rmtree = shutil.rmtree
    real_makedirs = os.makedirs

    def open_(file, mode="r", *args, **kwargs):
        if ("w" in mode) and ("b" in mode) and inj.mine(file):
            inj.point()  # before open
            f = real_open(file, mode, *args, **kwargs)
            inj.point()  # after create / truncate
            return FileProxy(f, inj)
        return real_open(file, mode, *args, **kwargs)

    def replace_(src, dst, **kwargs):
        if inj.mine(dst):
            inj.point()  # before rename
            real_replace(src, dst, **kwargs)
            inj.point()  # after rename
        else:
            real_replace(src, dst, **kwargs)

    def remove_(path, **kwargs):
        if inj.mine(path):
            inj.point()
            real_remove(path, **kwargs)
            inj.point()
        else:
            real_remove(path, **kwargs)

    def makedirs_(path, *args, **kwargs):
        if inj.mine(path):
            inj.point()
            real_makedirs(path, *args, **kwargs)
            inj.point()
        else:
            real_makedirs(path, *args, **kwargs)

    def rmtree_(path, *args, **kwargs):
        if not inj.mine(path):
            return real_rmtree(path, *args, **kwargs)

        def rm(d):
            for e in sorted(os.listdir(d), reverse=inj.rev):
                p = os.path.join(d, e)
                if os.path.isdir(p) and not os.path.islink(p):
                    rm(p)
                else:
                    inj.point()  # between the deletions
                    real_remove(p)
            inj.point()
            os.rmdir(d)

        rm(path)
        inj.point()

    def wrap_save(real_save, fname_of):
        def save_(obj, name, *args, **kwargs):
            inj.point()  # before the save starts
            if inj.hit():
                # created but nothing written
                real_open(fname_of(name, *args, **kwargs), "wb").close()
                os._exit(KILL)
            if inj.hit():
                # partially written
                real_save(obj, name, *args, **kwargs)
                fname = fname_of(name, *args, **kwargs)
                os.truncate(fname, os.path.getsize(fname) // 2)
                os._exit(KILL)
            real_save(obj, name, *args, **kwargs)
            inj.point()  # after the save finished

        return save_

    def ds_fname(name, engine="h5netcdf", **kwargs):
        return xyzpy.manage.auto_add_extension(name, engine)

    def df_fname(name, engine="pickle", **kwargs):
        return name

    builtins.open = open_
    os.replace = replace_
    os.remove = remove_
    os.makedirs = makedirs_
    shutil.rmtree = rmtree_
    farming.save_ds = wrap_save(farming.save_ds, ds_fname)
    farming.save_df = wrap_save(farming.save_df, df_fname)


def run_killed(root, target, action, rev=False):
    """Run ``action()`` in a forked child that dies at boundary ``target``.
    Returns 'killed', or 'done' if the action finished before that."""
    global N_KILLS
    sys.stdout.flush()
    sys.stderr.flush()
    pid = os.fork()
    if pid == 0:
        code = 1
        try:
            install(Inject(root, target, rev))
            action()
            code = 0
        except BaseException:
            traceback.print_exc()
            sys.stderr.flush()
        finally:
            os._exit(code)
    _, status = os.waitpid(pid, 0)
    code = os.waitstatus_to_exitcode(status)
    if code == 0:
        return "done"
    if code == KILL:
        N_KILLS += 1
        return "killed"
    raise AssertionError("child failed with exit code {}".format(code))


def check(cond, msg):
    global N_CHECKS
    N_CHECKS += 1
    if not cond:
        raise AssertionError(msg)


# --------------------------------------------------------------------------- #
#                                 scenarios                                   #
# --------------------------------------------------------------------------- #


def fn_num(a, b):
    return a * 10 + b


def fn_arr(a, b):
    return np.arange(3) * a + b, "s{}-{}".format(a, b)


COMBOS = {"a": [1, 2, 3], "b": [10, 20]}


def deep_equal(x, y):
    """Exact structural equality (types, dtypes, shapes and values)."""
    if type(x) is not type(y):
        return False
    if isinstance(x, (tuple, list)):
        return len(x) == len(y) and all(map(deep_equal, x, y))
    if isinstance(x, np.ndarray):
        return (
            x.dtype == y.dtype
            and x.shape == y.shape
            and bool(np.array_equal(x, y))
        )
    return bool(x == y)


class RawScenario:
    """A crop without farmer, reaped to a nested tuple."""

    def __init__(self, name, fn, crop_opts, grow_how):
        self.name = name
        self.fn = fn
        self.crop_opts = crop_opts
        self.grow_how = grow_how

    def crop(self, root):
        return Crop(fn=self.fn, name="c", parent_dir=root, **self.crop_opts)

    def sow(self, crop):
        crop.sow_combos(COMBOS, verbosity=0)

    def grow(self, crop):
        if self.grow_how == "missing":
            crop.grow_missing(verbosity=0)
        elif self.grow_how == "ids":
            crop.grow(crop.missing_results(), verbosity=0)
        else:
            for i in crop.missing_results():
                grow(i, crop=crop, verbosity=0)

    def reap(self, crop):
        return crop.reap()

    def prepare(self, root):
        pass

    def survives(self, root):
        pass

    def same(self, x, y):
        return deep_equal(x, y)


class RunnerScenario(RawScenario):
    """A crop of a Runner, reaped to a dataset."""

    def crop(self, root):
        r = xyzpy.Runner(self.fn, var_names=["x", "s"],
                         var_dims={"x": ["t"]}, var_coords={"t": [0, 1, 2]})
        return r.Crop(name="c", parent_dir=root, **self.crop_opts)

    def same(self, x, y):
        return x.identical(y)


def sown_files_complete(crop):
    """Is everything that sowing writes there?"""
    loc = crop.location
    if not (
        crop.is_prepared()
        and os.path.isfile(os.path.join(loc, cropping.FNCT_NM))
        and os.path.isdir(os.path.join(loc, "batches"))
        and os.path.isdir(os.path.join(loc, "results"))
    ):
        return False
    info = crop.load_info()
    return all(
        os.path.isfile(
            os.path.join(loc, "batches", cropping.BTCH_NM.format(i))
        )
        for i in range(1, info["num_batches"] + 1)
    )


def recover(sc, root):
    """The documented recovery."""
    crop = sc.crop(root)
    if not sown_files_complete(crop):
        sc.sow(crop)
    crop.check_bad(delete_bad=True)
    sc.grow(crop)
    return sc.reap(crop)


def uninterrupted(sc):
    with tempfile.TemporaryDirectory() as root:
        sc.prepare(root)
        crop = sc.crop(root)
        sc.sow(crop)
        sc.grow(crop)
        res = sc.reap(crop)
        check(not os.path.exists(crop.location), "crop not cleaned up")
        return res


def setup_phase(sc, root, phase):
    sc.prepare(root)
    crop = sc.crop(root)
    if phase in ("grow", "reap", "resow", "grow-half"):
        sc.sow(crop)
    if phase in ("reap", "resow"):
        sc.grow(crop)
    if phase == "grow-half":
        crop.grow(1, verbosity=0)


def phase_action(sc, root, phase, expected):
    def action():
        crop = sc.crop(root)
        if phase in ("sow", "resow"):
            sc.sow(crop)
        elif phase in ("grow", "grow-half"):
            sc.grow(crop)
        elif phase == "reap":
            res = sc.reap(crop)
            assert sc.same(res, expected), "child reaped wrong data"
        else:
            raise ValueError(phase)

    return action


def naive_reap_check(sc, root, expected, what):
    """Reaping a crashed crop refuses or is exact."""
    with tempfile.TemporaryDirectory() as tmp:
        copy = os.path.join(tmp, "copy")
        shutil.copytree(root, copy)
        try:
            res = sc.reap(sc.crop(copy))
        except Exception:
            refused = True
        else:
            refused = False
            check(sc.same(res, expected),
                  "{}: naive reap returned wrong data".format(what))
        sc.survives(copy)
    return refused


def check_crashed(sc, root, expected, what, second_stride=0):
    sc.survives(root)
    naive_reap_check(sc, root, expected, what)

    if second_stride:
        # kill the recovery as well
        j = 1
        while True:
            with tempfile.TemporaryDirectory() as tmp:
                copy = os.path.join(tmp, "copy")
                shutil.copytree(root, copy)
                out = run_killed(copy, j, lambda: recover(sc, copy))
                if out == "done":
                    break
                what2 = "{} + recovery kill {}".format(what, j)
                check_crashed(sc, copy, expected, what2, 0)
            j += second_stride

    res = recover(sc, root)
    check(sc.same(res, expected), "{}: recovery not exact".format(what))
    sc.survives(root)
    check(not os.path.exists(sc.crop(root).location),
          "{}: crop not cleaned up".format(what))


def crash_everywhere(sc, phases, second=None, rev=False):
    expected = uninterrupted(sc)
    counts = {}
    for phase in phases:
        k = 1
        while True:
            with tempfile.TemporaryDirectory() as root:
                setup_phase(sc, root, phase)
                out = run_killed(
                    root, k, phase_action(sc, root, phase, expected), rev
                )
                if out == "done":
                    if phase != "reap":
                        # finish the job normally
                        res = recover(sc, root)
                        check(sc.same(res, expected), "plain run differs")
                    break
                what = "{} / {} / kill {}".format(sc.name, phase, k)
                stride = 0
                if second and (k % second[0] == 0):
                    stride = second[1]
                check_crashed(sc, root, expected, what, stride)
            k += 1
        counts[phase] = k - 1
        check(k - 1 >= 4, "suspiciously few kill points in " + phase)
    print("  {:<28} kill points per phase: {}".format(sc.name, counts))


# --------------------------------------------------------------------------- #
#                       direct tests of ``write_to_disk``                     #
# --------------------------------------------------------------------------- #


def unit_write_to_disk():
    objs = [
        {"a": 1, "b": [1, 2, 3]},
        tuple(range(1000)),
        (np.arange(2000.0), "x" * 5000, None),
        [],
        b"\x00" * 100000,
    ]
    with tempfile.TemporaryDirectory() as root:
        fname = os.path.join(root, "thing.jbdmp")

        # plain round trips, over-writing each other
        for obj in objs:
            cropping.write_to_disk(obj, fname)
            back = cropping.read_from_disk(fname)
            check(pickle.dumps(back) == pickle.dumps(obj), "round trip")
            check(os.listdir(root) == ["thing.jbdmp"], "stray files")
            with open(fname, "rb") as f:
                check(f.read() == pickle.dumps(obj), "bytes on disk")

        # kill at every boundary while over-writing OLD with NEW
        old, new = objs[1], objs[2]
        k = 1
        while True:
            for f in os.listdir(root):
                os.remove(os.path.join(root, f))
            cropping.write_to_disk(old, fname)
            out = run_killed(
                root, k, lambda: cropping.write_to_disk(new, fname)
            )
            back = cropping.read_from_disk(fname)
            if out == "done":
                check(pickle.dumps(back) == pickle.dumps(new), "new content")
                check(os.listdir(root) == ["thing.jbdmp"], "stray files")
                break
            # the target is always complete: old or new, never a mixture
            is_old = pickle.dumps(back) == pickle.dumps(old)
            is_new = pickle.dumps(back) == pickle.dumps(new)
            check(is_old or is_new, "torn file at kill {}".format(k))
            # anything left over is a private temporary next to the target
            for f in os.listdir(root):
                check(
                    f == "thing.jbdmp"
                    or (f.startswith("thing.jbdmp.") and f.endswith(".tmp")),
                    "unexpected file " + f,
                )
            k += 1
        check(k - 1 >= 7, "too few kill points: {}".format(k - 1))

        # killed before anything existed -> target simply does not exist
        fresh = os.path.join(root, "fresh.jbdmp")
        for k2 in range(1, k):
            out = run_killed(
                root, k2, lambda: cropping.write_to_disk(new, fresh)
            )
            check(out == "killed", "same number of kill points")
            if os.path.exists(fresh):
                back = cropping.read_from_disk(fresh)
                check(pickle.dumps(back) == pickle.dumps(new), "fresh torn")
                os.remove(fresh)
        tmps = glob.glob(os.path.join(root, "fresh.jbdmp.*.tmp"))
        check(len(set(tmps)) == len(tmps) and len(tmps) >= 5,
              "temporaries should have distinct private names")

        # writing into a missing directory raises and creates nothing
        try:
            cropping.write_to_disk(1, os.path.join(root, "no", "x.jbdmp"))
        except FileNotFoundError:
            pass
        else:
            check(False, "expected FileNotFoundError")
        check(not os.path.exists(os.path.join(root, "no")), "dir created")
    print("  write_to_disk unit checks ok ({} kill points)".format(k - 1))


def main():
    unit_write_to_disk()

    crash_everywhere(
        RawScenario("raw/batchsize=2/missing", fn_num,
                    dict(batchsize=2), "missing"),
        ["sow", "grow", "reap", "resow"],
        second=(5, 4),
    )
    crash_everywhere(
        RawScenario("raw/num_batches=4/fn-grow", fn_arr,
                    dict(num_batches=4), "fn"),
        ["sow", "grow-half", "reap"],
        rev=True,
    )
    crash_everywhere(
        RunnerScenario("runner/batchsize=3/ids", fn_arr,
                       dict(batchsize=3), "ids"),
        ["sow", "grow", "reap"],
        second=(9, 6),
        rev=True,
    )
    print("{} kills, {} checks".format(N_KILLS, N_CHECKS))
    print("PASS")


if __name__ == "__main__":
    main()
