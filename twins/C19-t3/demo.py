"""C19 demo 3: estimate_from_repeats stopping rule.

Repeated estimation stops only once the requested relative error is met (and
more than ``min_samples`` were inspected) or the sample limit is reached, never
exceeds that limit, and reports the statistics of exactly the samples drawn.

Run as:  cd <worktree> && /venv/bin/python /path/to/demo.py
"""
import os
import sys

sys.path.insert(0, os.getcwd())

import contextlib
import io
import itertools

import numpy as np
import xyzpy as xyz
import xyzpy.utils as xu

assert os.path.dirname(os.path.abspath(xyz.__file__)) == os.path.join(
    os.getcwd(), "xyzpy"
), xyz.__file__

EPS = np.finfo(float).eps
NCHECK = 0


def check(cond, msg):
    global NCHECK
    NCHECK += 1
    if not cond:
        print("FAIL:", msg)
        sys.exit(1)


def welford(xs):
    count, mean, M2 = 0, 0.0, 0.0
    for x in xs:
        count += 1
        delta = x - mean
        mean += delta / count
        M2 += delta * (x - mean)
    return count, mean, M2


def expected_stop(xs_all, rtol, tol_scale, min_samples, max_samples):
    """Number of samples that should be drawn from the stream ``xs_all``."""
    count, mean, M2 = 0, 0.0, 0.0
    for i, x in enumerate(xs_all):
        count += 1
        delta = x - mean
        mean += delta / count
        M2 += delta * (x - mean)
        err = ((M2 / count) ** 0.5) / count**0.5
        if i > min_samples and err < rtol * abs(mean) + tol_scale * rtol:
            return count
        if i >= max_samples - 1:
            return count
    raise AssertionError("stream too short")


class Source:
    """Deterministic stream of samples that records how often it is called."""

    def __init__(self, values):
        self.values = values
        self.calls = 0
        self.seen_args = []

    def __call__(self, *args, **kwargs):
        self.seen_args.append((args, kwargs))
        v = self.values[self.calls]
        self.calls += 1
        return v


def streams(rng):
    N = 700
    yield "const", [3.25] * N
    yield "zeros", [0.0] * N
    yield "alternating", [1.0 + 0.5 * (-1) ** k for k in range(N)]
    yield "ramp", [float(k) for k in range(N)]
    yield "noisy", (5.0 + rng.standard_normal(N)).tolist()
    yield "noisy-small", (1e-3 * rng.standard_normal(N)).tolist()
    yield "offset", (1e9 + 1e-3 * rng.standard_normal(N)).tolist()
    yield "neg", (-40.0 + 10 * rng.standard_normal(N)).tolist()
    yield "uniform", rng.uniform(0, 1, N).tolist()
    yield "heavy", (rng.standard_cauchy(N)).tolist()


def run_quiet(*args, **kwargs):
    out, err = io.StringIO(), io.StringIO()
    with contextlib.redirect_stdout(out), contextlib.redirect_stderr(err):
        res = xyz.estimate_from_repeats(*args, **kwargs)
    return res, out.getvalue(), err.getvalue()


class FakeBar:
    """Stand-in for the tqdm progress bar, records what is done to it."""

    instances = []

    def __init__(self, it=None, **kwargs):
        self.it = it
        self.descriptions = []
        self.closed = 0
        FakeBar.instances.append(self)

    def __iter__(self):
        return iter(self.it)

    def set_description(self, s):
        self.descriptions.append(s)

    def close(self):
        self.closed += 1


def main():
    rng = np.random.default_rng(190)

    # ---- sweep over stopping parameters ------------------------------------
    for name, values in streams(rng):
        for rtol, tol_scale, min_samples, max_samples in itertools.product(
            (0.5, 0.1, 0.02, 1e-3, 0.0),
            (1.0, 1e-3, 100.0, 0.0),
            (0, 1, 5, 20),
            (1, 2, 6, 7, 8, 50, 600),
        ):
            want_n = expected_stop(values, rtol, tol_scale, min_samples, max_samples)
            for get in ("stats", "samples", "mean"):
                src = Source(values)
                res = xyz.estimate_from_repeats(
                    src,
                    rtol=rtol,
                    tol_scale=tol_scale,
                    min_samples=min_samples,
                    max_samples=max_samples,
                    get=get,
                )
                tag = (name, rtol, tol_scale, min_samples, max_samples, get)
                check(src.calls == want_n, f"number of draws {src.calls} {tag}")
                check(src.calls <= max_samples, f"exceeds max_samples {tag}")
                drawn = values[: src.calls]
                ref = welford(drawn)
                if get == "mean":
                    check(res == ref[1] and type(res) is float, f"mean {tag}")
                    continue
                if get == "samples":
                    rs, xs = res
                    check(type(xs) is list and xs == drawn, f"samples {tag}")
                else:
                    rs = res
                check(type(rs) is xyz.RunningStatistics, f"type {tag}")
                check((rs.count, rs.mean, rs.M2) == ref, f"stats of drawn {tag}")
                # whole-sample statistics of exactly the samples drawn
                a = np.asarray(drawn)
                u = EPS * max(np.abs(a).max(), 1e-300)
                check(abs(rs.mean - a.mean()) <= 64 * u, f"np mean {tag}")
                check(
                    abs(rs.var - a.var()) <= 64 * u * max(a.std(), u),
                    f"np var {tag}",
                )
                check(abs(rs.std - a.std()) <= 64 * u, f"np std {tag}")
                check(
                    abs(rs.err - a.std() / a.size**0.5) <= 64 * u, f"np err {tag}"
                )
                # stops only once converged or at the limit
                if rs.count < max_samples:
                    check(rs.count >= min_samples + 2, f"stopped early {tag}")
                    check(
                        rs.converged(rtol, tol_scale * rtol),
                        f"stopped unconverged {tag}",
                    )
                    check(
                        rs.err < rtol * abs(rs.mean) + rtol * tol_scale,
                        f"rel error not met {tag}",
                    )

    # ---- noisy generator with its own rng, fn_args / fn_kwargs passed ------
    for seed in range(5):
        for rtol in (0.2, 0.05, 0.01):
            gen = np.random.default_rng(seed)
            log = []

            def fn(n, scale=1.0, _gen=gen, _log=log):
                v = scale * _gen.random(n).sum()
                _log.append(v)
                return v

            rs, xs = xyz.estimate_from_repeats(
                fn, 10, scale=2.0, rtol=rtol, get="samples", max_samples=5000
            )
            check(xs == log and rs.count == len(log), "noisy samples")
            check((rs.count, rs.mean, rs.M2) == welford(log), "noisy stats")
            check(rs.count < 5000 and rs.rel_err < rtol * (1 + 1 / abs(rs.mean)), "noisy conv")
            check(abs(rs.mean - 10.0) < 6 * max(rs.err, 0.05), "noisy mean sane")
            check(
                rs.count == expected_stop(log + [0.0], rtol, 1.0, 5, 5000),
                "noisy stop index",
            )

    # defaults: rtol=0.02, tol_scale=1, min_samples=5, max_samples=1000000
    src = Source([1.0] * 20)
    rs = xyz.estimate_from_repeats(src)
    check(src.calls == 7 and rs.count == 7 and rs.mean == 1.0, "defaults")
    src = Source([1.0] * 20)
    rs = xyz.estimate_from_repeats(src, "a", 2, key="v")
    check(src.seen_args == [(("a", 2), {"key": "v"})] * 7, "args forwarded")

    # unknown ``get`` falls back to the stats object
    rs = xyz.estimate_from_repeats(Source([2.0] * 20), get="other")
    check(type(rs) is xyz.RunningStatistics and rs.count == 7, "get other")

    # ---- KeyboardInterrupt stops cleanly with the samples so far -----------
    for verbosity in (0, 1, 2):
        vals = (7.0 + rng.standard_normal(40)).tolist()
        calls = []

        def interrupted(_vals=vals, _calls=calls):
            if len(_calls) == 11:
                raise KeyboardInterrupt
            _calls.append(_vals[len(_calls)])
            return _calls[-1]

        (rs, xs), out, err = run_quiet(
            interrupted, rtol=0.0, get="samples", verbosity=verbosity
        )
        check(xs == vals[:11] and rs.count == 11, "interrupt samples")
        check((rs.count, rs.mean, rs.M2) == welford(vals[:11]), "interrupt stats")
        check(out == (repr(rs) + "\n" if verbosity else ""), "interrupt stdout")

    # other exceptions propagate (and the progress bar is closed)
    def broken():
        raise ValueError("boom")

    for verbosity in (0, 1, 2):
        try:
            run_quiet(broken, verbosity=verbosity)
        except ValueError as e:
            check(str(e) == "boom", "propagates")
        else:
            check(False, "ValueError expected")

    # ---- verbosity: real progress bar ---------------------------------------
    vals = (5.0 + rng.standard_normal(700)).tolist()
    for verbosity in (0, 1, 2, 3):
        src = Source(vals)
        rs, out, err = run_quiet(src, rtol=0.05, verbosity=verbosity)
        n = expected_stop(vals, 0.05, 1.0, 5, 1000000)
        check(rs.count == src.calls == n, "verbose count")
        check((rs.count, rs.mean, rs.M2) == welford(vals[:n]), "verbose stats")
        if verbosity == 0:
            check(out == "" and err == "", "silent")
        else:
            check(out == repr(rs) + "\n", f"printed stats {out!r}")
            check("it" in err, "progress bar on stderr")
        if verbosity >= 2:
            last = f"{rs.count}: {xyz.utils.format_number_with_error(rs.mean, rs.err)}"
            check(last in err, "final description shown")

    # ---- verbosity: recorded progress bar calls -----------------------------
    real_progbar = xu.progbar
    xu.progbar = FakeBar
    try:
        for verbosity in (0, 1, 2):
            for name, values in streams(rng):
                FakeBar.instances.clear()
                src = Source(values)
                (rs, xs), out, err = run_quiet(
                    src,
                    rtol=0.03,
                    max_samples=40,
                    min_samples=3,
                    verbosity=verbosity,
                    get="samples",
                )
                check(xs == values[: rs.count], "fakebar samples")
                if verbosity == 0:
                    check(FakeBar.instances == [] and out == "", "no bar")
                    continue
                (bar,) = FakeBar.instances
                check(bar.closed == 1, "closed once")
                check(out == repr(rs) + "\n", "fakebar stdout")
                if verbosity == 1:
                    check(bar.descriptions == [], "no descriptions")
                else:
                    want = []
                    for k in range(1, rs.count + 1):
                        c, m, M2 = welford(xs[:k])
                        e = ((M2 / c) ** 0.5) / c**0.5
                        want.append(
                            str(c) + ": " + xu.format_number_with_error(m, e)
                        )
                    check(bar.descriptions == want, f"descriptions {name}")
    finally:
        xu.progbar = real_progbar

    print(f"{NCHECK} checks")
    print("PASS")


if __name__ == "__main__":
    main()
